"""C13 - documented spelling variants of the same program assemble to identical bytes (structural clauses)."""
import ast

from ..core import Report, Finding, AnalysisError
from ..facts import Facts
from .. import encprops, lexrules

LEVEL = 'other'


def check_base_offset(rep, facts):
    have = facts.sets.get('BASE_OFFSET_INSTRUCTIONS')
    if have is None:
        raise AnalysisError('anchor vanished: BASE_OFFSET_INSTRUCTIONS')
    want = {'jalr', 'lb', 'lh', 'lw', 'lbu', 'lhu', 'sb', 'sh', 'sw', 'c.lw', 'c.sw'}
    node = facts.assign_nodes['BASE_OFFSET_INSTRUCTIONS']
    present = set(facts.instructions())
    for m in sorted(want & present):
        rep.check(m in have, 'R13.2.base-offset', '`{} reg, imm(reg)` is accepted'.format(m),
                  lambda m=m: Finding('R13.2.base-offset', 'BASE_OFFSET_INSTRUCTIONS', 'missing ' + m, '{} is a base+offset instruction but its `imm(reg)` spelling is not recognised'.format(m), line=node.lineno))
    extra = sorted(have - want)
    rep.check(not extra, 'R13.2.base-offset', 'only base+offset instructions take the imm(reg) spelling',
              lambda: Finding('R13.2.base-offset', 'BASE_OFFSET_INSTRUCTIONS', 'extra', '{} are given the imm(reg) spelling although they have no base register + offset form'.format(extra), line=node.lineno), nontrivial=False)


def calls_through_values(fn, facts):
    """Calls in `fn` whose callee is a value (a local / loop variable, a table entry, the result of a call) rather than a
    module-level function, class or builtin: the token-provenance engine does not see through them."""
    local = lexrules.assigned_names(fn.body) | {a.arg for a in fn.args.posonlyargs + fn.args.args + fn.args.kwonlyargs}
    out = []
    for n in ast.walk(fn):
        if not isinstance(n, ast.Call):
            continue
        f = n.func
        if isinstance(f, ast.Name) and f.id in local and f.id not in facts.funcs and f.id not in facts.classes:
            out.append(n)
        elif isinstance(f, (ast.Subscript, ast.Call)):
            out.append(n)
    return out


def absorb(rep, scratch):
    for rule, instance, ok in scratch.obligations:
        if ok:
            rep.ok(rule, instance, (rule, instance) in scratch._nontrivial)
    for f in scratch.findings:
        rep.fail(f)
    for o in scratch.obligations:
        if not o[2] and o not in rep.obligations:
            rep.obligations.append(o)
    rep._nontrivial |= scratch._nontrivial
    for k, v in scratch.analysed.items():
        rep.count(k, v)
    for x in scratch.samples:
        rep.sample(x)
    for x in scratch.notes:
        rep.note(x)


def check_register_numbers(rep, facts):
    """R13.1: numeric register spellings in any base.  Decided on the dataflow of lookup_register (lexrules); where that cannot
    follow the operand (e.g. the conversion lives in a method of a register-file object) the verdict of the interpreted encoders
    is used when the shared engine offers one (encsum.register_spellings_normalised)."""
    try:
        lexrules.check_register_numbers(rep, facts)
        return
    except AnalysisError as e:
        from .. import encsum
        decide = getattr(encsum, 'register_spellings_normalised', None)
        if decide is None:
            raise
        why = str(e)
    ok, offenders = decide(facts)
    if ok is None:
        raise AnalysisError(why + ' (and the interpreted encoders saw no register operand)')
    node = facts.funcs.get('lookup_register')
    rep.count('register table lookups analysed', 1)
    rep.check(ok, 'R13.1.registers', 'numeric register spellings in any base go through int(., 0) (interpreted encoders)',
              lambda: Finding('R13.1.registers', 'lookup_register', node if node is not None else 'lookup_register',
                              'hex / binary register numbers are not normalised with int(., 0) before the table lookup for {}'.format(offenders[:6]),
                              line=getattr(node, 'lineno', None)), nontrivial=False)


def shared_engine_rules(rep, repo, facts):
    doc = repo.text['docs/instruction_reference.rst']
    scratch = Report(rep.prop, rep.level, '')
    encprops.check_wiring(scratch, facts, 'R13.2.wiring', False, doc)
    encprops.check_wiring(scratch, facts, 'R13.2.wiring', True, doc)
    if scratch.findings:
        # a wiring finding is only a verdict about a parser the token-provenance engine has followed completely: a parse_item that
        # hands over through values (dispatch table, parser callables) is outside it (the engine is shared; worked around here)
        pi = facts.funcs.get('parse_item')
        indirect = calls_through_values(pi, facts) if pi is not None else []
        if indirect:
            raise AnalysisError('parse_item dispatches through values (`{}`): the token-provenance rules R13.2.wiring do not follow '
                                'it ({} would-be findings discarded)'.format(ast.unparse(indirect[0])[:60], len(scratch.findings)))
    absorb(rep, scratch)
    # R13.6 decisions must not depend on how a register is spelled: predicates compare register *numbers*
    from ..comprel import CompRel
    rel = CompRel(facts)
    for fac, field in rel.raw_compares:
        node = rel.factories[fac][2]
        rep.fail(Finding('R13.6.normalised', 'transform_compressible.' + fac, node,
                         'the compression predicate {} compares the register operand `{}` as written instead of its number (lookup_register): `addi a0, x10, 1` and `addi a0, a0, 1` '
                         'name the same registers but are compressed differently, so bytes and labels depend on the spelling'.format(fac, field), line=node.lineno),
                 instance=fac + ' ' + str(field))
    if not rel.raw_compares:
        rep.ok('R13.6.normalised', 'all {} compression predicates compare register numbers, not spellings'.format(len(rel.factories)))


def run(repo, tier):
    facts = Facts(repo.asm)
    rep = Report('C13', LEVEL,
                 'Structural clauses of spelling invariance: the REGISTERS table maps number, numeric string, xN and every ABI alias of '
                 'register N to N (and nothing else); in each parse branch that accepts both, `imm(reg)` and `reg, imm` deliver the same '
                 'roles to the same constructor parameters (token-provenance dataflow) and every load / store / jalr takes both spellings; the '
                 'characters consumed between tokens (regex AST of the split pattern plus replacements made before it) are exactly whitespace '
                 'and commas; on the dataflow from the line text to the returned token list (followed through locals, helpers, precompiled '
                 'patterns, partition / re.sub / replace / strip, comprehensions, filter(), accumulator loops) the comment is removed before the '
                 'split, empty tokens are dropped and leading / trailing whitespace never yields a token; every Line is numbered by its position '
                 'in the unfiltered list of physical lines; every token line handed to parse_item on the way from assemble is known to have '
                 'tokens; lookup_register keys the table with int(operand, 0) where that succeeds and the operand itself otherwise.')
    rep.trusted_base = ['CPython ast and re._parser', 'bbverif.wiring token provenance', 'bbverif.lexrules abstract values']
    rep.not_decided = ['equality of whole binaries under arbitrary combinations of rewrites, in particular the interaction of the special-cased string / error lexing '
                       'with indentation and comments', 'integers spelled in forms only eval or only int(., 0) accepts']
    encprops.check_registers(rep, facts, 'R13.1.registers')
    check_base_offset(rep, facts)
    # the front end, decided on the dataflow of the line text / token lists / line objects / register operand (lexrules)
    lexrules.check_lexer(rep, facts)
    skips_blank = lexrules.check_reader(rep, facts)
    lexrules.check_handover(rep, facts, skips_blank)
    check_register_numbers(rep, facts)
    try:
        shared_engine_rules(rep, repo, facts)
    except AnalysisError as e:
        # the shared encoder / compression engines cannot follow the tree: that leaves R13.2.wiring / R13.6 undecided, but it must
        # not mask a violation that the rules above have already established (same discipline as the deferred instance floors)
        if not rep.findings:
            raise
        rep.note('R13.2.wiring / R13.6 not decided ({}); the violations found by the other rules stand on their own'.format(str(e)[:160]))
    rep.floor('register spellings checked', 129)
    rep.floor('parse paths analysed', 30)
    # semantic floors of the front-end rules: at least one path of each kind was positively understood
    rep.floor('lexer paths analysed', 1)
    rep.floor('Line constructions analysed', 1)
    rep.floor('parse_item hand-overs analysed', 1)
    rep.floor('register table lookups analysed', 1)
    return rep
