"""Symbolic path summaries of statement lists (one loop iteration of a pass, a CLI main, ...).

Every acyclic path through the body is enumerated with
  * facts   : isinstance / equality / membership facts about symbolic values, used to decide later tests
  * events  : ordered side effects (appends, position advances, label updates, evaluations, raises, calls)
  * end     : 'fallthrough' | 'continue' | 'break' | 'return' | 'raise'
Values are nested tuples (printable, hashable); nothing is executed.  Tests that cannot be decided from the facts fork.
"""
import ast

from .core import AnalysisError
from .astutil import unparse, dotted, fold, NotConstant

_OPS = {ast.Add: '+', ast.Sub: '-', ast.Mult: '*', ast.FloorDiv: '//', ast.Mod: '%', ast.Pow: '**', ast.LShift: '<<',
        ast.RShift: '>>', ast.BitOr: '|', ast.BitAnd: '&', ast.BitXor: '^', ast.Div: '/'}
_CMPS = {ast.Eq: '==', ast.NotEq: '!=', ast.Lt: '<', ast.LtE: '<=', ast.Gt: '>', ast.GtE: '>=', ast.In: 'in',
         ast.NotIn: 'not in', ast.Is: 'is', ast.IsNot: 'is not'}


MUTATORS = {'append', 'extend', 'insert', 'update', 'add', 'pop', 'remove', 'clear', 'setdefault', 'popitem', 'sort',
            'reverse', 'discard', 'write', 'writelines', '__setitem__', '__delitem__'}


# functions the analyses reason about symbolically (never inlined)
DEFAULT_OPAQUE = {'parse_immediate', 'lookup_register', 'is_int', 'log_constant', 'log_conversion', 'relocate_hi', 'relocate_lo',
                  'sign_extend', 'eval_immediate', 'lex_tokens', 'parse_item', 'read_lines', 'assemble', 'cli_main'}


def always_raises(body):
    return bool(body) and isinstance(body[-1], ast.Raise)


def must_statements(body):
    """Statements executed on every pass through `body` that does not raise: the top level, plus the surviving arm of an `if`
    whose other arm always raises."""
    out = []
    for b in body:
        if isinstance(b, ast.If):
            if always_raises(b.orelse) and not always_raises(b.body):
                out.extend(must_statements(b.body))
                continue
            if always_raises(b.body) and b.orelse and not always_raises(b.orelse):
                out.extend(must_statements(b.orelse))
                continue
        if isinstance(b, ast.Try) and b.handlers and all(always_raises(h.body) for h in b.handlers) and not b.finalbody:
            out.extend(must_statements(b.body))
            out.extend(must_statements(b.orelse))
            continue
        out.append(b)
    return out


def walk_eager(node):
    """Sub-expressions evaluated exactly once when `node` is evaluated: bodies of lambdas, comprehensions, generator expressions
    (their variables are bound per call / per element) and the lazily evaluated operands of and / or / if-expressions are left out."""
    todo = [node]
    while todo:
        n = todo.pop()
        yield n
        if isinstance(n, (ast.Lambda, ast.ListComp, ast.SetComp, ast.DictComp, ast.GeneratorExp)):
            continue
        if isinstance(n, ast.BoolOp):
            todo.append(n.values[0])
            continue
        if isinstance(n, ast.IfExp):
            todo.append(n.test)
            continue
        todo.extend(ast.iter_child_nodes(n))


def copy_ast(node):
    """Structural copy of an AST subtree over its _fields only (parent links and other annotations are not followed)."""
    if isinstance(node, list):
        return [copy_ast(x) for x in node]
    if not isinstance(node, ast.AST):
        return node
    new = type(node)()
    for f in node._fields:
        if hasattr(node, f):
            setattr(new, f, copy_ast(getattr(node, f)))
    for a in ('lineno', 'col_offset', 'end_lineno', 'end_col_offset'):
        if hasattr(node, a):
            setattr(new, a, getattr(node, a))
    return new


def copy_ast_replacing(node, old, new):
    if node is old:
        return new
    if isinstance(node, list):
        return [copy_ast_replacing(x, old, new) for x in node]
    if not isinstance(node, ast.AST):
        return node
    out = type(node)()
    for f in node._fields:
        if hasattr(node, f):
            setattr(out, f, copy_ast_replacing(getattr(node, f), old, new))
    for a in ('lineno', 'col_offset', 'end_lineno', 'end_col_offset'):
        if hasattr(node, a):
            setattr(out, a, getattr(node, a))
    return out


PURE_STR_METHODS = {'split', 'rsplit', 'partition', 'rpartition', 'replace', 'removeprefix', 'removesuffix', 'lstrip', 'rstrip', 'strip',
                    'startswith', 'endswith', 'lower', 'upper', 'title', 'capitalize', 'find', 'index', 'count', 'zfill', 'ljust', 'rjust'}


def imm_eval_wrappers(facts):
    """Module-level helpers that return `<parameter>.imm.eval(..)` (eval_immediate, whatever it is called): kept as calls, the
    R-auipc rules judge them as one evaluation site with its position adjustment."""
    cached = getattr(facts, '_imm_eval_wrappers', None)
    if cached is None:
        cached = set()
        for name, fn in getattr(facts, 'funcs', {}).items():
            params = {a.arg for a in fn.args.posonlyargs + fn.args.args}
            rets = [n for n in ast.walk(fn) if isinstance(n, ast.Return)]
            # every exit hands back the evaluated number (a helper that also answers None / a constant is a decision helper, walked)
            returns = bool(rets) and all(n.value is not None and not isinstance(n.value, ast.Constant) for n in rets)
            nested = any(isinstance(n, (ast.FunctionDef, ast.Lambda)) and n is not fn for n in ast.walk(fn))
            def is_imm(e):
                return isinstance(e, ast.Attribute) and e.attr == 'imm' and isinstance(e.value, ast.Name) and e.value.id in params
            aliases = {t.id for n in ast.walk(fn) if isinstance(n, ast.Assign) and is_imm(n.value) for t in n.targets if isinstance(t, ast.Name)}
            for c in ast.walk(fn):
                # (the evaluation may be returned directly or through a local: `value = item.imm.eval(..); return value + k`, and the
                # operand may be held in a local: `imm = item.imm; return imm.eval(..)`)
                if (returns and not nested and isinstance(c, ast.Call) and isinstance(c.func, ast.Attribute) and c.func.attr == 'eval'
                        and (is_imm(c.func.value) or (isinstance(c.func.value, ast.Name) and c.func.value.id in aliases))):
                    cached.add(name)
        try:
            facts._imm_eval_wrappers = cached
        except AttributeError:
            pass
    return cached


def C(v):
    return ('const', v)


def is_const(v):
    return isinstance(v, tuple) and v and v[0] == 'const'


def contains_value(v, needle):
    if isinstance(v, tuple):
        return v[:len(needle)] == needle or any(contains_value(x, needle) for x in v)
    return False


def show(v, depth=0):
    """Compact text of a symbolic value."""
    if not isinstance(v, tuple) or not v:
        return repr(v)
    k = v[0]
    if k == 'const':
        return repr(v[1])
    if k in ('name', 'var', 'lv'):
        return v[1]
    if k == 'item':
        return v[1] if len(v) > 1 else 'item'
    if k == 'attr':
        return show(v[1]) + '.' + v[2]
    if k == 'new':
        return '{}({})'.format(v[1], ', '.join([show(a) for a in v[2]] + ['{}={}'.format(n, show(a)) for n, a in v[3]]))
    if k == 'call':
        return '{}({})'.format(v[1], ', '.join([show(a) for a in v[2]] + ['{}={}'.format(n, show(a)) for n, a in v[3]]))
    if k == 'mcall':
        return '{}.{}({})'.format(show(v[1]), v[2], ', '.join([show(a) for a in v[3]] + ['{}={}'.format(n, show(a)) for n, a in v[4]]))
    if k == 'bin':
        return '({} {} {})'.format(show(v[2]), v[1], show(v[3]))
    if k == 'cmp':
        return '({} {} {})'.format(show(v[2]), v[1], show(v[3]))
    if k == 'un':
        return '({} {})'.format(v[1], show(v[2]))
    if k == 'bool':
        return '(' + (' ' + v[1] + ' ').join(show(x) for x in v[2]) + ')'
    if k == 'list':
        return '[' + ', '.join(show(x) for x in v[1]) + ']'
    if k == 'tuple':
        return '(' + ', '.join(show(x) for x in v[1]) + ')'
    if k == 'sub':
        return '{}[{}]'.format(show(v[1]), show(v[2]))
    if k == 'star':
        return '*' + show(v[1])
    if k == 'unpack':
        return '{}<{}>'.format(show(v[1]), v[2])
    if k == 'havoc':
        return '?{}'.format(v[1])
    if k == 'dictcomp':
        return '{{{}: {} for {} in {}{}}}'.format(show(v[1]), show(v[2]), v[3], show(v[4]),
                                                 ''.join(' if ' + show(c) for c in v[5]))
    if k == 'opaque':
        return v[1]
    if k == 'res':
        return '{}@{}'.format(v[1], v[2])
    if k == 'accum':
        return 'accumulate({} per element of {})'.format(show(v[3]), show(v[2]))
    if k == 'comp':
        return '[{} for {} in {}{}]'.format(show(v[2]), v[3], show(v[4]), ''.join(' if ' + show(c) for c in v[5]))
    if k == 'dict':
        return '{' + ', '.join('{}: {}'.format(show(a), show(b)) for a, b in v[1]) + '}'
    if k == 'set':
        return '{' + ', '.join(show(x) for x in v[1]) + '}'
    if k == 'callv':
        return '{}({})'.format(show(v[1]), ', '.join(show(a) for a in v[2]))
    if k == 'closure':
        return v[1]
    if k == 'lambda':
        return v[2]
    if k == 'kwdict':
        return '**{' + ', '.join('{}={}'.format(a, show(b)) for a, b in v[1]) + '}'
    if k == 'ifexp':
        return '({} if {} else {})'.format(show(v[2]), show(v[1]), show(v[3]))
    if k == 'slice':
        return '{}[{}:{}]'.format(show(v[1]), show(v[2]), show(v[3]))
    if k == 'ctx':
        return 'ctx<{}>'.format(show(v[1]))
    return repr(v)


STR_METHODS_RETURNING_STR = ('format', 'join', 'upper', 'lower', 'strip', 'lstrip', 'rstrip', 'replace', 'title', 'capitalize', 'ljust', 'rjust',
                             'center', 'zfill', 'format_map', 'expandtabs', 'casefold', 'swapcase')


def never_none(v):
    """Values that are a str / bytes whatever their operands are: a method of a string literal that returns a string, an f-string,
    `'literal' % x`, a concatenation with a string literal."""
    while v[0] == 'res':
        v = v[3]
    if v[0] == 'mcall' and is_const(v[1]) and isinstance(v[1][1], (str, bytes)) and v[2] in STR_METHODS_RETURNING_STR:
        return True
    if v[0] == 'opaque' and isinstance(v[1], str) and v[1][:2] in ("f'", 'f"'):
        return True
    if v[0] == 'bin' and v[1] in ('%', '+') and is_const(v[2]) and isinstance(v[2][1], (str, bytes)):
        return True
    if v[0] == 'bin' and v[1] == '+' and is_const(v[3]) and isinstance(v[3][1], (str, bytes)):
        return True
    return False


class PathState:
    def __init__(self):
        self.env = {}
        self.facts = {}        # symbolic value -> dict(isa=set, nota=set, eq=const|None, ne=set)
        self.events = []
        self.conds = []        # (test symbolic value, polarity, ast node)
        self.end = None
        self.end_node = None
        self.sites = {}        # event index -> outermost call node through which the event was reached (inlining)

    def clone(self):
        s = PathState()
        s.sites = dict(self.sites)
        s.env = dict(self.env)
        s.facts = {k: {'isa': set(v['isa']), 'nota': set(v['nota']), 'eq': v['eq'], 'ne': set(v['ne']), 'truthy': v.get('truthy')}
                   for k, v in self.facts.items()}
        s.events = list(self.events)
        s.conds = list(self.conds)
        return s

    def fact(self, v):
        return self.facts.setdefault(v, {'isa': set(), 'nota': set(), 'eq': None, 'ne': set()})

    def cond_text(self):
        return ' and '.join(('' if pol else 'not ') + show(t) for t, pol, _ in self.conds) or 'always'


class Walker:
    """Enumerates paths through a statement list."""

    def __init__(self, facts, loop_var=None, class_of=None, max_paths=40000, name_results=False, inline='default', opaque=(), exits_end_paths=False,
                 guard_effects=False):
        self.facts = facts
        # `if t: <effect-only calls>` (nothing bound, nothing inlinable, no control flow in either branch) does not fork the path:
        # its calls become ('guarded', test, polarity, event, node) events of the one path
        self.guard_effects = guard_effects
        self.exits_end_paths = exits_end_paths   # `sys.exit(x)` / `parser.error(..)` as statements are `raise SystemExit(..)`
        self.name_results = name_results
        self.inline_mode = inline            # 'default': effectful + small pure module-level helpers ; 'all': every module-level
        self.opaque = set(opaque) | DEFAULT_OPAQUE | imm_eval_wrappers(facts)   # function and local closure except the opaque ones
        self._lambdas = {}
        self._inline_stack = []
        self.loop_var = loop_var
        self.max_paths = max_paths
        self.n_paths = 0
        self.class_of = class_of or {}

    # -- symbolic evaluation ----------------------------------------------------------------------------------
    def sym(self, node, st):
        if node is None:
            return C(None)
        if isinstance(node, ast.Constant):
            return C(node.value)
        if isinstance(node, ast.Name):
            if node.id in st.env:
                return st.env[node.id]
            if node.id in ('True', 'False', 'None'):
                return C({'True': True, 'False': False, 'None': None}[node.id])
            return ('name', node.id)
        if isinstance(node, ast.Attribute):
            base = self.sym(node.value, st)
            v = ('attr', base, node.attr)
            f = st.facts.get(v)
            if f and f['eq'] is not None:
                return f['eq']
            if base[0] == 'new' and base[1] in self.facts.classes:
                got = self.field_of_new(base, node.attr)
                if got is not None:
                    return got
            if base[0] == 'obj':
                for a, val in base[3]:
                    if a == node.attr:
                        return val
            if base[0] == 'closure':
                got = self.__dict__.get('_fnattrs', {}).get((base, node.attr))
                if got is not None:
                    return got
            return v
        if isinstance(node, ast.Call):
            args = []
            for a in node.args:
                if isinstance(a, ast.Starred):
                    args.append(('star', self.sym(a.value, st)))
                else:
                    args.append(self.sym(a, st))
            kwl = []
            for kw in node.keywords:
                v_ = self.sym(kw.value, st)
                if kw.arg is None and v_[0] == 'kwdict':
                    kwl.extend(v_[1])
                elif kw.arg is None and v_[0] == 'call' and v_[1] == 'dict' and not v_[2] and all(k is not None for k, _ in v_[3]):
                    # f(**dict(a=x, b=y)) is f(a=x, b=y)
                    kwl.extend(v_[3])
                elif kw.arg is None and v_[0] == 'dict' and all(is_const(k) and isinstance(k[1], str) for k, _ in v_[1]):
                    # f(**{'a': x, 'b': y}) is f(a=x, b=y)
                    kwl.extend((k[1], val) for k, val in v_[1])
                else:
                    kwl.append((kw.arg, v_))
            kwargs = tuple(kwl)
            flat = []
            for a in args:
                if a[0] == 'star' and a[1][0] in ('tuple', 'list') and not any(x[0] == 'star' for x in a[1][1]):
                    flat.extend(a[1][1])          # f(*(x, y)) is f(x, y)
                elif a[0] == 'star' and is_const(a[1]) and isinstance(a[1][1], tuple) and all(isinstance(x, (int, str, bytes, bool, type(None))) for x in a[1][1]):
                    flat.extend(C(x) for x in a[1][1])
                else:
                    flat.append(a)
            args = tuple(flat)
            if kwargs and isinstance(node.func, ast.Name) and node.func.id in self.facts.funcs and node.func.id not in st.env \
                    and not any(a[0] == 'star' for a in args):
                # f(x, p=y) with p the next positional parameter of a module-level function is f(x, y)
                fdef = self.facts.funcs[node.func.id]
                if not fdef.args.vararg and not fdef.args.posonlyargs:
                    params = [a.arg for a in fdef.args.args]
                    kw = dict(kwargs)
                    if len(kw) == len(kwargs) and None not in kw:
                        moved = list(args)
                        for pname in params[len(args):]:
                            if pname not in kw:
                                break
                            moved.append(kw.pop(pname))
                        args = tuple(moved)
                        kwargs = tuple((k, v) for k, v in kwargs if k in kw)
            if isinstance(node.func, ast.Name) and node.func.id in self.facts.classes and node.func.id not in st.env:
                return ('new', node.func.id, args, kwargs)
            if isinstance(node.func, ast.Attribute):
                d = dotted(node.func)
                if d and d.split('.')[0] not in st.env and d.split('.')[0] in ('os', 'struct', 're', 'copy', 'sys', 'time', 'logging', 'log', 'argparse', 'usb'):
                    return ('call', d, args, kwargs)
                recv = self.sym(node.func.value, st)
                if is_const(recv) and isinstance(recv[1], str) and node.func.attr in ('lower', 'upper', 'strip') and not args:
                    return C(getattr(recv[1], node.func.attr)())
                if is_const(recv) and isinstance(recv[1], str) and node.func.attr in PURE_STR_METHODS and not kwargs \
                        and all(is_const(a) and isinstance(a[1], (str, int, type(None))) and not isinstance(a[1], bool) for a in args):
                    # a pure method of a constant string with constant arguments: the value it computes
                    try:
                        r = getattr(recv[1], node.func.attr)(*[a[1] for a in args])
                    except Exception:
                        r = NotImplemented
                    if isinstance(r, (str, bool, int)):
                        return C(r)
                    if isinstance(r, (list, tuple)) and all(isinstance(x, str) for x in r):
                        return ('list' if isinstance(r, list) else 'tuple', tuple(C(x) for x in r))
                if recv[0] == 'dict' and node.func.attr == 'get' and args and is_const(args[0]) and all(is_const(k) for k, _ in recv[1]):
                    for k, v in recv[1]:
                        if k == args[0]:
                            return v
                    return args[1] if len(args) > 1 else C(None)
                if recv[0] == 'obj':
                    meth = self.method_of_obj(recv, node.func.attr)
                    if meth is not None:
                        r = self.eval_fn(meth, (recv,) + tuple(args), kwargs, st, self.env_of_obj(recv, st))
                        if r is not None:
                            return r
                return ('mcall', recv, node.func.attr, args, kwargs)
            if isinstance(node.func, ast.Name):
                if node.func.id in st.env:
                    target = st.env[node.func.id]
                    r = self.eval_call(target, args, kwargs, st)
                    if r is not None:
                        return r
                    if target[0] == 'name' and target[1] in self.facts.classes:
                        return ('new', target[1], args, kwargs)
                    if target[0] == 'name' and target[1] in self.facts.funcs:
                        return ('call', target[1], args, kwargs)
                    return ('callv', target, args, kwargs)
                if node.func.id == 'all' and self.__dict__.get('_capture_all') and len(node.args) == 1 and not kwargs \
                        and isinstance(node.args[0], (ast.GeneratorExp, ast.ListComp)) and len(node.args[0].generators) == 1:
                    # all(p(<args>) for p in PREDS) while a first-match search is being read: the predicate list and the arguments
                    g_ = node.args[0].generators[0]
                    elt = node.args[0].elt
                    if (not g_.ifs and isinstance(g_.target, ast.Name) and isinstance(elt, ast.Call) and isinstance(elt.func, ast.Name)
                            and elt.func.id == g_.target.id and not elt.keywords):
                        return ('allpreds', self.sym(g_.iter, st), tuple(self.sym(a, st) for a in elt.args))
                if node.func.id in ('any', 'all') and len(node.args) == 1 and not kwargs and isinstance(node.args[0], (ast.GeneratorExp, ast.ListComp)):
                    r = self.expand_quantifier(node.func.id, node.args[0], st)
                    if r is not None:
                        return r
                if node.func.id == 'isinstance' and len(args) == 2 and not kwargs and args[1][0] == 'tuple' and args[1][1] \
                        and all(c[0] == 'name' for c in args[1][1]):
                    # isinstance(x, (A, B)) is isinstance(x, A) or isinstance(x, B)
                    alts = tuple(('call', 'isinstance', (args[0], c), ()) for c in args[1][1])
                    return alts[0] if len(alts) == 1 else ('bool', 'or', alts)
                if node.func.id == 'getattr' and len(args) == 2 and not kwargs and is_const(args[1]) and isinstance(args[1][1], str):
                    # getattr(x, 'name') is x.name
                    v = ('attr', args[0], args[1][1])
                    f = st.facts.get(v)
                    return f['eq'] if f and f['eq'] is not None else v
                if node.func.id in ('list', 'tuple') and len(args) == 1 and not kwargs and args[0][0] in ('list', 'tuple') \
                        and not any(a[0] == 'star' for a in args[0][1]):
                    return (node.func.id, args[0][1])
                sym_arg = self.__dict__.get('_eval_helpers_of')
                if sym_arg is not None and node.func.id in self.facts.funcs and node.func.id not in self.opaque and node.func.id not in st.env \
                        and any(a == sym_arg for a in args) and not any(a[0] == 'star' for a in args) and self._inline_stack.count(node.func.id) == 0:
                    r = self.eval_fn(self.facts.funcs[node.func.id], args, kwargs, st, {})
                    if r is not None:
                        return r
                pf = self.pure_expr_fn(node.func.id)
                if pf is not None and not kwargs and not any(a[0] == 'star' for a in args):
                    params = [a.arg for a in pf.args.args]
                    if len(args) <= len(params) and len(params) - len(args) <= len(pf.args.defaults):
                        s2 = PathState()
                        s2.facts = st.facts
                        s2.env = dict(zip(params, args))
                        for p_, d_ in zip(params[len(params) - len(pf.args.defaults):], pf.args.defaults):
                            if p_ not in s2.env:
                                s2.env[p_] = self.sym(d_, PathState())
                        self._inline_stack.append(node.func.id)
                        try:
                            return self.sym(pf.body[-1].value, s2)
                        finally:
                            self._inline_stack.pop()
                if kwargs and node.func.id in self.facts.funcs and node.func.id not in st.env and not any(a[0] == 'star' for a in args):
                    # f(a, y=b) for a module-level f(x, y): the same call written positionally
                    fa = self.facts.funcs[node.func.id].args
                    params = [x.arg for x in fa.posonlyargs + fa.args]
                    kw = dict(kwargs)
                    if not fa.vararg and not fa.kwarg and None not in kw and len(kw) == len(kwargs) and all(k in params[len(args):] for k in kw):
                        rest = params[len(args):]
                        take = []
                        for pname in rest:
                            if pname in kw:
                                take.append(kw.pop(pname))
                            else:
                                break
                        if not kw:
                            return ('call', node.func.id, args + tuple(take), ())
                return ('call', node.func.id, args, kwargs)
            if isinstance(node.func, (ast.Call, ast.Subscript, ast.IfExp)):
                target = self.sym(node.func, st)
                r = self.eval_call(target, args, kwargs, st)
                if r is not None:
                    return r
                if target[0] == 'name' and target[1] in self.facts.classes:
                    return ('new', target[1], args, kwargs)
                if target[0] == 'name' and target[1] in self.facts.funcs:
                    return ('call', target[1], args, kwargs)
                if target[0] == 'call' and target[1] == 'type' and len(target[2]) == 1 and not target[3]:
                    # type(x)(...) is x.__class__(...)
                    return ('mcall', target[2][0], '__class__', args, kwargs)
                return ('callv', target, args, kwargs)
            return ('call', unparse(node.func), args, kwargs)
        if isinstance(node, ast.BinOp):
            a, b = self.sym(node.left, st), self.sym(node.right, st)
            op = _OPS.get(type(node.op), '?')
            if is_const(a) and is_const(b):
                try:
                    return C(fold(ast.BinOp(left=ast.Constant(value=a[1]), op=node.op, right=ast.Constant(value=b[1]))))
                except NotConstant:
                    pass
            if op == '+' and a[0] == b[0] and a[0] in ('list', 'tuple'):
                return (a[0], a[1] + b[1])
            if op == '+':
                # string / bytes concatenation with a module-level constant
                ca = C(self.facts.consts[a[1]]) if a[0] == 'name' and a[1] not in st.env and isinstance(self.facts.consts.get(a[1]), (str, bytes)) else a
                cb = C(self.facts.consts[b[1]]) if b[0] == 'name' and b[1] not in st.env and isinstance(self.facts.consts.get(b[1]), (str, bytes)) else b
                if is_const(ca) and is_const(cb) and type(ca[1]) is type(cb[1]) and isinstance(ca[1], (str, bytes)):
                    return C(ca[1] + cb[1])
            return ('bin', op, a, b)
        if isinstance(node, ast.UnaryOp):
            a = self.sym(node.operand, st)
            name = {ast.Not: 'not', ast.USub: '-', ast.UAdd: '+', ast.Invert: '~'}[type(node.op)]
            if is_const(a) and name != 'not':
                try:
                    return C(fold(ast.UnaryOp(op=node.op, operand=ast.Constant(value=a[1]))))
                except NotConstant:
                    pass
            return ('un', name, a)
        if isinstance(node, ast.Compare):
            left = self.sym(node.left, st)
            parts = []
            for op, comp in zip(node.ops, node.comparators):
                right = self.sym(comp, st)
                if isinstance(op, (ast.In, ast.NotIn)) and right[0] == 'name' and right[1] not in st.env:
                    # membership in a small module-level table: the finite set of its keys
                    tbl = self.facts.tables.get(right[1])
                    if tbl is None and isinstance(self.facts.consts.get(right[1]), (dict, set, frozenset, list, tuple)):
                        tbl = self.facts.consts[right[1]]
                    if tbl is not None and 0 < len(tbl) <= 8 and all(isinstance(k, (str, int)) for k in tbl):
                        right = ('tuple', tuple(C(k) for k in tbl))
                if isinstance(op, (ast.In, ast.NotIn)) and right[0] == 'dict' and right[1] and all(is_const(k) for k, _ in right[1]):
                    # membership in a dict written out in place: membership in its keys
                    right = ('tuple', tuple(k for k, _ in right[1]))
                c_ = ('cmp', _CMPS[type(op)], left, right)
                if is_const(left) and is_const(right) and _CMPS[type(op)] in ('==', '!=', 'is', 'is not'):
                    # constant comparison (None == 0 after inlining a helper that returned None)
                    d_ = self.decide(c_, st)
                    if d_ is not None:
                        c_ = C(d_)
                parts.append(c_)
                left = right
            return parts[0] if len(parts) == 1 else ('bool', 'and', tuple(parts))
        if isinstance(node, ast.BoolOp):
            vals = tuple(self.sym(v, st) for v in node.values)
            is_and = isinstance(node.op, ast.And)
            # short-circuit folding of constant operands: `False and x` is False, `True and x` is x (same for or)
            out = []
            for i_, v in enumerate(vals):
                if is_const(v) and i_ < len(vals) - 1:
                    if bool(v[1]) != is_and:
                        return v               # decides the whole expression
                    continue                   # neutral element: skipped
                out.append(v)
            if len(out) == 1:
                return out[0]
            return ('bool', 'and' if is_and else 'or', tuple(out))
        if isinstance(node, (ast.List, ast.Tuple, ast.Set)):
            kind = {ast.List: 'list', ast.Tuple: 'tuple', ast.Set: 'set'}[type(node)]
            elts = []
            for e in node.elts:
                if isinstance(e, ast.Starred):
                    inner = self.sym(e.value, st)
                    if inner[0] in ('list', 'tuple') and len(inner) == 2 and not any(x[0] == 'star' for x in inner[1]) and kind != 'set':
                        elts.extend(inner[1])         # [a, *[b, c]] is [a, b, c]
                    else:
                        elts.append(('star', inner))
                else:
                    elts.append(self.sym(e, st))
            return (kind, tuple(elts))
        if isinstance(node, ast.Dict):
            # a dict literal is a fresh mutable object: its creation site is part of its identity
            items = []
            for k, v in zip(node.keys, node.values):
                if k is None:
                    inner = self.sym(v, st)
                    if inner[0] == 'dict' and all(kk != ('opaque', '**') for kk, _ in inner[1]):
                        for kk, vv in inner[1]:                # {**other}: spliced in place, later keys override earlier ones
                            items = [(a, b) for a, b in items if a != kk] + [(kk, vv)] if any(a == kk for a, _ in items) else items + [(kk, vv)]
                        continue
                    items.append((('opaque', '**'), inner))
                    continue
                kk, vv = self.sym(k, st), self.sym(v, st)
                if any(a == kk for a, _ in items):
                    items = [(a, (vv if a == kk else b)) for a, b in items]
                else:
                    items.append((kk, vv))
            return ('dict', tuple(items), ('at', getattr(node, 'lineno', 0), getattr(node, 'col_offset', 0)))
        if isinstance(node, ast.Subscript):
            base = self.sym(node.value, st)
            if isinstance(node.slice, ast.Slice):
                sl = node.slice
                lo, hi, step = self.sym(sl.lower, st), self.sym(sl.upper, st), self.sym(sl.step, st)
                if is_const(base) and isinstance(base[1], (str, bytes, tuple)) and all(is_const(x) and (x[1] is None or isinstance(x[1], int)) for x in (lo, hi, step)):
                    return C(base[1][slice(lo[1], hi[1], step[1])])
                if base[0] in ('list', 'tuple') and all(is_const(x) and (x[1] is None or isinstance(x[1], int)) for x in (lo, hi, step)) \
                        and not any(e[0] == 'star' for e in base[1]):
                    return (base[0], tuple(base[1][slice(lo[1], hi[1], step[1])]))
                return ('slice', base, lo, hi, step)
            idx = self.sym(node.slice, st)
            if not is_const(idx):
                f_ = st.facts.get(idx)
                if f_ and f_['eq'] is not None:
                    idx = f_['eq']
            if base[0] == 'name' and is_const(idx) and base[1] not in self.facts.consts and base[1] in self.facts.tables \
                    and idx[1] in self.facts.tables[base[1]]:
                # a module-level table of named bindings (classes / functions) indexed by a constant
                return ('name', self.facts.tables[base[1]][idx[1]])
            if base[0] == 'name' and is_const(idx) and isinstance(self.facts.consts.get(base[1]), (dict, list, tuple)):
                # a module-level constant table indexed by a constant
                try:
                    r = self.facts.consts[base[1]][idx[1]]
                    if isinstance(r, (int, str, bytes, bool, type(None))):
                        return C(r)
                except (KeyError, IndexError, TypeError):
                    pass
            if base[0] == 'name' and is_const(idx) and base[1] not in st.env and base[1] not in self.facts.consts:
                # a module-level table written as a literal whose entries are not plain constants (objects, partials): the entry
                lit = self.module_literal(base[1])
                if lit is not None:
                    base = lit
            if base[0] == 'dict' and is_const(idx):
                for k, v in base[1]:
                    if k == idx:
                        return v
            if base[0] in ('list', 'tuple') and is_const(idx) and isinstance(idx[1], int) and not isinstance(idx[1], bool) \
                    and -len(base[1]) <= idx[1] < len(base[1]) and not any(e[0] == 'star' for e in base[1]):
                return base[1][idx[1]]
            return ('sub', base, idx)
        if isinstance(node, ast.DictComp) and len(node.generators) == 1:
            g = node.generators[0]
            lit = self.sym(g.iter, st)
            if lit[0] in ('list', 'tuple') and len(lit[1]) <= 32 and not any(e[0] == 'star' for e in lit[1]):
                # a comprehension over a literal sequence is the dict it spells out
                items = []
                ok = True
                for e in lit[1]:
                    s2 = st.clone()
                    try:
                        self.assign(g.target, e, s2, node)
                    except AnalysisError:
                        ok = False
                        break
                    conds = [self.decide(self.sym(c, s2), s2) for c in g.ifs]
                    if any(c is None for c in conds):
                        ok = False
                        break
                    if not all(conds):
                        continue
                    kk, vv = self.sym(node.key, s2), self.sym(node.value, s2)
                    items = [(a, b) for a, b in items if a != kk] + [(kk, vv)]
                if ok:
                    return ('dict', tuple(items), ('at', getattr(node, 'lineno', 0), getattr(node, 'col_offset', 0)))
            inner = st.clone()
            names = [n.id for n in ast.walk(g.target) if isinstance(n, ast.Name)]
            for n in names:
                inner.env[n] = ('var', n)
            return ('dictcomp', self.sym(node.key, inner), self.sym(node.value, inner), ','.join(names),
                    self.sym(g.iter, st), tuple(self.sym(c, inner) for c in g.ifs))
        if isinstance(node, (ast.ListComp, ast.GeneratorExp, ast.SetComp)) and len(node.generators) == 1:
            g = node.generators[0]
            lit = self.sym(g.iter, st)
            if lit[0] == 'mcall' and lit[2] in ('items', 'keys', 'values') and not lit[3] and lit[1][0] == 'dict' and 0 < len(lit[1][1]) <= 64 \
                    and all(isinstance(pr, tuple) and len(pr) == 2 and is_const(pr[0]) for pr in lit[1][1]):
                # the views of a dict written out in place, in insertion order
                pick = {'items': lambda k, v: ('tuple', (k, v)), 'keys': lambda k, v: k, 'values': lambda k, v: v}[lit[2]]
                lit = ('list', tuple(pick(k, v) for k, v in lit[1][1]))
            if lit[0] in ('list', 'tuple') and len(lit[1]) <= 64 and not any(e[0] == 'star' for e in lit[1]):
                # a comprehension over a literal sequence is the sequence it spells out (elements in order)
                elems = []
                ok = True
                for e in lit[1]:
                    s2 = st.clone()
                    try:
                        self.assign(g.target, e, s2, node)
                    except AnalysisError:
                        ok = False
                        break
                    conds = [self.decide(self.sym(c, s2), s2) for c in g.ifs]
                    if any(c is None for c in conds):
                        ok = False
                        break
                    if all(conds):
                        elems.append(self.sym(node.elt, s2))
                if ok and isinstance(node, ast.SetComp):
                    if all(is_const(e) for e in elems):
                        uniq = []
                        for e in elems:
                            if e not in uniq:
                                uniq.append(e)
                        return ('set', tuple(uniq))
                elif ok:
                    return ('list', tuple(elems))
            inner = st.clone()
            names = [n.id for n in ast.walk(g.target) if isinstance(n, ast.Name)]
            for n in names:
                inner.env[n] = ('var', n)
            return ('comp', type(node).__name__, self.sym(node.elt, inner), ','.join(names), self.sym(g.iter, st),
                    tuple(self.sym(c, inner) for c in g.ifs))
        if isinstance(node, ast.NamedExpr) and isinstance(node.target, ast.Name):
            # (name := value): the value, with the name bound for what is evaluated after it
            v = self.sym(node.value, st)
            st.env[node.target.id] = v
            return v
        if isinstance(node, ast.IfExp):
            t = self.sym(node.test, st)
            d = self.decide(t, st)
            if d is not None:
                return self.sym(node.body if d else node.orelse, st)
            return ('ifexp', t, self.sym(node.body, st), self.sym(node.orelse, st))
        if isinstance(node, ast.NamedExpr) and isinstance(node.target, ast.Name):
            # (x := e): the value of e, and x is bound to it from here on
            v = self.sym(node.value, st)
            st.env[node.target.id] = v
            return v
        if isinstance(node, ast.Starred):
            return ('star', self.sym(node.value, st))
        if isinstance(node, ast.JoinedStr):
            if all(isinstance(p_, ast.Constant) or (isinstance(p_, ast.FormattedValue) and p_.conversion == -1 and p_.format_spec is None) for p_ in node.values) \
                    and sum(isinstance(p_, ast.FormattedValue) for p_ in node.values) == 1 \
                    and not any(isinstance(p_, ast.Constant) and ('{' in str(p_.value) or '}' in str(p_.value)) for p_ in node.values):
                # f'..{x}..' with one plain replacement field is '..{}..'.format(x); the source text is kept for messages
                tmpl = ''.join(str(p_.value) if isinstance(p_, ast.Constant) else '{}' for p_ in node.values)
                arg = next(p_.value for p_ in node.values if isinstance(p_, ast.FormattedValue))
                inner = self.sym(arg, st)
                if inner[0] in ('call', 'mcall', 'attr') and tmpl == '{}':
                    return ('mcall', C(tmpl), 'format', (inner,), ())
            return ('opaque', unparse(node))
        if isinstance(node, ast.Lambda):
            uid = self.new_fnval(node, dict(st.env))
            return ('lambda', uid, unparse(node))
        return ('opaque', unparse(node))

    # -- function values ------------------------------------------------------------------------------------------------
    def new_fnval(self, node, env):
        store = self.__dict__.setdefault('_fnvals', {})
        uid = len(store) + 1
        store[uid] = (node, env)
        self._lambdas[uid] = (node, env)
        return uid

    def fn_of_value(self, v):
        """(function node, captured env or None) of a lambda / closure value."""
        if v[0] == 'lambda':
            return self.__dict__.get('_fnvals', {}).get(v[1], (None, None))
        if v[0] == 'closure' and len(v) > 2:
            node = self.__dict__.get('_closures', {}).get(v[2])
            env = None
            if len(v) > 3 and v[3] is not None:
                env = self.__dict__.get('_fnvals', {}).get(v[3], (None, None))[1]
            return node, env
        return None, None

    def bind_args(self, fn, args, kwargs, env):
        """Bind symbolic argument values to the parameters of `fn` in `env` (in place); False if they do not fit."""
        a = fn.args
        pos = [x.arg for x in a.posonlyargs + a.args]
        if any(x[0] == 'star' for x in args):
            return False
        if len(args) > len(pos) and not a.vararg:
            return False
        for p_, v in zip(pos, args):
            env[p_] = v
        bound = set(pos[:len(args)])
        if a.vararg:
            env[a.vararg.arg] = ('tuple', tuple(args[len(pos):]))
        names = set(pos) | {x.arg for x in a.kwonlyargs}
        extra = []
        for k, v in kwargs:
            if k is None:
                return False
            if k in names and k not in bound:
                env[k] = v
                bound.add(k)
            elif a.kwarg and k not in names:
                extra.append((k, v))
            else:
                return False
        if a.kwarg:
            env[a.kwarg.arg] = ('kwdict', tuple(extra))
        defaults = dict(zip(pos[len(pos) - len(a.defaults):], a.defaults))
        for x, d in zip(a.kwonlyargs, a.kw_defaults):
            if d is not None:
                defaults[x.arg] = d
        for p_ in pos + [x.arg for x in a.kwonlyargs]:
            if p_ not in bound:
                if p_ not in defaults:
                    return False
                env[p_] = self.sym(defaults[p_], PathState())
        return True

    PURE_EVENTS = ('value', 'return', 'cond', 'with', 'endwith', 'try', 'endtry', 'except')

    def merge_paths(self, vals, depth):
        """[(path, value)] of the effect-free paths of one call -> a single (conditional) value, or None."""
        if len(vals) == 1:
            return vals[0][1]
        if all(v == vals[0][1] for _, v in vals):
            return vals[0][1]
        if depth == 0:
            # `try: <compute and return X>  except E: return <constant>`: the handler paths describe the failing evaluations of
            # X; the value of the call where X is defined is X (the fallback constant is recorded on the value)
            handler = [(p, v) for p, v in vals if any(e[0] == 'except' for e in p.events)]
            normal = [(p, v) for p, v in vals if not any(e[0] == 'except' for e in p.events)]
            if handler and normal and all(is_const(v) for _, v in handler) and len({v for _, v in handler}) == 1:
                inner = self.merge_paths(normal, 0)
                if inner is None:
                    return None
                caught = tuple(sorted({e[1] for p, _ in handler for e in p.events if e[0] == 'except'}))
                return ('orelse', inner, handler[0][1], caught)
        tests = [p.conds[depth][0] if len(p.conds) > depth else None for p, _ in vals]
        if any(t is None or t != tests[0] for t in tests):
            return None
        yes = [(p, v) for p, v in vals if p.conds[depth][1]]
        no = [(p, v) for p, v in vals if not p.conds[depth][1]]
        if not yes or not no:
            return self.merge_paths(vals, depth + 1)
        a, b = self.merge_paths(yes, depth + 1), self.merge_paths(no, depth + 1)
        if a is None or b is None:
            return None
        return ('ifexp', tests[0], a, b)

    def module_literal(self, name):
        """Symbolic value of a module-level `NAME = {literal dict / list / tuple}` assigned exactly once (None otherwise)."""
        cache = self.__dict__.setdefault('_module_literals', {})
        if name not in cache:
            cache[name] = None
            node = self.facts.assign_nodes.get(name) if hasattr(self.facts, 'assign_nodes') else None
            val = getattr(node, 'value', None)
            n_assign = sum(1 for st_ in self.facts.tree.body if isinstance(st_, (ast.Assign, ast.AugAssign, ast.AnnAssign))
                           for t in (st_.targets if isinstance(st_, ast.Assign) else [st_.target]) for x in ast.walk(t)
                           if isinstance(x, ast.Name) and x.id == name)
            if isinstance(val, (ast.Dict, ast.List, ast.Tuple)) and n_assign == 1 and self._inline_stack.count('<module {}>'.format(name)) == 0:
                self._inline_stack.append('<module {}>'.format(name))
                try:
                    v = self.sym(val, PathState())
                    if v[0] in ('dict', 'list', 'tuple'):
                        cache[name] = v
                except AnalysisError:
                    pass
                finally:
                    self._inline_stack.pop()
        return cache[name]

    def namedtuple_values(self, obj):
        """Field values, in order, of `P(..)` for a class P(typing.NamedTuple); None when P is not one or an argument is missing."""
        ci = self.facts.classes.get(obj[1])
        fields = getattr(ci.node, '_nt_fields', None) if ci is not None else None
        if fields is None:
            return None
        names = [f for f, _ in fields]
        bound = {}
        for i, a in enumerate(obj[2]):
            if a[0] == 'star' or i >= len(names):
                return None
            bound[names[i]] = a
        for k, a in obj[3]:
            if k is None or k not in names or k in bound:
                return None
            bound[k] = a
        out = []
        for f, default in fields:
            if f in bound:
                out.append(bound[f])
            elif default is not None:
                out.append(self.sym(default, PathState()))
            else:
                return None
        return out

    def field_of_new(self, obj, attr):
        """obj.attr for a freshly constructed object whose __init__ stores its parameters in attributes."""
        nt = self.namedtuple_values(obj)
        if nt is not None:
            names = [f for f, _ in self.facts.classes[obj[1]].node._nt_fields]
            return nt[names.index(attr)] if attr in names else None
        try:
            params = [p_ for p_, _ in self.facts.init_params(obj[1])]
            order = dict(self.facts.full_attr_order(obj[1]))
        except (KeyError, AnalysisError):
            return None
        src = order.get(attr)
        if src is None:
            return None
        bound = {}
        for i, a in enumerate(obj[2]):
            if a[0] == 'star':
                return None
            if i < len(params):
                bound[params[i]] = a
        for n, a in obj[3]:
            if n is None:
                return None
            bound[n] = a
        return bound.get(src)

    def eval_call(self, target, args, kwargs, st):
        """Value of calling a lambda / local-closure value when its body is a single effect-free path (predicate factories,
        builders, small local helpers used inside expressions); None when it cannot be evaluated in place."""
        if target[0] == 'obj':
            # an instance of a local class is called: its __call__
            meth = self.method_of_obj(target, '__call__')
            if meth is None:
                return None
            return self.eval_fn(meth, (target,) + tuple(args), kwargs, st, self.env_of_obj(target, st))
        fn, cenv = self.fn_of_value(target)
        if fn is None:
            return None
        if isinstance(fn, ast.ClassDef):
            return self.instantiate(fn, args, kwargs, st, cenv)
        return self.eval_fn(fn, args, kwargs, st, cenv)

    # -- instances of classes defined inside the function that is walked (record / callable helper classes) -------------------
    def instantiate(self, cls, args, kwargs, st, cenv):
        """('obj', class name, id(class node), ((attr, value), ..), env uid) for `Cls(args)` when __init__ only stores expressions
        over its parameters in attributes; None otherwise."""
        if cls.bases or cls.keywords or cls.decorator_list:
            return None
        init = next((m for m in cls.body if isinstance(m, ast.FunctionDef) and m.name == '__init__'), None)
        fields = []
        env = dict(cenv) if cenv is not None else dict(st.env)
        if init is not None:
            if len(init.args.args) < 1:
                return None
            selfname = init.args.args[0].arg
            e2 = dict(env)
            if not self.bind_args(init, (('sym', 'SELF'),) + tuple(args), kwargs, e2):
                return None
            s2 = PathState()
            s2.env = e2
            s2.facts = st.facts
            for stmt in init.body:
                if isinstance(stmt, ast.Expr) and isinstance(stmt.value, ast.Constant):
                    continue
                if not (isinstance(stmt, ast.Assign) and len(stmt.targets) == 1 and isinstance(stmt.targets[0], ast.Attribute)
                        and isinstance(stmt.targets[0].value, ast.Name) and stmt.targets[0].value.id == selfname):
                    return None
                if any(isinstance(n, ast.Name) and n.id == selfname for n in ast.walk(stmt.value)):
                    return None
                fields.append((stmt.targets[0].attr, self.sym(stmt.value, s2)))
        elif args or kwargs:
            return None
        uid = self.new_fnval(cls, env)
        return ('obj', cls.name, id(cls), tuple(fields), uid)

    def class_of_obj(self, obj):
        return self.__dict__.get('_closures', {}).get(obj[2])

    def method_of_obj(self, obj, name):
        cls = self.class_of_obj(obj)
        if cls is None:
            return None
        return next((m for m in cls.body if isinstance(m, ast.FunctionDef) and m.name == name and not m.decorator_list), None)

    def env_of_obj(self, obj, st):
        return self.__dict__.get('_fnvals', {}).get(obj[4], (None, None))[1]

    def eval_fn(self, fn, args, kwargs, st, cenv=None):
        """Value of calling the function `fn` (a node: lambda, closure, module-level function, method with self as first
        argument) when all its paths are effect-free; None when it cannot be evaluated in place."""
        if isinstance(fn, ast.ClassDef):
            return self.instantiate(fn, args, kwargs, st, cenv)
        depth = self.__dict__.setdefault('_eval_depth', [0])
        name = getattr(fn, 'name', '<lambda>')
        if depth[0] >= 8 or (name != '<lambda>' and self._inline_stack.count(name) >= 2):
            return None
        env = dict(cenv) if cenv is not None else dict(st.env)
        if not self.bind_args(fn, args, kwargs, env):
            return None
        s2 = st.clone()
        s2.env = env
        s2.events = []
        s2.conds = []
        depth[0] += 1
        self._inline_stack.append(name)
        try:
            if isinstance(fn, ast.Lambda):
                return self.sym(fn.body, s2)
            if any(isinstance(n, (ast.Nonlocal, ast.Global, ast.Yield, ast.YieldFrom)) for n in ast.walk(fn)):
                return None
            saved = self.n_paths
            done = []
            try:
                live = self.block(fn.body, s2, done)
            except AnalysisError:
                return None
            finally:
                self.n_paths = saved
            paths = list(done) + list(live)
            if not paths or len(paths) > 48:
                return None
            vals = []
            # rebinding a local of the evaluated frame (or of a helper inlined into it) is no effect anybody else can see
            own_locals = {n.id for n in ast.walk(fn) if isinstance(n, ast.Name) and isinstance(n.ctx, ast.Store)} | {a.arg for a in fn.args.args}
            outer = set(cenv) if cenv is not None else set(st.env)
            for p in paths:
                if p.end == 'raise' and getattr(self, 'returning_paths_only', False) and p not in live:
                    continue        # asked for the value the call has when it returns (sizes on the non-failing path)
                if any(e[0] not in self.PURE_EVENTS and not (e[0] == 'aug' and (e[1] in own_locals or e[1] not in outer)) for e in p.events):
                    return None
                if p in live:
                    vals.append((p, C(None)))
                elif p.end == 'return':
                    vals.append((p, [e for e in p.events if e[0] == 'return'][-1][1]))
                else:
                    return None
            if not vals:
                return None
            return self.merge_paths(vals, 0)
        finally:
            self._inline_stack.pop()
            depth[0] -= 1

    def expand_quantifier(self, which, comp, st):
        """any(...) / all(...) over a comprehension whose iterable is a literal sequence: the finite disjunction / conjunction."""
        if len(comp.generators) != 1:
            return None
        g = comp.generators[0]
        it = self.sym(g.iter, st)
        if it[0] not in ('list', 'tuple') or len(it[1]) > 32 or any(e[0] == 'star' for e in it[1]):
            return None
        vals = []
        for e in it[1]:
            s2 = st.clone()
            try:
                self.assign(g.target, e, s2, comp)
            except AnalysisError:
                return None
            conds = [self.sym(c, s2) for c in g.ifs]
            v = self.sym(comp.elt, s2)
            if conds:
                v = ('bool', 'and', tuple(conds) + (v,)) if which == 'any' else ('bool', 'or', tuple(('un', 'not', c) for c in conds) + (v,))
            vals.append(v)
        if not vals:
            return C(which == 'all')
        if len(vals) == 1:
            return vals[0]
        return ('bool', 'or' if which == 'any' else 'and', tuple(vals))

    # -- deciding tests --------------------------------------------------------------------------------------------
    def class_is(self, cls, base):
        return self.facts.is_subclass(cls, base) if cls in self.facts.classes else None

    def exact_class_test(self, test):
        """(object, class name) for `type(x) is C` / `x.__class__ is C` (either order, also == / != / is not) with C a class of
        the analysed module, else None."""
        for a, b in ((test[2], test[3]), (test[3], test[2])):
            if b[0] == 'name' and len(b) == 2 and b[1] in self.facts.classes:
                if a[0] == 'call' and a[1] == 'type' and len(a[2]) == 1 and not a[3]:
                    return a[2][0], b[1]
                if a[0] == 'attr' and a[2] == '__class__':
                    return a[1], b[1]
        return None

    def decide(self, test, st):
        """True / False / None for a symbolic test under the path's facts."""
        if is_const(test):
            return bool(test[1])
        k = test[0]
        f0 = st.facts.get(test)
        if f0 is not None and f0.get('truthy') is not None:
            return f0['truthy']
        if k == 'un' and test[1] == 'not':
            d = self.decide(test[2], st)
            return None if d is None else not d
        if k == 'bool':
            vals = [self.decide(t, st) for t in test[2]]
            if test[1] == 'and':
                if any(v is False for v in vals):
                    return False
                return True if all(v is True for v in vals) else None
            if any(v is True for v in vals):
                return True
            return False if all(v is False for v in vals) else None
        if k == 'call' and test[1] == 'isinstance' and len(test[2]) == 2:
            obj, cls = test[2]
            clsname = cls[1] if cls[0] == 'name' else None
            if clsname is None:
                return None
            if obj[0] == 'new':
                return self.class_is(obj[1], clsname)
            f = st.facts.get(obj)
            if f:
                for c in f['isa']:
                    if self.class_is(c, clsname):
                        return True
                for c in f['nota']:
                    if self.class_is(clsname, c):
                        return False
                # disjoint siblings: known to be an X, asked about Y where neither derives from the other
                for c in f['isa']:
                    if self.class_is(clsname, c) is False and self.class_is(c, clsname) is False:
                        return False
            return None
        if k == 'cmp' and test[1] in ('==', '!=', 'is', 'is not'):
            tc = self.exact_class_test(test)
            if tc is not None:
                obj, clsname = tc
                same = None
                if obj[0] == 'new':
                    same = obj[1] == clsname
                else:
                    f = st.facts.get(obj)
                    if f:
                        subs = [c for c in self.facts.subclasses(clsname) if c != clsname]
                        if clsname in f['isa'] and all(c in f['nota'] for c in subs):
                            same = True
                        elif any(self.class_is(clsname, c) for c in f['nota']):
                            same = False
                        elif any(self.class_is(clsname, c) is False for c in f['isa'] if c in self.facts.classes):
                            same = False
                if same is not None:
                    return same if test[1] in ('==', 'is') else not same
                return None
        if k == 'cmp':
            op, a, b = test[1], test[2], test[3]
            if op in ('==', '!=', 'is', 'is not') :
                if is_const(a) and not is_const(b):
                    a, b = b, a
                if is_const(a) and is_const(b):
                    r = a[1] == b[1]
                    return r if op in ('==', 'is') else not r
                if is_const(b):
                    f = st.facts.get(a)
                    if (a[0] in ('new', 'lambda', 'closure', 'list', 'tuple', 'dict', 'set') or never_none(a)) and b[1] is None:
                        return op in ('!=', 'is not')
                    if f:
                        if f['eq'] is not None:
                            r = f['eq'][1] == b[1]
                            return r if op in ('==', 'is') else not r
                        if b[1] in {x[1] for x in f['ne']}:
                            return op in ('!=', 'is not')
                return None
            if op in ('in', 'not in') and b[0] in ('list', 'tuple', 'set') and all(is_const(x) for x in b[1]):
                vals = [x[1] for x in b[1]]
                if is_const(a):
                    r = a[1] in vals
                    return r if op == 'in' else not r
                f = st.facts.get(a)
                if f:
                    if f['eq'] is not None:
                        r = f['eq'][1] in vals
                        return r if op == 'in' else not r
                    if all(v in {x[1] for x in f['ne']} for v in vals):
                        return op == 'not in'
                return None
            if is_const(a) and is_const(b) and op in ('<', '<=', '>', '>='):
                try:
                    return {'<': a[1] < b[1], '<=': a[1] <= b[1], '>': a[1] > b[1], '>=': a[1] >= b[1]}[op]
                except TypeError:
                    return None
        return None

    def assume(self, test, pol, st):
        """Record what a test outcome teaches."""
        k = test[0]
        if k in ('attr', 'name', 'res', 'sub', 'unpack', 'havoc', 'lv', 'mcall', 'call') and k not in ('call',) or (k == 'call' and test[1] != 'isinstance'):
            # bare truthiness test of a value (pure values only: attribute / name / bound result)
            if k in ('attr', 'name', 'res', 'sub', 'unpack'):
                st.fact(test)['truthy'] = pol
        if k == 'un' and test[1] == 'not':
            return self.assume(test[2], not pol, st)
        if k == 'bool':
            if (test[1] == 'and' and pol) or (test[1] == 'or' and not pol):
                for t in test[2]:
                    self.assume(t, pol, st)
            return
        if k == 'call' and test[1] == 'isinstance' and len(test[2]) == 2 and test[2][1][0] == 'name':
            f = st.fact(test[2][0])
            (f['isa'] if pol else f['nota']).add(test[2][1][1])
            return
        if k == 'cmp' and test[1] in ('==', '!=', 'is', 'is not'):
            tc = self.exact_class_test(test)
            if tc is not None:
                # type(x) is C: x is a C and of no proper subclass; the negation excludes C only when C has no subclass
                obj, clsname = tc
                subs = [c for c in self.facts.subclasses(clsname) if c != clsname]
                f = st.fact(obj)
                if (test[1] in ('==', 'is')) == pol:
                    f['isa'].add(clsname)
                    f['nota'].update(subs)
                elif not subs:
                    f['nota'].add(clsname)
                st.fact(test)['truthy'] = pol
                return
        if k == 'cmp':
            st.fact(test)['truthy'] = pol          # the same comparison of the same values decides the same way later on
            op, a, b = test[1], test[2], test[3]
            if is_const(a) and not is_const(b):
                a, b = b, a
            if op in ('==', 'is') and is_const(b):
                f = st.fact(a)
                if pol:
                    f['eq'] = b
                else:
                    f['ne'].add(b)
            elif op in ('!=', 'is not') and is_const(b):
                f = st.fact(a)
                if pol:
                    f['ne'].add(b)
                else:
                    f['eq'] = b
            elif op in ('is', '==', 'is not', '!=') and a[0] == 'call' and a[1] == 'type' and len(a[2]) == 1 and not a[3] \
                    and b[0] == 'name' and b[1] in self.facts.classes:
                # type(x) is K: x is an instance of K (the negative outcome teaches nothing about subclasses)
                if (op in ('is', '==')) == pol:
                    st.fact(a[2][0])['isa'].add(b[1])
                elif not any(self.facts.is_subclass(c, b[1]) for c in self.facts.classes if c != b[1]):
                    st.fact(a[2][0])['nota'].add(b[1])          # K has no subclasses: "its type is not K" is "not an instance of K"
            elif op in ('in', 'not in') and b[0] in ('list', 'tuple', 'set') and all(is_const(x) for x in b[1]):
                positive = (op == 'in') == pol
                f = st.fact(a)
                if positive:
                    if len(b[1]) == 1:
                        f['eq'] = b[1][0]
                    else:
                        f.setdefault('among', set()).update(b[1])
                else:
                    f['ne'].update(b[1])

    # -- path enumeration ----------------------------------------------------------------------------------------------
    def run(self, body, st=None):
        st = st or PathState()
        done = []
        live = self.block(body, st, done)
        for s in live:
            s.end = 'fallthrough'
            done.append(s)
        return done

    def block(self, body, st, done):
        live = [st]
        for node in body:
            nxt = []
            for s in live:
                nxt.extend(self.stmt(node, s, done))
            live = nxt
            if not live:
                break
        return live

    def finish(self, st, kind, node, done):
        st.end = kind
        st.end_node = node
        done.append(st)
        self.n_paths += 1
        if self.n_paths > self.max_paths:
            raise AnalysisError('path explosion in pathwalk (> {} paths)'.format(self.max_paths))
        return []

    def fork(self, test_node, st, done, then_body, else_body):
        test = self.sym(test_node, st)
        return self.fork_sym(test, test_node, st, done, then_body, else_body)

    def fork_sym(self, test, test_node, st, done, then_body, else_body):
        # short-circuit forking for and/or keeps facts precise
        d = self.decide(test, st)
        out = []
        branches = []
        if d is None and test[0] == 'bool' and len(test[2]) >= 2:
            first, rest = test[2][0], test[2][1:]
            rest_t = rest[0] if len(rest) == 1 else ('bool', test[1], rest)
            if test[1] == 'or':
                # first true -> then ; first false -> test rest
                for pol in (True, False):
                    if self.decide(first, st) in (None, pol):
                        s2 = st.clone()
                        self.assume(first, pol, s2)
                        s2.conds.append((first, pol, test_node))
                        s2.events.append(('cond', first, pol, test_node))
                        if pol:
                            out.extend(self.block(then_body, s2, done))
                        else:
                            out.extend(self.fork_sym(rest_t, test_node, s2, done, then_body, else_body))
                return out
            else:
                for pol in (True, False):
                    if self.decide(first, st) in (None, pol):
                        s2 = st.clone()
                        self.assume(first, pol, s2)
                        s2.conds.append((first, pol, test_node))
                        s2.events.append(('cond', first, pol, test_node))
                        if pol:
                            out.extend(self.fork_sym(rest_t, test_node, s2, done, then_body, else_body))
                        else:
                            out.extend(self.block(else_body, s2, done))
                return out
        if (d is None and test[0] == 'cmp' and test[1] == 'in' and test[3][0] in ('list', 'tuple', 'set')
                and len(test[3][1]) > 1 and all(is_const(x) for x in test[3][1]) and not is_const(test[2])):
            f = st.facts.get(test[2])
            excluded = {x[1] for x in f['ne']} if f else set()
            for elt in test[3][1]:
                if elt[1] in excluded:
                    continue
                s2 = st.clone()
                s2.fact(test[2])['eq'] = elt
                s2.conds.append((('cmp', '==', test[2], elt), True, test_node))
                s2.events.append(('cond', ('cmp', '==', test[2], elt), True, test_node))
                out.extend(self.block(then_body, s2, done))
            s2 = st.clone()
            self.assume(test, False, s2)
            s2.conds.append((test, False, test_node))
            s2.events.append(('cond', test, False, test_node))
            out.extend(self.block(else_body, s2, done))
            return out
        for pol, body in ((True, then_body), (False, else_body)):
            if d is not None and d != pol:
                continue
            s2 = st.clone() if d is None else st
            if d is None:
                self.assume(test, pol, s2)
                s2.conds.append((test, pol, test_node))
                s2.events.append(('cond', test, pol, test_node))
            out.extend(self.block(body, s2, done))
        return out

    # -- inlining of effectful module-level helpers -----------------------------------------------------------------------
    def effectful_helper(self, name):
        """A module-level function that mutates one of its parameters (labels.update inside a `shrink_labels(labels, ...)`
        helper, `new_items.append` inside an `emit(...)` helper): its events belong to the caller's path."""
        cache = self.__dict__.setdefault('_eff', {})
        if name in cache:
            return cache[name]
        fn = self.facts.funcs.get(name)
        res = False
        if fn is not None and not fn.args.kwarg:
            params = {a.arg for a in fn.args.args + fn.args.kwonlyargs}
            for n in ast.walk(fn):
                if isinstance(n, ast.Call) and isinstance(n.func, ast.Attribute) and isinstance(n.func.value, ast.Name) \
                        and n.func.value.id in params and n.func.attr in MUTATORS:
                    res = True
                if isinstance(n, (ast.Assign, ast.AugAssign)):
                    tg = n.targets if isinstance(n, ast.Assign) else [n.target]
                    for t in tg:
                        if isinstance(t, (ast.Subscript, ast.Attribute)) and isinstance(t.value, ast.Name) and t.value.id in params:
                            res = True
            # functions that are themselves pipeline passes (take and return the item list) are never inlined
            if any(isinstance(n, ast.For) and isinstance(n.iter, ast.Name) and n.iter.id == fn.args.args[0].arg for n in fn.body if fn.args.args):
                res = False
        cache[name] = res
        return res

    def small_pure_helper(self, name):
        """A small module-level function without loops / try that is not a pipeline pass: inlined so that a guard or a
        computation moved into a helper is still seen on the caller's path."""
        cache = self.__dict__.setdefault('_small', {})
        if name in cache:
            return cache[name]
        fn = self.facts.funcs.get(name)
        ok = False
        if fn is not None and name not in self.opaque:
            n_stmt = sum(1 for n in ast.walk(fn) if isinstance(n, ast.stmt))
            has_loop = any(isinstance(n, (ast.For, ast.While, ast.Try, ast.With, ast.FunctionDef)) and n is not fn for n in ast.walk(fn))
            ok = n_stmt <= 30 and not has_loop
        cache[name] = ok
        return ok

    PURE_BUILTINS = {'isinstance', 'len', 'int', 'bool', 'abs', 'min', 'max', 'tuple', 'list', 'set', 'frozenset', 'str', 'bytes', 'range'}

    def pure_expr_fn(self, name):
        """FunctionDef of a module-level function whose body is `return <expression>` with calls only to builtins / other such
        functions (evaluated in place like a lambda, in inline='all' mode), or None."""
        if self.inline_mode != 'all' or name in self.opaque or name in self._inline_stack or len(self._inline_stack) >= 6:
            return None
        cache = self.__dict__.setdefault('_pure', {})
        if name in cache:
            return cache[name]
        fn = self.facts.funcs.get(name)
        res = None
        cache[name] = None
        if fn is not None and not fn.args.vararg and not fn.args.kwarg and not fn.args.kwonlyargs:
            body = [b for b in fn.body if not (isinstance(b, ast.Expr) and isinstance(b.value, ast.Constant))]
            if len(body) == 1 and isinstance(body[0], ast.Return) and body[0].value is not None:
                ok = True
                for n in ast.walk(body[0].value):
                    if isinstance(n, ast.Call):
                        if not isinstance(n.func, ast.Name):
                            ok = False
                        elif n.func.id not in self.PURE_BUILTINS and (n.func.id == name or self.pure_expr_fn(n.func.id) is None):
                            ok = False
                    if isinstance(n, (ast.Lambda, ast.Await, ast.Yield, ast.YieldFrom, ast.NamedExpr)):
                        ok = False
                if ok:
                    res = fn
        cache[name] = res
        return res

    def small_closure(self, fn):
        """A local helper (`def emit(x): nonlocal position; position += x.size(); out.append(x)`) whose effects belong to the
        enclosing function's path: no loops, no nested definitions."""
        def search_loop(n):
            # for ..: if <test>: X = <key>; break   -- the first-match search: walked as such wherever it stands
            return (isinstance(n, ast.For) and not n.orelse and len(n.body) == 1 and isinstance(n.body[0], ast.If) and not n.body[0].orelse
                    and len(n.body[0].body) == 2 and isinstance(n.body[0].body[0], ast.Assign) and isinstance(n.body[0].body[1], ast.Break))
        return not any(isinstance(n, (ast.For, ast.While, ast.FunctionDef, ast.Lambda, ast.Yield, ast.YieldFrom)) and n is not fn and not search_loop(n)
                       for n in ast.walk(fn))

    def inline_target(self, call, st):
        """FunctionDef to inline for this Call node, or None."""
        if not (isinstance(call, ast.Call) and isinstance(call.func, ast.Name)):
            return None
        name = call.func.id
        if any(isinstance(a, ast.Starred) for a in call.args):
            return None
        if name in st.env:
            v = st.env[name]
            if v[0] == 'closure' and len(v) > 2 and name not in self.opaque:
                fn = self.__dict__.get('_closures', {}).get(v[2])
                if fn is not None and isinstance(fn, ast.FunctionDef) and name not in self._inline_stack and not fn.args.vararg \
                        and len(self._inline_stack) < 8 and (self.inline_mode == 'all' or self.small_closure(fn)):
                    return fn
            return None
        if name not in self.facts.funcs or name in self.opaque or name in self._inline_stack:
            return None
        if self.pure_expr_fn(name) is not None:
            return None          # evaluated in place by sym()
        if len(self._inline_stack) >= (8 if self.inline_mode == 'all' else 4):
            return None
        fn = self.facts.funcs[name]
        if self.inline_mode == 'all':
            return fn
        sym_arg = self.__dict__.get('_eval_helpers_of')
        if sym_arg is not None and not fn.args.kwarg and any(not isinstance(a, ast.Starred) and self.sym(a, st) == sym_arg for a in call.args):
            return fn           # a helper of the predicate that is being applied: walked like the local closure it replaces
        if self.effectful_helper(name) or self.small_pure_helper(name):
            return fn
        return None

    def inline_call(self, call, st, done):
        """[(state, return value)] after walking the helper's body with parameters bound to the argument values, or None."""
        fn = self.inline_target(call, st)
        if fn is None:
            return None
        pos = [a.arg for a in fn.args.args]
        if len(call.args) > len(pos) and not fn.args.vararg:
            return None
        is_closure = call.func.id in st.env
        env = dict(st.env) if is_closure else {}
        if is_closure:
            _, cenv = self.fn_of_value(st.env[call.func.id])
            if cenv is not None:
                env = dict(cenv)
        for p_, a in zip(pos, call.args):
            env[p_] = self.sym(a, st)
        if fn.args.vararg:
            # def f(a, *rest): the surplus positional arguments, as a tuple
            env[fn.args.vararg.arg] = ('tuple', tuple(self.sym(a, st) for a in call.args[len(pos):]))
        extra = []
        names = set(pos) | {a.arg for a in fn.args.kwonlyargs}
        for k in call.keywords:
            v_ = self.sym(k.value, st)
            if k.arg is None:
                if v_[0] != 'kwdict':
                    return None
                items = v_[1]
            else:
                items = ((k.arg, v_),)
            for kn, kv in items:
                if kn in names:
                    env[kn] = kv
                elif fn.args.kwarg:
                    extra.append((kn, kv))
                else:
                    return None
        if fn.args.kwarg:
            env[fn.args.kwarg.arg] = ('kwdict', tuple(extra))
        defaults = dict(zip(pos[len(pos) - len(fn.args.defaults):], fn.args.defaults))
        for a, d in zip(fn.args.kwonlyargs, fn.args.kw_defaults):
            if d is not None:
                defaults[a.arg] = d
        for p_ in pos + [a.arg for a in fn.args.kwonlyargs]:
            if p_ not in env or (is_closure and p_ in st.env and p_ not in [x for x, _ in zip(pos, call.args)] and p_ not in [k.arg for k in call.keywords]):
                if p_ in defaults:
                    env[p_] = self.sym(defaults[p_], PathState())
                elif p_ not in env:
                    return None
        caller_env = st.env
        st.env = env
        n0 = len(st.events)
        self._inline_stack.append(call.func.id)
        inner_done = []
        try:
            live = self.block(fn.body, st, inner_done)
        finally:
            self._inline_stack.pop()
        for s in list(live) + inner_done:
            for i_ in range(n0, len(s.events)):
                s.sites[i_] = call
        out = []
        shared = set()
        if is_closure:
            for n in ast.walk(fn):
                if isinstance(n, (ast.Nonlocal, ast.Global)):
                    shared.update(n.names)

        def back(s):
            env2 = dict(caller_env)
            for n in shared:
                if n in s.env:
                    env2[n] = s.env[n]
            s.env = env2
        for s in live:
            back(s)
            out.append((s, C(None)))
        for s in inner_done:
            if s.end == 'return':
                ret = [e for e in s.events if e[0] == 'return'][-1]
                s.events.remove(ret)
                s.end = None
                s.end_node = None
                back(s)
                out.append((s, ret[1]))
            else:
                back(s)
                done.append(s)
        return out

    def expand_calls(self, node, st, done):
        """Hoist inlinable calls nested inside an expression: [(state, rewritten expression)] where every such call has been
        walked (forking paths as needed) and replaced by a temporary holding its symbolic result; conditional expressions whose
        test the path facts do not decide fork the path (x = a if t else b  is  if t: x = a  else: x = b)."""
        out = []
        for s_, e in self._expand_calls(node, st, done):
            out.extend(self.split_ifexp(e, s_))
        return out

    def split_ifexp(self, node, st, depth=0):
        if node is None or depth > 4:
            return [(st, node)]
        target = None
        for n in walk_eager(node):
            if isinstance(n, ast.IfExp):
                target = n
                break
        if target is None:
            return [(st, node)]
        test = self.sym(target.test, st)
        d = self.decide(test, st)
        out = []
        for pol in (True, False):
            if d is not None and d != pol:
                continue
            s2 = st.clone() if d is None else st
            if d is None:
                self.assume(test, pol, s2)
                s2.conds.append((test, pol, target))
                s2.events.append(('cond', test, pol, target))
            chosen = target.body if pol else target.orelse
            if target is node:
                new = chosen
            else:
                new = copy_ast_replacing(node, target, chosen)
            out.extend(self.split_ifexp(new, s2, depth + 1))
        return out

    def _expand_calls(self, node, st, done):
        if node is None or not any(isinstance(n, ast.Call) and self.inline_target(n, st) is not None for n in walk_eager(node)):
            return [(st, node)]
        node = copy_ast(node)
        states = [st]
        counter = self.__dict__.setdefault('_tmp', [0])
        while True:
            # innermost inlinable call
            target = None
            for n in walk_eager(node):
                if isinstance(n, ast.Call) and self.inline_target(n, states[0]) is not None:
                    inner = [m for m in walk_eager(n) if m is not n and isinstance(m, ast.Call) and self.inline_target(m, states[0]) is not None]
                    if not inner:
                        target = n
                        break
            if target is None:
                break
            counter[0] += 1
            tmp = '__inl{}'.format(counter[0])
            nxt = []
            for s_ in states:
                res = self.inline_call(target, s_, done)
                if res is None:
                    return [(st, node)]
                for s2, rv in res:
                    s2.env[tmp] = rv
                    nxt.append(s2)
            states = nxt
            if not states:
                return []
            repl = ast.copy_location(ast.Name(id=tmp, ctx=ast.Load()), target)

            class R(ast.NodeTransformer):
                def visit_Call(self_inner, n):
                    if n is target:
                        return repl
                    return self_inner.generic_visit(n)
            node = R().visit(node)
        return [(s_, node) for s_ in states]

    def stmt(self, node, st, done):
        if isinstance(node, ast.Expr):
            if isinstance(node.value, ast.Constant):
                return [st]
            inl = self.inline_call(node.value, st, done)
            if inl is not None:
                return [s for s, _ in inl]
            out = []
            for s, e in self.expand_calls(node.value, st, done):
                v = self.sym(e, s)
                if self.exits_end_paths:
                    exc = self.process_exit(v)
                    if exc is not None:
                        s.events.append(('raise', exc, node))
                        self.finish(s, 'raise', node, done)
                        continue
                if not (v[0] in ('name',) and isinstance(e, ast.Name) and e.id.startswith('__inl')):
                    s.events.append(self.effect(v, node))
                self.track_list_mutation(e, v, s)
                out.append(s)
            return out
        if isinstance(node, ast.Assign):
            inl = self.inline_call(node.value, st, done)
            if inl is not None:
                out = []
                for s, rv in inl:
                    for tgt in node.targets:
                        self.assign(tgt, rv, s, node)
                    out.append(s)
                return out
            pairs = self.expand_calls(node.value, st, done)
            if len(pairs) != 1 or pairs[0][1] is not node.value:
                out = []
                for s, e in pairs:
                    fake = ast.copy_location(ast.Assign(targets=node.targets, value=e), node)
                    out.extend(self._assign_stmt(fake, s, done, node))
                return out
            return self._assign_stmt(node, st, done, node)
        return self._stmt_rest(node, st, done)

    def track_list_mutation(self, e, v, st):
        """`x.append(v)` / `x.extend([a, b])` on a local bound to a list display written in this frame: every name bound to this
        very object sees the new elements (the event is recorded as before); any other mutating method leaves the contents unknown."""
        if not (isinstance(e, ast.Call) and isinstance(e.func, ast.Attribute) and isinstance(e.func.value, ast.Name)):
            return
        name = e.func.value.id
        cur = st.env.get(name)
        if not (isinstance(cur, tuple) and cur and cur[0] == 'list' and len(cur) == 2) or v[0] != 'mcall' or v[2] not in MUTATORS:
            return
        kwargs = v[4] if len(v) > 4 else ()
        if v[2] == 'append' and len(v[3]) == 1 and not kwargs:
            new = ('list', tuple(cur[1]) + (v[3][0],))
        elif v[2] == 'extend' and len(v[3]) == 1 and not kwargs and v[3][0][0] in ('list', 'tuple') and not any(x[0] == 'star' for x in v[3][0][1]):
            new = ('list', tuple(cur[1]) + tuple(v[3][0][1]))
        else:
            new = ('havoc', name, 'mutated@{}'.format(getattr(e, 'lineno', 0)))
        for n_, val in list(st.env.items()):
            if val is cur:
                st.env[n_] = new

    def effect_only(self, body, st):
        """Is the statement list made of calls made for their effect only (and `pass`): expression statements whose call is not a
        helper that would be inlined, does not end the process and has no call / lambda / comprehension among its arguments that
        could hide one?"""
        for b in body:
            if isinstance(b, ast.Pass):
                continue
            if not (isinstance(b, ast.Expr) and isinstance(b.value, ast.Call)):
                return False
            for n in ast.walk(b.value):
                if isinstance(n, ast.Call) and self.inline_target(n, st) is not None:
                    return False
                if isinstance(n, (ast.Lambda, ast.NamedExpr, ast.Await, ast.Yield, ast.YieldFrom)):
                    return False
                if isinstance(n, ast.Call) and isinstance(n.func, ast.Name) and n.func.id in st.env:
                    return False
            if self.process_exit(self.sym(b.value, st)) is not None:
                return False
        return True

    def process_exit(self, v):
        """The SystemExit a call statement raises when it never returns: sys.exit(x) / exit(x) / quit(x) are `raise SystemExit(x)`;
        <argparse.ArgumentParser>.error(msg) prints the message and exits with status 2, .exit(status=0, message=None) with
        `status`.  None for any other call."""
        if v[0] == 'call' and v[1] in ('sys.exit', 'exit', 'quit') and not v[3] and len(v[2]) <= 1:
            return ('call', 'SystemExit', tuple(v[2]), ())
        if v[0] == 'mcall' and v[2] in ('error', 'exit'):
            recv = v[1]
            while recv[0] == 'res':
                recv = recv[3]
            if recv[0] == 'call' and recv[1] in ('argparse.ArgumentParser', 'ArgumentParser'):
                if v[2] == 'error':
                    return ('call', 'SystemExit', (C(2),), ())
                status = v[3][0] if v[3] else dict(v[4]).get('status', C(0))
                return ('call', 'SystemExit', (status,), ())
        return None

    def first_match_next(self, node, st):
        """`X = next((k for k, preds in TABLE.items() if all(pred(args) for pred in preds)), default)`: (target name, keys,
        predicate text, iterable value, default value) - the generator form of the first-match search loop - else None."""
        val = node.value
        if not (isinstance(val, ast.Call) and isinstance(val.func, ast.Name) and val.func.id == 'next' and 1 <= len(val.args) <= 2
                and len(node.targets) == 1 and isinstance(node.targets[0], ast.Name)):
            return None
        g = val.args[0]
        if isinstance(g, ast.Name):
            g = self.__dict__.setdefault('_genexps', {}).get((id(st.env.get(g.id)), g.id))
        if not (isinstance(g, ast.GeneratorExp) and len(g.generators) == 1):
            return None
        gen = g.generators[0]
        if not (isinstance(gen.target, ast.Tuple) and len(gen.target.elts) == 2 and isinstance(g.elt, ast.Name)
                and isinstance(gen.target.elts[0], ast.Name) and g.elt.id == gen.target.elts[0].id and len(gen.ifs) == 1
                and isinstance(gen.ifs[0], ast.Call) and dotted(gen.ifs[0].func) == 'all'):
            return None
        it = self.sym(gen.iter, st)
        if not (it[0] == 'mcall' and it[2] == 'items' and it[1][0] == 'dict' and all(is_const(k) for k, _ in it[1][1])):
            return None
        default = self.sym(val.args[1], st) if len(val.args) == 2 else ('opaque', 'StopIteration')
        return node.targets[0].id, [k[1] for k, _ in it[1][1]], unparse(gen.ifs[0]), it, default

    def _assign_stmt(self, node, st, done, orig):
        if isinstance(node.value, ast.GeneratorExp) and len(node.targets) == 1 and isinstance(node.targets[0], ast.Name):
            # remember the expression behind a generator bound to a local (consumed later by next())
            v = self.sym(node.value, st)
            st.env[node.targets[0].id] = v
            self.__dict__.setdefault('_genexps', {})[(id(v), node.targets[0].id)] = node.value
            return [st]
        fm = self.first_match_next(node, st)
        if fm is not None:
            var, keys, pred_text, it, default = fm
            st.events.append(('search', it, pred_text, orig))
            out = []
            for kv in keys + [None]:
                s2 = st.clone()
                s2.env[var] = C(kv) if kv is not None else default
                s2.events.append(('matched', C(kv), orig))
                out.append(s2)
            return out
        if True:
            v = self.sym(node.value, st)
            if self.name_results and v[0] in ('call', 'mcall', 'callv', 'ctx') and any(isinstance(n, ast.Call) for n in ast.walk(node.value)):
                uid = self.__dict__.setdefault('_uid', [0])
                uid[0] += 1
                tg = node.targets[0]
                nm = tg.id if isinstance(tg, ast.Name) else '_'.join(e.id for e in getattr(tg, 'elts', []) if isinstance(e, ast.Name)) or 'tmp'
                v = ('res', nm, getattr(orig, 'lineno', 0), v, uid[0])
            if (v[0] in ('call', 'mcall', 'callv', 'new') or (v[0] == 'res')) and any(isinstance(n, ast.Call) for n in ast.walk(node.value)):
                st.events.append(('value', v, orig))
            for tgt in node.targets:
                self.assign(tgt, v, st, orig)
            return [st]

    def _stmt_rest(self, node, st, done):
        if isinstance(node, ast.AugAssign):
            rhs = self.sym(node.value, st)
            if isinstance(node.target, ast.Name):
                old = st.env.get(node.target.id, ('name', node.target.id))
                op = _OPS.get(type(node.op), '?')
                st.env[node.target.id] = ('bin', op, old, rhs)
                st.events.append(('aug', node.target.id, op, rhs, node))
            else:
                st.events.append(('augstore', self.sym(node.target, st), _OPS.get(type(node.op), '?'), rhs, node))
            return [st]
        if isinstance(node, ast.If):
            out = []
            for s, e in self.expand_calls(node.test, st, done):
                if self.guard_effects and self.effect_only(node.body, s) and self.effect_only(node.orelse, s):
                    test = self.sym(e, s)
                    if self.decide(test, s) is None and test[0] != 'bool':
                        for pol, body in ((True, node.body), (False, node.orelse)):
                            for b in body:
                                if isinstance(b, ast.Expr) and isinstance(b.value, ast.Call):
                                    s.events.append(('guarded', test, pol, self.effect(self.sym(b.value, s), b), node))
                        out.append(s)
                        continue
                out.extend(self.fork(e, s, done, node.body, node.orelse))
            return out
        if isinstance(node, ast.Continue):
            return self.finish(st, 'continue', node, done)
        if isinstance(node, ast.Break):
            return self.finish(st, 'break', node, done)
        if isinstance(node, ast.Return):
            for s, e in self.expand_calls(node.value, st, done):
                v = self.sym(e, s)
                if self.name_results and v[0] in ('call', 'mcall', 'callv') and self._inline_stack:
                    # `return device.request(...)` inside an inlined helper: the call is an event of the caller's path
                    uid = self.__dict__.setdefault('_uid', [0])
                    uid[0] += 1
                    v = ('res', 'return', getattr(node, 'lineno', 0), v, uid[0])
                    s.events.append(('value', v, node))
                s.events.append(('return', v, node))
                self.finish(s, 'return', node, done)
            return []
        if isinstance(node, ast.Raise):
            for s, e in self.expand_calls(node.exc, st, done):
                s.events.append(('raise', self.sym(e, s), node))
                self.finish(s, 'raise', node, done)
            return []
        if isinstance(node, ast.Pass):
            return [st]
        if isinstance(node, ast.Assert):
            st.events.append(('assert', self.sym(node.test, st), node))
            return [st]
        if isinstance(node, ast.For):
            return self.inner_for(node, st, done)
        if isinstance(node, ast.While):
            return self.inner_while(node, st, done)
        if isinstance(node, ast.Try):
            return self.try_stmt(node, st, done)
        if isinstance(node, ast.With):
            for item in node.items:
                v = self.sym(item.context_expr, st)
                st.events.append(('with', v, node))
                if item.optional_vars is not None:
                    self.assign(item.optional_vars, ('ctx', v), st, node)
            out = self.block(node.body, st, done)
            for s in out:
                s.events.append(('endwith', None, node))
            return out
        if isinstance(node, (ast.FunctionDef, ast.ClassDef)):
            self.__dict__.setdefault('_closures', {})[id(node)] = node
            if self._inline_stack or self.__dict__.get('_eval_depth', [0])[0] > 0:
                # defined inside a frame that is being evaluated: the frame's variables are captured as they are now
                env = dict(st.env)
                uid = self.new_fnval(node, env)
                st.env[node.name] = ('closure', node.name, id(node), uid)
                env[node.name] = st.env[node.name]
            else:
                st.env[node.name] = ('closure', node.name, id(node))
            for dec in reversed(getattr(node, 'decorator_list', [])):
                # @decorator: the name is bound to decorator(function); a decorator that is not applied in place leaves it unknown
                dv = self.sym(dec, st)
                made = self.eval_call(dv, (st.env[node.name],), (), st) if isinstance(dv, tuple) and dv and dv[0] in ('closure', 'lambda', 'obj') else None
                st.env[node.name] = made if made is not None else ('havoc', node.name, 'decorated@{}'.format(node.lineno))
            return [st]
        if isinstance(node, (ast.Import, ast.ImportFrom)):
            st.events.append(('import', unparse(node), node))
            return [st]
        if isinstance(node, (ast.Global, ast.Nonlocal)):
            st.events.append(('global', tuple(node.names), node))
            return [st]
        if isinstance(node, ast.Delete):
            st.events.append(('delete', tuple(self.sym(t, st) for t in node.targets), node))
            return [st]
        raise AnalysisError('pathwalk: statement form {} not modelled: {}'.format(type(node).__name__, unparse(node).split('\n')[0]))

    def effect(self, v, node):
        if v[0] == 'mcall':
            return ('mcall', v[1], v[2], v[3], v[4], node)
        return ('expr', v, node)

    def assign(self, tgt, v, st, node):
        if isinstance(tgt, ast.Name):
            st.env[tgt.id] = v
        elif isinstance(tgt, (ast.Tuple, ast.List)):
            n = len(tgt.elts)
            star = [i for i, e in enumerate(tgt.elts) if isinstance(e, ast.Starred)]
            nt = self.namedtuple_values(v) if v[0] == 'new' else None
            if nt is not None and not star and len(nt) == n:
                v = ('tuple', tuple(nt))
            for i, e in enumerate(tgt.elts):
                if v[0] in ('tuple', 'list') and not star and len(v[1]) == n:
                    self.assign(e, v[1][i], st, node)
                elif isinstance(e, ast.Starred):
                    self.assign(e.value, ('unpack', v, '{}:{}'.format(i, i - n + 1 if i - n + 1 else ''), n), st, node)
                else:
                    idx = i if not star or i < star[0] else i - n
                    self.assign(e, ('unpack', v, str(idx), n if not star else -n), st, node)
        elif isinstance(tgt, ast.Subscript):
            base, key = self.sym(tgt.value, st), self.sym(tgt.slice, st)
            st.events.append(('setitem', base, key, v, node))
            if base[0] == 'dict' and is_const(key) and all(is_const(k) for k, _ in base[1]):
                # a dict literal held in a local: keep its value up to date (every name bound to this object)
                items = tuple((k, (v if k == key else x)) for k, x in base[1])
                if all(k != key for k, _ in base[1]):
                    items = items + ((key, v),)
                new = ('dict', items) + base[2:]
                for n_, val in list(st.env.items()):
                    if val == base:
                        st.env[n_] = new
        elif isinstance(tgt, ast.Attribute):
            base_ = self.sym(tgt.value, st)
            if base_[0] == 'closure' and len(base_) > 3:
                # an attribute set on a function object that was created in the frame being evaluated (a tag on a closure):
                # remembered on the value, visible to nobody else
                self.__dict__.setdefault('_fnattrs', {})[(base_, tgt.attr)] = v
                return
            st.events.append(('setattr', base_, tgt.attr, v, node))
        else:
            raise AnalysisError('pathwalk: assignment target {}'.format(unparse(tgt)))

    def assigned_names(self, body):
        out = set()
        for n in body:
            for x in ast.walk(n):
                if isinstance(x, ast.Name) and isinstance(x.ctx, ast.Store):
                    out.add(x.id)
        return out

    def inner_for(self, node, st, done):
        """Nested loop: first-match search idiom is expanded; anything else runs its body zero or one time with the
        variables it assigns havoc'd; events inside are tagged."""
        it = self.sym(node.iter, st)
        if it[0] == 'name' and len(it) == 2 and it[1] not in st.env and it[1] not in self.facts.consts:
            # a module-level table written as a literal sequence (rows with non-constant cells: dict(...) option sets, classes)
            lit = self.module_literal(it[1])
            if lit is not None and lit[0] in ('list', 'tuple'):
                it = lit
        keys = self.search_keys(node, it, st)
        if keys is None:
            objs = self.search_objects(node, it, st)
            if objs is not None:
                # the same first-match search over a list of rule objects: presented as the table it spells out
                var, table, text = objs
                it = ('mcall', table, 'items', ())
                keys = (var, [k[1] for k, _ in table[1]], text)
        if keys is None:
            rows = self.search_rows(node, it, st)
            if rows is not None:
                # the first-match search over rows of any literal shape, possibly with further tests next to the all(...)
                var, table, text = rows
                it = ('mcall', table, 'items', ())
                keys = (var, [k[1] for k, _ in table[1]], text)
        if keys is not None:
            var, key_values, pred_calls = keys
            out = []
            st.events.append(('search', it, pred_calls, node))
            for kv in key_values + [None]:
                s2 = st.clone()
                if kv is not None:
                    s2.env[var] = C(kv)
                    s2.events.append(('matched', C(kv), node))
                else:
                    if node.orelse:
                        # for ... else: X = default   (no rule matched, the loop ran to its end)
                        s2.env[var] = self.sym(node.orelse[0].value, s2)
                    s2.events.append(('matched', C(None), node))
                out.append(s2)
            return out
        if it[0] in ('tuple', 'list') and len(it[1]) <= 32 and not any(e[0] == 'star' for e in it[1]) and not node.orelse:
            return self.unrolled_for(node, it, st, done)
        if (it[0] == 'call' and it[1] == 'filter' and len(it[2]) == 2 and not it[3] and it[2][0] == C(None) and it[2][1][0] in ('tuple', 'list')
                and len(it[2][1][1]) <= 6 and not any(e[0] == 'star' for e in it[2][1][1]) and not node.orelse):
            # for x in filter(None, [a, b]): the body runs for the elements that are truthy, in order
            return self.unrolled_for(node, it[2][1], st, done, only_truthy=True)
        pl = self.polling_iter(node)
        if pl is not None:
            # for x in iter(<callable>, sentinel): body    is    while True: x = <callable>(); if x == sentinel: break; body
            return self.inner_while(pl, st, done)
        upd = self.dict_update_loop(node)
        if upd is not None:
            # for k, v in D.items(): [if test:] D[k] = f(v)     is     D.update({k: f(v) for k, v in D.items() [if test]})
            dnode, comp = upd
            st.events.append(('mcall', self.sym(dnode, st), 'update', (self.sym(comp, st),), (), node))
            return [st]
        # generic
        names = self.assigned_names([node])
        s0 = st.clone()
        s1 = st.clone()
        tag = 'loop@{}'.format(node.lineno)
        for n in names:
            s1.env[n] = ('havoc', n, tag)
        s1.events.append(('loop', it, node))
        inner_done = []
        live = self.block(node.body, s1, inner_done)
        out = []
        # accumulator idiom: a local extended/appended exactly once per iteration at the top level of the loop body
        accs = {}
        for b in must_statements(node.body):
            if (isinstance(b, ast.Expr) and isinstance(b.value, ast.Call) and isinstance(b.value.func, ast.Attribute)
                    and b.value.func.attr in ('extend', 'append') and isinstance(b.value.func.value, ast.Name)
                    and len(b.value.args) == 1 and b.value.func.value.id in st.env):
                accs.setdefault(b.value.func.value.id, []).append((b.value.func.attr, b))
            if (isinstance(b, ast.AugAssign) and isinstance(b.op, ast.Add) and isinstance(b.target, ast.Name)
                    and b.target.id in st.env):
                accs.setdefault(b.target.id, []).append(('extend', b))
        for s in live + [s for s in inner_done if s.end in ('continue', 'break')]:
            broke = s.end in ('continue', 'break')
            left_by_break = s.end == 'break'
            s.end = None
            s.events.append(('endloop', it, node))
            # values assigned before the loop and re-assigned inside are unknown afterwards - except on a path that leaves through
            # `break`: what it assigned in that last iteration is what the code after the loop sees (everything assigned in earlier
            # iterations is havoc already, from the loop entry)
            for n in names:
                if n in st.env and s.env.get(n) != st.env.get(n) and not left_by_break:
                    s.env[n] = ('havoc', n, tag)
            for n in list(st.env):
                # changed in place inside the body (a local list appended to): one walk of the body does not say what it holds
                if n not in names and s.env.get(n) is not st.env.get(n) and s.env.get(n) != st.env.get(n):
                    s.env[n] = ('havoc', n, tag)
            for an, uses in accs.items():
                if len(uses) == 1 and not broke:
                    meth, bnode = uses[0]
                    elem = None
                    for ev in s.events:
                        if ev[0] == 'mcall' and ev[5] is bnode:
                            elem = ev[3][0]
                        if ev[0] == 'aug' and ev[4] is bnode:
                            elem = ev[3]
                    if elem is not None:
                        s.env[an] = ('accum', st.env[an], it, elem, meth)
            out.append(s)
        for s in inner_done:
            if s.end in ('raise', 'return'):
                done.append(s)
        s0.events.append(('loop0', it, node))
        # zero iterations: the iterable is empty
        cur = it
        while True:
            s0.fact(('call', 'len', (cur,), ()))['eq'] = C(0)
            if cur[0] == 'comp' and not cur[5]:
                cur = cur[4]
                continue
            break
        for n in names:
            if n in s0.env:
                pass
        out.append(s0)
        return out

    def polling_iter(self, node):
        """The `while True` loop equivalent to `for x in iter(functools.partial(f, *a), sentinel)` / `iter(lambda: e, sentinel)`."""
        it = node.iter
        if not (isinstance(it, ast.Call) and isinstance(it.func, ast.Name) and it.func.id == 'iter' and len(it.args) == 2 and not it.keywords) or node.orelse:
            return None
        src, sentinel = it.args
        call = None
        if isinstance(src, ast.Call) and dotted(src.func) in ('functools.partial', 'partial') and src.args:
            call = ast.Call(func=src.args[0], args=list(src.args[1:]), keywords=list(src.keywords))
        elif isinstance(src, ast.Lambda) and not src.args.args and not src.args.vararg and not src.args.kwarg:
            call = src.body
        elif isinstance(src, ast.Name) and src.id in self.facts.funcs:
            call = ast.Call(func=src, args=[], keywords=[])
        if call is None:
            return None
        body = [ast.Assign(targets=[node.target], value=call, type_comment=None)]
        if not (isinstance(sentinel, ast.Constant) and sentinel.value is None and isinstance(node.target, (ast.Tuple, ast.List))):
            tgt_load = copy_ast(node.target)
            for n in ast.walk(tgt_load):
                if hasattr(n, 'ctx'):
                    n.ctx = ast.Load()
            body.append(ast.If(test=ast.Compare(left=tgt_load, ops=[ast.Eq()], comparators=[sentinel]), body=[ast.Break()], orelse=[]))
        w = ast.While(test=ast.Constant(value=True), body=body + list(node.body), orelse=[])
        ast.copy_location(w, node)
        ast.fix_missing_locations(w)
        for b in w.body:
            ast.copy_location(b, node) if not hasattr(b, 'lineno') else None
        return w

    def dict_update_loop(self, node):
        """(dict expression, equivalent DictComp node) for a loop that rewrites the values of the dict it iterates, else None:
        `for k, v in D.items(): [if test:] D[k] = f(v)` and `for k in D: [if test:] D[k] = f(D[k])`, the assignment possibly
        written as an augmented one, the iterable possibly wrapped in list(...)."""
        if node.orelse:
            return None
        if isinstance(node.target, ast.Name):
            return self.dict_update_loop_keys(node)      # brings the loop over the keys to the items form
        pair = isinstance(node.target, ast.Tuple) and len(node.target.elts) == 2 and all(isinstance(e, ast.Name) for e in node.target.elts)
        if not pair and not isinstance(node.target, ast.Name):
            return None
        it = node.iter
        if isinstance(it, ast.Call) and isinstance(it.func, ast.Name) and it.func.id in ('list', 'tuple') and len(it.args) == 1 and not it.keywords:
            it = it.args[0]
        if pair:
            if not (isinstance(it, ast.Call) and isinstance(it.func, ast.Attribute) and it.func.attr == 'items' and not it.args
                    and isinstance(it.func.value, ast.Name)):
                return None
            dexpr = it.func.value
            k, v = node.target.elts[0].id, node.target.elts[1].id
        else:
            if isinstance(it, ast.Call) and isinstance(it.func, ast.Attribute) and it.func.attr == 'keys' and not it.args and not it.keywords:
                it = it.func.value
            if not isinstance(it, ast.Name):
                return None
            dexpr = it
            k, v = node.target.id, None
        dname = dexpr.id
        body = node.body
        tests = []
        while len(body) == 1 and isinstance(body[0], ast.If) and not body[0].orelse:
            tests.append(body[0].test)
            body = body[0].body
        if len(body) != 1:
            return None
        st0 = body[0]
        if isinstance(st0, ast.Assign) and len(st0.targets) == 1:
            tgt, value = st0.targets[0], st0.value
        elif isinstance(st0, ast.AugAssign):
            tgt = st0.target
            cur = ast.Name(id=v, ctx=ast.Load()) if pair else ast.Subscript(value=ast.Name(id=dname, ctx=ast.Load()), slice=ast.Name(id=k, ctx=ast.Load()), ctx=ast.Load())
            value = ast.BinOp(left=cur, op=st0.op, right=st0.value)
        else:
            return None
        if not (isinstance(tgt, ast.Subscript) and isinstance(tgt.value, ast.Name) and tgt.value.id == dname
                and isinstance(tgt.slice, ast.Name) and tgt.slice.id == k):
            return None
        if pair and any(isinstance(n, ast.Name) and n.id == dname for t in tests + [value] for n in ast.walk(t)):
            return None
        if not pair:
            # the dict may only be read at the key of this iteration
            cells = set()
            for t in tests + [value]:
                for n in ast.walk(t):
                    if isinstance(n, ast.Subscript) and isinstance(n.value, ast.Name) and n.value.id == dname and isinstance(n.slice, ast.Name) and n.slice.id == k:
                        cells.add(id(n.value))
            if any(isinstance(n, ast.Name) and n.id == dname and id(n) not in cells for t in tests + [value] for n in ast.walk(t)):
                return None
        comp = ast.DictComp(key=ast.Name(id=k, ctx=ast.Load()), value=value,
                            generators=[ast.comprehension(target=node.target, iter=it, ifs=tests, is_async=0)])
        ast.copy_location(comp, node)
        ast.fix_missing_locations(comp)
        return dexpr, comp

    def dict_update_loop_keys(self, node):
        """for k in D [/ D.keys() / list(D)]: [if test(D[k]):] D[k] = f(D[k])  /  D[k] -= d     is
        D.update({k: f(v) for k, v in D.items() [if test(v)]})   (values are replaced, keys are not added: iterating is safe)"""
        it = node.iter
        if isinstance(it, ast.Call) and isinstance(it.func, ast.Name) and it.func.id in ('list', 'tuple', 'sorted') and len(it.args) == 1 and not it.keywords:
            it = it.args[0]
        if isinstance(it, ast.Call) and isinstance(it.func, ast.Attribute) and it.func.attr == 'keys' and not it.args and not it.keywords:
            it = it.func.value
        if not isinstance(it, ast.Name):
            return None
        dname, k = it.id, node.target.id
        body = node.body
        tests = []
        while len(body) == 1 and isinstance(body[0], ast.If) and not body[0].orelse:
            tests.append(body[0].test)
            body = body[0].body
        if len(body) != 1:
            return None
        stmt = body[0]

        def is_cell(t):
            return isinstance(t, ast.Subscript) and isinstance(t.value, ast.Name) and t.value.id == dname and isinstance(t.slice, ast.Name) and t.slice.id == k
        vname = '_value_of_{}'.format(k)
        if isinstance(stmt, ast.Assign) and len(stmt.targets) == 1 and is_cell(stmt.targets[0]):
            value = stmt.value
        elif isinstance(stmt, ast.AugAssign) and is_cell(stmt.target):
            value = ast.BinOp(left=ast.Subscript(value=ast.Name(id=dname, ctx=ast.Load()), slice=ast.Name(id=k, ctx=ast.Load()), ctx=ast.Load()),
                              op=stmt.op, right=stmt.value)
        else:
            return None

        class Sub(ast.NodeTransformer):
            def visit_Subscript(self, n):
                if is_cell(n) and isinstance(n.ctx, ast.Load):
                    return ast.Name(id=vname, ctx=ast.Load())
                return self.generic_visit(n)
        new_tests = [Sub().visit(copy_ast(t)) for t in tests]
        new_value = Sub().visit(copy_ast(value))
        if any(isinstance(n, ast.Name) and n.id == dname for t in new_tests + [new_value] for n in ast.walk(t)):
            return None
        items = ast.Call(func=ast.Attribute(value=ast.Name(id=dname, ctx=ast.Load()), attr='items', ctx=ast.Load()), args=[], keywords=[])
        comp = ast.DictComp(key=ast.Name(id=k, ctx=ast.Load()), value=new_value,
                            generators=[ast.comprehension(target=ast.Tuple(elts=[ast.Name(id=k, ctx=ast.Store()), ast.Name(id=vname, ctx=ast.Store())], ctx=ast.Store()),
                                                          iter=items, ifs=new_tests, is_async=0)])
        ast.copy_location(comp, node)
        ast.fix_missing_locations(comp)
        return ast.Name(id=dname, ctx=ast.Load()), comp

    def unrolled_for(self, node, it, st, done, only_truthy=False):
        """`for x in (<literal elements>)`: the body is walked once per element, in order (with only_truthy: for the elements
        that are truthy - the others are skipped, which forks the path on each element's truthiness)."""
        states = [st]
        exited = []
        for e in it[1]:
            nxt = []
            if only_truthy:
                forked = []
                for s in states:
                    d = self.decide(e, s)
                    for pol in (True, False):
                        if d in (None, pol):
                            s2 = s.clone() if d is None else s
                            self.assume(e, pol, s2)
                            s2.conds.append((e, pol, node))
                            s2.events.append(('cond', e, pol, node))
                            if pol:
                                forked.append(s2)
                            else:
                                nxt.append(s2)
                states = forked
            for s in states:
                self.assign(node.target, e, s, node)
                inner_done = []
                live = self.block(node.body, s, inner_done)
                for s2 in inner_done:
                    if s2.end == 'continue':
                        s2.end = None
                        s2.end_node = None
                        live.append(s2)
                    elif s2.end == 'break':
                        s2.end = None
                        s2.end_node = None
                        exited.append(s2)
                    else:
                        done.append(s2)
                nxt.extend(live)
            states = nxt
            if len(states) + len(exited) > 256:
                raise AnalysisError('path explosion while unrolling the loop at line {}'.format(node.lineno))
        return states + exited

    def search_keys(self, node, it, st):
        """`for k, preds in TABLE.items(): if all(pred(args) for pred in preds): X = k; break` -> (X, keys, call shape)."""
        if not (len(node.body) == 1 and isinstance(node.body[0], ast.If) and not node.body[0].orelse):
            return None
        if node.orelse and not (len(node.orelse) == 1 and isinstance(node.orelse[0], ast.Assign) and len(node.orelse[0].targets) == 1
                                and isinstance(node.orelse[0].targets[0], ast.Name)):
            return None
        iff = node.body[0]
        if not (isinstance(iff.test, ast.Call) and dotted(iff.test.func) == 'all' and len(iff.body) == 2
                and isinstance(iff.body[0], ast.Assign) and isinstance(iff.body[1], ast.Break)):
            return None
        if not (it[0] == 'mcall' and it[2] == 'items'):
            return None
        table = it[1]
        if table[0] != 'dict':
            return None
        keys = []
        for k, v in table[1]:
            if not is_const(k):
                return None
            keys.append(k[1])
        asg = iff.body[0]
        if not (isinstance(asg.targets[0], ast.Name) and isinstance(node.target, ast.Tuple) and len(node.target.elts) == 2
                and all(isinstance(e, ast.Name) for e in node.target.elts)
                and isinstance(asg.value, ast.Name) and asg.value.id == node.target.elts[0].id):
            return None
        if node.orelse and node.orelse[0].targets[0].id != asg.targets[0].id:
            return None
        return asg.targets[0].id, keys, unparse(iff.test)

    def search_rows(self, node, it, st):
        """`for <target> in ROWS: if [tests and] all(p(args) for p in <preds>) [and tests]: X = <key>; break` with ROWS a literal
        sequence of rows (or the items of a dict display), the target any nesting of names: every row is bound to the target and the
        test evaluated for it.  A test next to the all(...) becomes a predicate of its own, in its place ('symtest', value, args).
        -> (X, ('dict', ((key, ('list', predicates)), ..)), text of the test), else None."""
        if it[0] == 'mcall' and it[2] == 'items' and not it[3] and it[1][0] == 'dict' and all(isinstance(pr, tuple) and len(pr) == 2 and is_const(pr[0]) for pr in it[1][1]):
            elems = [('tuple', (k, v)) for k, v in it[1][1]]
        elif it[0] in ('list', 'tuple') and not any(e[0] == 'star' for e in it[1]):
            elems = list(it[1])
        elif (it[0] == 'dict' or (it[0] == 'mcall' and it[2] == 'keys' and not it[3] and it[1][0] == 'dict')) \
                and all(isinstance(pr, tuple) and len(pr) == 2 and is_const(pr[0]) for pr in (it if it[0] == 'dict' else it[1])[1]):
            elems = [k for k, _ in (it if it[0] == 'dict' else it[1])[1]]          # for key in TABLE: ... TABLE[key] ...
        else:
            return None
        if not elems or len(elems) > 64:
            return None
        # plain bindings in front of the test (`preds = criteria[name]`) are part of the row
        prefix = [b for b in node.body[:-1]]
        if not all(isinstance(b, ast.Assign) and len(b.targets) == 1 and isinstance(b.targets[0], (ast.Name, ast.Tuple))
                   and not any(isinstance(n, ast.Call) for n in ast.walk(b.value)) for b in prefix):
            return None
        if not (node.body and isinstance(node.body[-1], ast.If) and not node.body[-1].orelse):
            return None
        if node.orelse and not (len(node.orelse) == 1 and isinstance(node.orelse[0], ast.Assign) and len(node.orelse[0].targets) == 1
                                and isinstance(node.orelse[0].targets[0], ast.Name)):
            return None
        iff = node.body[-1]
        if not (len(iff.body) == 2 and isinstance(iff.body[0], ast.Assign) and isinstance(iff.body[1], ast.Break)
                and len(iff.body[0].targets) == 1 and isinstance(iff.body[0].targets[0], ast.Name)):
            return None
        if not any(isinstance(n, ast.Call) and isinstance(n.func, ast.Name) and n.func.id == 'all' for n in ast.walk(iff.test)):
            return None
        var = iff.body[0].targets[0].id
        if node.orelse and node.orelse[0].targets[0].id != var:
            return None
        bound = {n.id for n in ast.walk(node.target) if isinstance(n, ast.Name)} | {n.id for b in prefix for n in ast.walk(b.targets[0]) if isinstance(n, ast.Name)}
        pairs = []
        shape = None
        self.__dict__['_capture_all'] = self.__dict__.get('_capture_all', 0) + 1
        try:
            for e in elems:
                s2 = st.clone()
                try:
                    self.assign(node.target, e, s2, node)
                    for b in prefix:
                        self.assign(b.targets[0], self.sym(b.value, s2), s2, b)
                    tv = self.sym(iff.test, s2)
                    key = self.sym(iff.body[0].value, s2)
                except AnalysisError:
                    return None
                if not (is_const(key) and isinstance(key[1], str)):
                    return None
                parts = list(tv[2]) if tv[0] == 'bool' and tv[1] == 'and' else [tv]
                alls = [x for x in parts if x[0] == 'allpreds']
                if len(alls) != 1 or alls[0][1][0] not in ('list', 'tuple'):
                    return None
                args = alls[0][2]
                if shape is None:
                    shape = args
                elif shape != args:
                    return None
                preds = []
                for x in parts:
                    if x[0] == 'allpreds':
                        preds.extend(x[1][1])
                    elif any(contains_value(x, ('var', b)) or contains_value(x, ('havoc', b)) for b in bound) or contains_value(x, ('unpack',)):
                        return None
                    else:
                        preds.append(('symtest', x, args, iff.test))
                pairs.append((key, ('list', tuple(preds))))
        finally:
            self.__dict__['_capture_all'] -= 1
        if len({k for k, _ in pairs}) != len(pairs):
            return None
        return var, ('dict', tuple(pairs)), unparse(iff.test)

    def search_objects(self, node, it, st):
        """`for r in RULES: if <r's predicates all hold for the arguments>: X = <r's key>; break` with RULES a literal list of
        objects of a local class: (X, ('dict', ((key, ('list', predicates)), ..)), text of the test), else None."""
        if not (it[0] in ('list', 'tuple') and it[1] and all(e[0] == 'obj' for e in it[1]) and len(it[1]) <= 64 and isinstance(node.target, ast.Name)):
            return None
        if not (len(node.body) == 1 and isinstance(node.body[0], ast.If) and not node.body[0].orelse):
            return None
        if node.orelse and not (len(node.orelse) == 1 and isinstance(node.orelse[0], ast.Assign) and len(node.orelse[0].targets) == 1
                                and isinstance(node.orelse[0].targets[0], ast.Name)):
            return None
        iff = node.body[0]
        if not (len(iff.body) == 2 and isinstance(iff.body[0], ast.Assign) and isinstance(iff.body[1], ast.Break)
                and len(iff.body[0].targets) == 1 and isinstance(iff.body[0].targets[0], ast.Name)):
            return None
        var = iff.body[0].targets[0].id
        if node.orelse and node.orelse[0].targets[0].id != var:
            return None
        pairs = []
        shape = None
        self.__dict__['_capture_all'] = self.__dict__.get('_capture_all', 0) + 1
        try:
            for e in it[1]:
                s2 = st.clone()
                s2.env[node.target.id] = e
                try:
                    tv = self.sym(iff.test, s2)
                    key = self.sym(iff.body[0].value, s2)
                except AnalysisError:
                    return None
                if not (tv[0] == 'allpreds' and tv[1][0] in ('list', 'tuple') and is_const(key) and isinstance(key[1], str)):
                    return None
                if shape is None:
                    shape = tv[2]
                elif shape != tv[2]:
                    return None
                pairs.append((key, ('list', tv[1][1])))
        finally:
            self.__dict__['_capture_all'] -= 1
        if len({k for k, _ in pairs}) != len(pairs):
            return None
        return var, ('dict', tuple(pairs)), unparse(iff.test)

    def inner_while(self, node, st, done):
        names = self.assigned_names([node])
        tag = 'while@{}'.format(node.lineno)
        test = self.sym(node.test, st)
        st.events.append(('while', test, node))
        s1 = st.clone()
        for n in names:
            s1.env[n] = ('havoc', n, tag)
        inner_done = []
        live = self.block(node.body, s1, inner_done)
        out = []
        forever = self.decide(test, st) is True and is_const(test)
        for s in live + [s for s in inner_done if s.end in ('continue', 'break')]:
            broke = s.end == 'break'
            if forever and not broke:
                continue           # `while True:` is only ever left through break / return / raise
            s.end = None
            for n in list(st.env):
                if n not in names and s.env.get(n) is not st.env.get(n) and s.env.get(n) != st.env.get(n):
                    s.env[n] = ('havoc', n, tag)          # changed in place inside the body (a local list appended to)
            if broke and forever:
                # the facts the exit rests on are the `if ...: break` conditions already on the path
                s.events.append(('endwhile', C(False), node))
            else:
                s.events.append(('endwhile', self.sym(node.test, s), node))
            out.append(s)
        for s in inner_done:
            if s.end in ('raise', 'return'):
                done.append(s)
        if not forever:
            s0 = st.clone()
            s0.events.append(('endwhile0', test, node))
            out.append(s0)
        return out

    def try_stmt(self, node, st, done):
        entry = st.clone()
        st.events.append(('try', None, node))
        inner_done = []
        live = self.block(node.body, st, inner_done)
        out = []
        for s in live:
            s.events.append(('endtry', None, node))
            if node.orelse:
                out.extend(self.block(node.orelse, s, done))
            else:
                out.append(s)
        caught_types = [unparse(h.type) if h.type is not None else '*' for h in node.handlers]
        for s in inner_done:
            if s.end == 'raise':
                # an explicit raise inside the try body: leaves through a handler if one matches by name
                exc = s.events[-1][1]
                name = exc[1] if exc and exc[0] in ('new', 'call') else None
                handled = False
                for h in node.handlers:
                    hn = unparse(h.type) if h.type is not None else '*'
                    if hn == '*' or hn == name or hn in ('Exception', 'BaseException'):
                        handled = True
                if not handled:
                    done.append(s)
            else:
                done.append(s)
        for h in node.handlers:
            s2 = entry.clone()
            hn = unparse(h.type) if h.type is not None else '*'
            s2.events.append(('except', hn, node))
            s2.conds.append((('opaque', 'except ' + hn), True, h))
            if h.name:
                s2.env[h.name] = ('exc', hn)
            # effects of the try body that happened before the exception are unknown: keep entry state
            out.extend(self.block(h.body, s2, done))
        if node.finalbody:
            out2 = []
            for s in out:
                out2.extend(self.block(node.finalbody, s, done))
            out = out2
        return out


def main_loop(fn):
    """The top-level `for` of a pass that walks its input: the one iterating over a parameter (or enumerate / zip of one); if
    there is none, the first top-level `for`."""
    params = {a.arg for a in fn.args.args + fn.args.kwonlyargs}
    tops = [n for n in fn.body if isinstance(n, ast.For)]
    for n in tops:
        it = n.iter
        if isinstance(it, ast.Call) and isinstance(it.func, ast.Name) and it.func.id in ('enumerate', 'list', 'iter', 'reversed', 'zip') and it.args:
            it = it.args[0]
        if isinstance(it, ast.Name) and it.id in params:
            return n
    return tops[0] if tops else None


def skeleton_call(facts, fn):
    """A pass written as `return skeleton(<args>)` (or `x = skeleton(<args>); return x`) where `skeleton` is a module-level
    function that contains the item loop: (call node, skeleton FunctionDef), else None."""
    rets = [n for n in fn.body if isinstance(n, ast.Return) and n.value is not None]
    if len(rets) != 1 or any(isinstance(n, (ast.For, ast.While)) for n in fn.body):
        return None
    v = rets[0].value
    if isinstance(v, ast.Name):
        defs = [n for n in fn.body if isinstance(n, ast.Assign) and len(n.targets) == 1 and isinstance(n.targets[0], ast.Name) and n.targets[0].id == v.id]
        if len(defs) != 1:
            return None
        v = defs[0].value
    if isinstance(v, ast.Call) and isinstance(v.func, ast.Name) and v.func.id in facts.funcs:
        sk = facts.funcs[v.func.id]
        if sk is not fn and main_loop(sk) is not None and not any(isinstance(a, ast.Starred) for a in v.args):
            return v, sk
    return None


def skeleton_paths(facts, fn, sk, w, pre, seed):
    """loop_paths for a pass that delegates its loop to a higher-order skeleton: the skeleton's loop is walked with its
    parameters bound to the pass's arguments (local converter closures included)."""
    call, skfn = sk
    live = [pre]
    done = []
    for node in fn.body:
        if isinstance(node, ast.Return) or (isinstance(node, ast.Assign) and node.value is call):
            break
        nxt = []
        for s in live:
            nxt.extend(w.stmt(node, s, done))
        live = nxt
    out_live, results, target = [], [], None
    for s in live:
        env = dict(s.env)
        args = tuple(w.sym(a, s) for a in call.args)
        kwargs = tuple((k.arg, w.sym(k.value, s)) for k in call.keywords)
        if not w.bind_args(skfn, args, kwargs, env):
            raise AnalysisError('cannot bind the arguments of {} in {}'.format(skfn.name, fn.name))
        s2 = s.clone()
        s2.env = env
        # a parameter of the skeleton that receives the pass's own item list keeps the parameter identity
        for a in skfn.args.args:
            v = env.get(a.arg)
            if isinstance(v, tuple) and v and v[0] == 'name' and v[1] in {x.arg for x in fn.args.args}:
                env[a.arg] = ('name', a.arg)
        pre2, target, res = _loop_paths_in(facts, skfn, w, s2, seed)
        out_live.extend(pre2)
        results.extend(res)
    for r in results:
        r.walker = w
        r.loop_fn = skfn
    return out_live, target, results


def _loop_paths_in(facts, fn, w, pre, seed):
    loop = main_loop(fn)
    live = [pre]
    done = []
    target = None
    for node in fn.body:
        if node is loop:
            target = node
            break
        nxt = []
        for s in live:
            nxt.extend(w.stmt(node, s, done))
        live = nxt
    if target is None:
        raise AnalysisError('anchor vanished: main loop of {}'.format(fn.name))
    return live, target, _walk_loop(w, fn, target, live, seed)


def _walk_loop(w, fn, target, live, seed):
    results = []
    mutated = set()
    for n in ast.walk(target):
        if isinstance(n, ast.Name) and isinstance(n.ctx, ast.Store):
            mutated.add(n.id)
        if (isinstance(n, ast.Call) and isinstance(n.func, ast.Attribute) and isinstance(n.func.value, ast.Name)
                and n.func.attr in MUTATORS):
            mutated.add(n.func.value.id)
        if isinstance(n, ast.Subscript) and isinstance(n.ctx, ast.Store) and isinstance(n.value, ast.Name):
            mutated.add(n.value.id)
    mutated |= closure_effects(fn, target)
    params = {a.arg for a in fn.args.args + fn.args.kwonlyargs}
    for s in live:
        s = s.clone()
        s.events = []
        s.conds = []
        for n in mutated:
            if n in s.env and n not in params and s.env[n][0] not in ('closure',):
                s.env[n] = ('lv', n)
        for k, v in (seed or {}).items():
            s.fact(k)['eq'] = v
        if isinstance(target.target, ast.Name):
            s.env[target.target.id] = ('item', target.target.id)
        else:
            for i, e in enumerate(target.target.elts):
                if isinstance(e, ast.Name):
                    s.env[e.id] = ('item', e.id)
        results.extend(w.run(target.body, s))
    return results


def local_closures(fn):
    return {st.name: st for st in ast.walk(fn) if isinstance(st, ast.FunctionDef) and st is not fn}


def closure_effects(fn, region):
    """Names of the enclosing function's locals that local closures called (transitively) from `region` rebind (nonlocal) or
    mutate in place."""
    closures = local_closures(fn)
    out = set()
    seen = set()
    todo = [n.func.id for n in ast.walk(region) if isinstance(n, ast.Call) and isinstance(n.func, ast.Name) and n.func.id in closures]
    while todo:
        name = todo.pop()
        if name in seen:
            continue
        seen.add(name)
        c = closures[name]
        own = {a.arg for a in c.args.args + c.args.kwonlyargs}
        nonlocal_names = set()
        for n in ast.walk(c):
            if isinstance(n, ast.Nonlocal):
                nonlocal_names.update(n.names)
        for n in ast.walk(c):
            if isinstance(n, ast.Name) and isinstance(n.ctx, ast.Store) and n.id in nonlocal_names:
                out.add(n.id)
            if (isinstance(n, ast.Call) and isinstance(n.func, ast.Attribute) and isinstance(n.func.value, ast.Name)
                    and n.func.attr in MUTATORS and n.func.value.id not in own):
                out.add(n.func.value.id)
            if isinstance(n, ast.Subscript) and isinstance(n.ctx, ast.Store) and isinstance(n.value, ast.Name) and n.value.id not in own:
                out.add(n.value.id)
            if isinstance(n, ast.Call) and isinstance(n.func, ast.Name) and n.func.id in closures:
                todo.append(n.func.id)
    return out


def loop_paths(facts, fn, loop=None, loop_var_name=None, seed=None):
    """Path summaries of one iteration of the (first top-level) `for X in Y` loop of function `fn`;
    returns (prelude state env, loop node, [PathState])."""
    w = Walker(facts)
    pre = PathState()
    for a in fn.args.args + fn.args.kwonlyargs:
        pre.env[a.arg] = ('name', a.arg)
    target = None
    prelude_done = []
    live = [pre]
    if loop is None:
        loop = main_loop(fn)
    if loop is None:
        sk = skeleton_call(facts, fn)
        if sk is not None:
            return skeleton_paths(facts, fn, sk, w, pre, seed)
    for node in fn.body:
        if isinstance(node, ast.For) and (loop is None or node is loop):
            target = node
            break
        nxt = []
        for s in live:
            nxt.extend(w.stmt(node, s, prelude_done))
        live = nxt
    if target is None:
        raise AnalysisError('anchor vanished: main loop of {}'.format(fn.name))
    if len(live) != 1:
        # several prelude paths (rare): take them all
        pass
    results = _walk_loop(w, fn, target, live, seed)
    for r in results:
        r.walker = w
    return live, target, results
