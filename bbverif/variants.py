"""Self-test variants: text edits of the analysed sources.  BREAKING variants change behaviour so that the named
properties are violated (while the file still compiles); PRESERVING variants change the text but not the behaviour
and must leave every listed check silent."""

A = 'bronzebeard/asm.py'
D = 'bronzebeard/dfu.py'
R = 'docs/instruction_reference.rst'

BREAKING = [
    # ---- C01 --------------------------------------------------------------------------------------------------
    ('c01-btype-swap-bits', ['C01'], [(A, "    code |= imm_11 << 7\n    code |= imm_4_1 << 8\n    code |= funct3 << 12\n    code |= rs1 << 15\n    code |= rs2 << 20\n    code |= imm_10_5 << 25\n    code |= imm_12 << 31",
                                       "    code |= imm_12 << 7\n    code |= imm_4_1 << 8\n    code |= funct3 << 12\n    code |= rs1 << 15\n    code |= rs2 << 20\n    code |= imm_10_5 << 25\n    code |= imm_11 << 31")]),
    ('c01-itype-mask-short', ['C01'], [(A, "    imm = c_uint32(imm).value & 0b111111111111\n\n    code = 0\n    code |= opcode\n    code |= rd << 7\n    code |= funct3 << 12\n    code |= rs1 << 15\n    code |= imm << 20\n\n    return code\n\n\n# i-type variation",
                                        "    imm = c_uint32(imm).value & 0b11111111111\n\n    code = 0\n    code |= opcode\n    code |= rd << 7\n    code |= funct3 << 12\n    code |= rs1 << 15\n    code |= imm << 20\n\n    return code\n\n\n# i-type variation")]),
    ('c01-rtype-rs1-shift', ['C01'], [(A, "    code |= rs1 << 15\n    code |= rs2 << 20\n    code |= funct7 << 25", "    code |= rs1 << 14\n    code |= rs2 << 20\n    code |= funct7 << 25")]),
    ('c01-bltu-funct3', ['C01'], [(A, "BLTU       = partial(b_type,   opcode=0b1100011, funct3=0b110)", "BLTU       = partial(b_type,   opcode=0b1100011, funct3=0b100)")]),
    ('c01-jtype-drop-even', ['C01', 'C06'], [(A, "    if imm % 2 != 0:\n        raise ValueError('20-bit MO2 immediate must be a muliple of 2: {}'.format(imm))\n", "")]),
    ('c01-stype-args-order', ['C01'], [(A, "        return [self.rs1, self.rs2, self.imm]\n\n\nclass BTypeInstruction", "        return [self.rs2, self.rs1, self.imm]\n\n\nclass BTypeInstruction")]),
    ('c01-reg-s10', ['C01', 'C13'], [(A, "'s10':  26,", "'s10':  27,")]),
    ('c01-pack-big-endian', ['C01'], [(A, "            fmt = '<I'", "            fmt = '>I'")]),
    ('c01-jtype-bit-scatter', ['C01'], [(A, "    imm_19_12 = (imm >> 11) & 0b11111111\n    imm_11 = (imm >> 10) & 0b1", "    imm_19_12 = (imm >> 12) & 0b11111111\n    imm_11 = (imm >> 10) & 0b1")]),
    ('c01-amo-aq-rl-swap', ['C01'], [(A, "funct7 = funct5 << 2 | aq << 1 | rl", "funct7 = funct5 << 2 | rl << 1 | aq")]),
    ('c01-fence-swap', ['C01'], [(A, "imm = (fm << 8) | (pred << 4) | succ", "imm = (fm << 8) | (succ << 4) | pred")]),
    ('c01-parse-s-paren', ['C01', 'C13'], [(A, "            name, rs2, offset, _, rs1, _ = tokens\n            imm = [offset]\n        else:\n            name, rs1, rs2, *imm = tokens\n        name = name.lower()\n        imm = parse_immediate(imm, line)\n        return STypeInstruction",
                                              "            name, rs1, offset, _, rs2, _ = tokens\n            imm = [offset]\n        else:\n            name, rs1, rs2, *imm = tokens\n        name = name.lower()\n        imm = parse_immediate(imm, line)\n        return STypeInstruction")]),
    ('c01-itype-ctor-swap', ['C01'], [(A, "        return ITypeInstruction(line, name, rd, rs1, imm)", "        return ITypeInstruction(line, name, rs1, rd, imm)")]),
    ('c01-utype-init-order', ['C01'], [(A, "class UTypeInstruction(Instruction):\n\n    def __init__(self, line, name, rd, imm):\n        super().__init__(line)\n        self.name = name\n        self.rd = rd\n        self.imm = imm",
                                         "class UTypeInstruction(Instruction):\n\n    def __init__(self, line, name, rd, imm):\n        super().__init__(line)\n        self.name = name\n        self.imm = imm\n        self.rd = rd")]),
    ('c01-mulh-funct7', ['C01'], [(A, "MULH       = partial(r_type,   opcode=0b0110011, funct3=0b001, funct7=0b0000001)", "MULH       = partial(r_type,   opcode=0b0110011, funct3=0b001, funct7=0b0000000)")]),
    ('c01-lrw-funct5', ['C01'], [(A, "funct5=0b00010, rs2=0)", "funct5=0b00011, rs2=0)")]),
    ('c01-itype-bound-loose', ['C01', 'C06'], [(A, "    if imm < -0x800 or imm > 0x7ff:\n        raise ValueError('12-bit immediate must be between -0x800 (-2048) and 0x7ff (2047): {}'.format(imm))\n\n    imm = c_uint32(imm).value & 0b111111111111\n\n    code = 0\n    code |= opcode\n    code |= rd << 7",
                                                 "    if imm < -0x800 or imm > 0xfff:\n        raise ValueError('12-bit immediate must be between -0x800 (-2048) and 0x7ff (2047): {}'.format(imm))\n\n    imm = c_uint32(imm).value & 0b111111111111\n\n    code = 0\n    code |= opcode\n    code |= rd << 7", 0)]),
    ('c01-table-wrong-binding', ['C01'], [(A, "    'sra':        SRA,", "    'sra':        SRL,")]),
    ('c01-amo-kw-swap', ['C01'], [(A, "code = encode_func(*args, aq=aq, rl=rl)", "code = encode_func(*args, aq=rl, rl=aq)")]),
    # ---- C02 / C06 --------------------------------------------------------------------------------------------
    ('c02-cj-scatter', ['C02'], [(A, "    code |= imm_10 << 8\n    code |= imm_9_8 << 9", "    code |= imm_10 << 9\n    code |= imm_9_8 << 7")]),
    ('c02-drop-constraint', ['C02', 'C06'], [(A, "C_LUI      = partial(ciu_type, opcode=0b01, funct3=0b011, cs=[RegRdRs1NotZero, RegRdRs1NotTwo, ImmNotZero])", "C_LUI      = partial(ciu_type, opcode=0b01, funct3=0b011, cs=[RegRdRs1NotZero, ImmNotZero])")]),
    ('c02-creg-offbyone', ['C02', 'C06'], [(A, "        if reg < 8 or reg > 15:", "        if reg < 8 or reg > 16:")]),
    ('c02-creg-no-sub', ['C02'], [(A, "        reg -= 8\n", "        pass\n")]),
    ('c02-cbeqz-unguarded', ['C02', 'C06', 'C04'], [(A, "    if imm < -256 or imm > 255:\n        raise ValueError('8-bit MO2 immediate must be between -0x100 (-256) and 0xff (255): {}'.format(imm))\n    if imm % 2 != 0:\n        raise ValueError('8-bit MO2 immediate must be a multiple of 2: {}'.format(imm))\n", "")]),
    ('c02-shamt-bit5', ['C02', 'C06'], [(A, "cs=[ImmNotZero, ShamtBit5Zero])", "cs=[ImmNotZero])", 0)]),
    ('c02-cswsp-funct3', ['C02'], [(A, "C_SWSP     = partial(css_type, opcode=0b10, funct3=0b110)", "C_SWSP     = partial(css_type, opcode=0b10, funct3=0b111)")]),
    ('c02-caddi4spn-lo', ['C02', 'C06'], [(A, "    if imm < 0 or imm > 1023:\n       raise", "    if imm < 0 or imm > 1027:\n       raise")]),
    ('c02-pack-h', ['C02'], [(A, "            fmt = '<H'", "            fmt = '<h'")]),
    ('c02-cl-parse-paren', ['C02', 'C13'], [(A, "            name, rd, offset, _, rs1, _ = tokens\n            imm = [offset]\n        else:\n            name, rd, rs1, *imm = tokens\n        name = name.lower()\n        imm = parse_immediate(imm, line)\n        return CLTypeInstruction",
                                              "            name, rs1, offset, _, rd, _ = tokens\n            imm = [offset]\n        else:\n            name, rd, rs1, *imm = tokens\n        name = name.lower()\n        imm = parse_immediate(imm, line)\n        return CLTypeInstruction")]),
    ('c06-btype-bound-tight', ['C06'], [(A, "    if imm < -0x1000 or imm > 0x0fff:", "    if imm < -0x1000 or imm >= 0x0ffe:")]),
    ('c06-guard-and', ['C06', 'C01'], [(A, "    if imm < -0x100000 or imm > 0x0fffff:", "    if imm < -0x100000 and imm > 0x0fffff:")]),
    ('c06-utype-window', ['C06'], [(A, "    if imm >= 0x80000 and imm <= 0xfffff:", "    if imm >= 0x80000 and imm <= 0x1fffff:")]),
    ('c06-guard-after-mask', ['C06', 'C01'], [(A, "    if imm < -0x800 or imm > 0x7ff:\n        raise ValueError('12-bit immediate must be between -0x800 (-2048) and 0x7ff (2047): {}'.format(imm))\n\n    imm = c_uint32(imm).value & 0b111111111111\n\n    imm_11_5",
                                                "    imm = c_uint32(imm).value & 0b111111111111\n\n    if imm < -0x800 or imm > 0x7ff:\n        raise ValueError('12-bit immediate must be between -0x800 (-2048) and 0x7ff (2047): {}'.format(imm))\n\n    imm_11_5")]),
    ('c06-fence-range', ['C06'], [(A, "    if pred < 0b0000 or pred > 0b1111:", "    if pred < 0b0000 or pred > 0b11111:")]),
    ('c06-ciu-window', ['C06', 'C02'], [(A, "    if imm >= 0xfffe0 and imm <= 0xfffff:", "    if imm >= 0xffff0 and imm <= 0xfffff:")]),
    ('c06-cia-mult', ['C06', 'C02'], [(A, "    if imm % 16 != 0:", "    if imm % 8 != 0:")]),
    # ---- C07 --------------------------------------------------------------------------------------------------
    ('c07-hi-bit', ['C07'], [(A, "    if imm & 0x800:\n        imm += 2**12", "    if imm & 0x400:\n        imm += 2**12")]),
    ('c07-hi-mask', ['C07'], [(A, "return sign_extend((imm >> 12) & 0x000fffff, 20)", "return sign_extend((imm >> 12) & 0x0007ffff, 20)")]),
    ('c07-signext-bits', ['C07'], [(A, "    sign_bit = 1 << (bits - 1)", "    sign_bit = 1 << bits")]),
    ('c07-lo-mask', ['C07'], [(A, "return sign_extend(imm & 0x00000fff, 12)", "return sign_extend(imm & 0x000007ff, 12)")]),
    ('c07-lo-width', ['C07'], [(A, "return sign_extend(imm & 0x00000fff, 12)", "return sign_extend(imm & 0x00001fff, 13)")]),
    ('c07-no-carry', ['C07'], [(A, "    if imm & 0x800:\n        imm += 2**12\n", "")]),
    ('c07-carry-13', ['C07'], [(A, "        imm += 2**12", "        imm += 2**13")]),
    ('c07-parse-swap', ['C07'], [(A, "        return Hi(parse_immediate(imm, line))", "        return Lo(parse_immediate(imm, line))")]),
    ('c07-hi-eval', ['C07'], [(A, "        value = self.expr.eval(position, env, line)\n        return relocate_hi(value)", "        value = self.expr.eval(position, env, line)\n        return relocate_lo(value)")]),
    ('c07-shift-11', ['C07'], [(A, "return sign_extend((imm >> 12) & 0x000fffff, 20)", "return sign_extend((imm >> 11) & 0x000fffff, 20)")]),
]

PRESERVING = [
    ('p-guard-spelling', None, [(A, "    if imm < -0x800 or imm > 0x7ff:\n        raise ValueError('12-bit immediate must be between -0x800 (-2048) and 0x7ff (2047): {}'.format(imm))\n\n    imm = c_uint32(imm).value & 0b111111111111\n\n    imm_11_5",
                                 "    if not (-2048 <= imm <= 2047):\n        raise ValueError('12-bit immediate must be between -0x800 (-2048) and 0x7ff (2047): {}'.format(imm))\n\n    imm = c_uint32(imm).value & 0xfff\n\n    imm_11_5")]),
    ('p-or-order', None, [(A, "    code |= opcode\n    code |= rd << 7\n    code |= funct3 << 12\n    code |= rs1 << 15\n    code |= rs2 << 20\n    code |= funct7 << 25",
                           "    code |= funct7 << 25\n    code |= rs2 << 20\n    code = code | (rs1 << 15)\n    code |= funct3 << 12\n    code |= rd << 7\n    code |= opcode")]),
    ('p-extra-docstring', None, [(A, "def r_type(rd, rs1, rs2, *, opcode, funct3, funct7):\n", "def r_type(rd, rs1, rs2, *, opcode, funct3, funct7):\n    \"\"\"Encode an R-type instruction.\"\"\"\n")]),
    ('p-rename-local', None, [(A, "    imm_11_5 = (imm >> 5) & 0b1111111\n    imm_4_0 = imm & 0b11111\n\n    code = 0\n    code |= opcode\n    code |= imm_4_0 << 7\n    code |= funct3 << 12\n    code |= rs1 << 15\n    code |= rs2 << 20\n    code |= imm_11_5 << 25",
                               "    hi7 = (imm >> 5) & 0b1111111\n    lo5 = imm & 0b11111\n\n    code = 0\n    code |= opcode\n    code |= lo5 << 7\n    code |= funct3 << 12\n    code |= rs1 << 15\n    code |= rs2 << 20\n    code |= hi7 << 25")]),
    ('p-hoist-constant', None, [(A, "def sign_extend(value, bits):", "TWELVE_BITS = 0b111111111111\n\n\ndef sign_extend(value, bits):"),
                                 (A, "    imm = c_uint32(imm).value & 0b111111111111\n\n    code = 0\n    code |= opcode\n    code |= rd << 7\n    code |= funct3 << 12\n    code |= rs1 << 15\n    code |= imm << 20\n\n    return code\n\n\n# i-type variation",
                                  "    imm = c_uint32(imm).value & TWELVE_BITS\n\n    code = 0\n    code |= opcode\n    code |= rd << 7\n    code |= funct3 << 12\n    code |= rs1 << 15\n    code |= imm << 20\n\n    return code\n\n\n# i-type variation")]),
    ('p-comment-churn', None, [(A, "# low-level funcs just return value errors", "# low-level functions only raise ValueError\n#\n# (reformatted comment block)")]),
    ('p-hi-carry-2048', None, [(A, "        imm += 2**12", "        imm += 2**11")]),
    ('p-hi-carry-hex', None, [(A, "        imm += 2**12", "        imm = imm + 0x1000")]),
    ('p-signext-spelling', None, [(A, "    return (value & (sign_bit - 1)) - (value & sign_bit)", "    low = value & (sign_bit - 1)\n    top = value & sign_bit\n    return low - top")]),
]
