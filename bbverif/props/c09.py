"""C09 - output is the in-order concatenation of items; align pads minimally with zeros."""
import ast

from ..core import Report, Finding, AnalysisError
from ..facts import Facts
from ..astutil import unparse, dotted
from ..pathwalk import loop_paths, show, is_const
from .. import layoutrules as LR
from ..layout import pipeline
from .. import alignform

LEVEL = 'other'


def check_pipeline_shape(rep, facts, rule):
    """assemble: on every evaluated path the item list is threaded from pass to pass (each pass receives exactly the list the
    previous one returned), the front end only maps / filters in order, and the returned program is the result of the last
    call, which is the byte concatenation pass applied to the final list."""
    from ..layout import pass_pipeline, item_passes
    pl = pass_pipeline(facts)
    fn = facts.funcs['assemble']
    n = 0
    for value, calls, returned in pl.all_paths_with_result():
        triples = item_passes(facts, calls)
        chain = [c for nm, c, a in triples]
        name_of = {id(c): nm for nm, c, a in triples}
        items_of = {id(c): a for nm, c, a in triples}
        n = max(n, len(chain))
        if chain:
            rep.check(returned == chain[-1].result, rule, 'compress={}: assemble returns the result of its last pass'.format(value),
                      lambda chain=chain: Finding(rule, 'assemble', chain[-1].node, 'the value returned by assemble is not the result of the last pass ({})'.format(chain[-1].name),
                                                  line=fn.lineno))
        prev = None
        for c in chain:
            if prev is not None:
                ok = items_of[id(c)] == prev.result
                rep.check(ok, rule, 'compress={}: {} consumes the list returned by {}'.format(value, name_of[id(c)], name_of[id(prev)]),
                          lambda c=c, prev=prev: Finding(rule, 'assemble', c.node, 'pass {} does not thread the item list (it receives {} instead of the result of {})'.format(
                              name_of[id(c)], items_of[id(c)][:2], name_of[id(prev)]), line=getattr(c.node, 'lineno', fn.lineno)))
            prev = c
        last = chain[-1] if chain else None
        concat = last is not None and name_of[id(last)] == 'resolve_blobs'
        rep.check(concat, rule, 'compress={}: the last pass is the byte concatenation (resolve_blobs)'.format(value),
                  lambda last=last: Finding(rule, 'assemble', last.node if last else fn, 'the returned program is not the result of resolve_blobs on the final item list', line=fn.lineno))
    rep.count('pipeline steps', n)
    # between the passes nobody touches the list: an in-place change (pop / remove / insert / del / item assignment) of the
    # variable that carries the items drops, adds or reorders directives outside every pass
    seen_mut = set()
    for value in (False, True):
        for muts in getattr(pl, 'mutations', {}).get(value, []):
            for node, text, at in muts:
                if id(node) in seen_mut:
                    continue
                seen_mut.add(id(node))
                rep.fail(Finding(rule, 'assemble', node, 'the item list is changed in place outside the passes ({}): directives are dropped, added or reordered behind the '
                                 'back of the layout'.format(text), line=getattr(node, 'lineno', fn.lineno)), instance='no in-place change of the item list in assemble')
    if not seen_mut:
        rep.ok(rule, 'no in-place change of the item list in assemble')
    # the value returned by assemble is the result of that last call
    returned = None
    for st in ast.walk(fn):
        if isinstance(st, ast.Return) and st.value is not None:
            returned = st
    rets = [st for st in ast.walk(fn) if isinstance(st, ast.Return) and st.value is not None]
    rep.check(bool(rets), rule, 'assemble returns a value', lambda: Finding(rule, 'assemble', fn, 'assemble returns nothing', line=fn.lineno), nontrivial=False)
    # front-end comprehensions (wherever they live) only map / filter in order
    front = [fn] + [facts.funcs[c.name] for value, calls in pl.all_paths() for c in calls
                    if c.name in facts.funcs and not c.mapped and not any(isinstance(a, tuple) and a and a[0] == 'items' for a in c.args)
                    and c.name not in ('read_lines',)]
    seen = set()
    for f in front:
        if id(f) in seen:
            continue
        seen.add(id(f))
        for st in ast.walk(f):
            if isinstance(st, ast.ListComp):
                lc = st
                g = lc.generators[0]
                good = (len(lc.generators) == 1 and isinstance(g.target, ast.Name)
                        and (unparse(lc.elt) == g.target.id or (isinstance(lc.elt, ast.Call) and len(lc.elt.args) >= 1
                                                                and unparse(lc.elt.args[0]) == g.target.id)))
                if not (isinstance(g.iter, ast.Name) and g.iter.id in stream_names(f)):
                    continue      # not a comprehension over the line / token / item lists
                rep.check(good, rule, 'comprehension `{}` maps / filters in order'.format(unparse(st)[:60]),
                          lambda st=st, f=f: Finding(rule, f.name, st, 'a list comprehension of the front end does more than an in-order map/filter', line=st.lineno))


def stream_names(fn):
    """Locals of a front-end function that hold the line / token / item stream: bound from read_lines(...) or from a
    comprehension / filter / map / list() over such a local (to a fixed point)."""
    names = set()
    changed = True
    while changed:
        changed = False
        for st in ast.walk(fn):
            if not (isinstance(st, ast.Assign) and len(st.targets) == 1 and isinstance(st.targets[0], ast.Name)):
                continue
            v = st.value
            src = False
            if isinstance(v, ast.Call) and dotted(v.func) == 'read_lines':
                src = True
            elif isinstance(v, (ast.ListComp, ast.GeneratorExp)) and isinstance(v.generators[0].iter, ast.Name) and v.generators[0].iter.id in names:
                src = True
            elif isinstance(v, ast.Call) and dotted(v.func) in ('list', 'filter', 'map', 'tuple') and any(isinstance(a, ast.Name) and a.id in names for a in v.args):
                src = True
            if src and st.targets[0].id not in names:
                names.add(st.targets[0].id)
                changed = True
    return names


def check_resolve_blobs(rep, facts, rule):
    fn = facts.funcs.get('resolve_blobs')
    if fn is None:
        raise AnalysisError('anchor vanished: resolve_blobs')
    _, loop, paths = loop_paths(facts, fn)
    out_name = None
    for s in fn.body:
        if isinstance(s, ast.Return) and isinstance(s.value, ast.Name):
            out_name = s.value.id
    good = False
    n_ok = 0
    for p in paths:
        if p.end == 'raise':
            continue
        exts = [e for e in p.events if e[0] == 'mcall' and e[2] in ('extend',) and e[1] in (('lv', out_name), ('name', out_name))]
        n_ok += 1
        good = len(exts) == 1 and exts[0][3][0] == ('attr', ('item', loop.target.id), 'data')
        if not good:
            break
    it_ok = isinstance(loop.iter, ast.Name) and loop.iter.id == fn.args.args[0].arg
    rep.check(good and it_ok and n_ok == 1, rule, 'resolve_blobs: output.extend(item.data) once per item, in order',
              lambda: Finding(rule, 'resolve_blobs', loop, 'the output is not the in-order concatenation of every blob\'s data', line=loop.lineno))
    init = [s for s in fn.body if isinstance(s, ast.Assign) and isinstance(s.targets[0], ast.Name) and s.targets[0].id == out_name]
    empty = len(init) == 1 and isinstance(init[0].value, ast.Call) and dotted(init[0].value.func) in ('bytearray', 'bytes') and not init[0].value.args
    rep.check(empty, rule, 'resolve_blobs: output starts empty',
              lambda: Finding(rule, 'resolve_blobs', init[0] if init else fn, 'the output buffer does not start empty', line=fn.lineno))


def check_align(rep, facts, rule):
    ci = facts.classes.get('Align')
    if ci is None or 'resolution_size' not in ci.methods:
        raise AnalysisError('anchor vanished: Align.resolution_size')
    m = ci.methods['resolution_size']
    try:
        ok, forms = alignform.padding_normal_form(m)
    except alignform.Undecided as e:
        raise AnalysisError('Align.resolution_size left the linear-modular fragment (undecided, not a violation): {}'.format(e))
    rep.sample({'resolution_size': forms})
    rep.check(ok, rule + '.minimal', 'resolution_size(p) == 0 if p % N == 0 else N - p % N',
              lambda: Finding(rule + '.minimal', 'Align.resolution_size', 'normal form',
                              'padding is not the least non-negative value making the offset a multiple of N: with p = qN + r it evaluates to {} '
                              '(r == 0) and {} (1 <= r <= N-1); expected 0 and N - r'.format(forms['zero'], forms['nonzero']), line=m.lineno))
    # resolve_aligns: padding computed at the item-start position and emitted as that many zero bytes
    pa = LR.pass_analysis(facts, 'resolve_aligns')
    n = 0
    for r in pa.rows:
        for val, node in r['app_values']:
            if val[0] == 'new' and val[1] == 'Blob':
                n += 1
                data = val[2][1] if len(val[2]) > 1 else dict(val[3]).get('data')
                good = False
                cnt = None
                if data is not None and data[0] == 'bin' and data[1] == '*':
                    for a, b in ((data[2], data[3]), (data[3], data[2])):
                        if is_const(a) and a[1] == b'\x00':
                            cnt = b
                            good = True
                rep.check(good, rule + '.zeros', 'resolve_aligns pads with b"\\x00" * padding',
                          lambda node=node: Finding(rule + '.zeros', 'resolve_aligns', node, 'alignment padding is not a run of zero bytes', line=node.lineno))
                at_start = (cnt is not None and cnt[0] == 'mcall' and cnt[2] == 'resolution_size' and cnt[1] == pa.item
                            and cnt[3] == (('lv', pa.pos_var),))
                rep.check(at_start, rule + '.at-start', 'padding = item.resolution_size(offset at which the align item starts)',
                          lambda node=node, cnt=cnt: Finding(rule + '.at-start', 'resolve_aligns', node,
                                                             'padding {} is not resolution_size of the running offset at the align item'.format(show(cnt) if cnt else '?'), line=node.lineno))
    rep.count('align emission sites', n)


def run(repo, tier):
    facts = Facts(repo.asm)
    rep = Report('C09', LEVEL,
                 'Every pass of the pipeline read from `assemble` is summarised per path of one loop iteration (symbolic path '
                 'enumeration, no execution).  Per path: bytes contributed by the consumed item (size algebra over the class '
                 'definitions) == bytes of the items appended + amount subtracted from later labels; the result list is built by '
                 'append only, in iteration order; a class-flow analysis shows that every item kind has exactly one handler and only '
                 'Blob reaches resolve_blobs, whose output is the in-order concatenation.  Align.resolution_size is normalised over '
                 'p = qN + r to 0 / N - r.')
    rep.trusted_base = ['CPython ast', 'bbverif.pathwalk / layout size algebra', 'struct standard sizes (oracle table)']
    check_pipeline_shape(rep, facts, 'R9.pipeline')
    from .. import labelrules as LB
    LB.check_position_frozen(rep, facts, 'R9.align.frozen')
    for compress in (False, True):
        steps = LR.class_flow(facts, compress)
        for name, node, inc, out in steps:
            pa = LR.pass_analysis(facts, name, frozenset(inc))
            LR.check_conservation(rep, pa, 'R9.bytes', name in LR.LABEL_PASSES_EXPECTED)
            LR.check_order_only(rep, pa, 'R9.order')
            LR.check_shared_buffers(rep, facts, pa, 'R9.own-payload')
            rep.count('pass analyses')
        final = steps[-1][3] if steps else set()
        rep.check(final == {'Blob'}, 'R9.class-flow', 'compress={}: only Blob items reach resolve_blobs'.format(compress),
                  lambda final=final: Finding('R9.class-flow', 'assemble', 'compress={}'.format(compress),
                                              'item kinds {} reach resolve_blobs unconverted'.format(sorted(final - {'Blob'})),
                                              line=facts.funcs['assemble'].lineno))
        rep.sample({'compress': compress, 'class_flow': [(n, sorted(i - o), sorted(o - i)) for n, _, i, o in steps]})
    check_resolve_blobs(rep, facts, 'R9.concat')
    check_align(rep, facts, 'R9.align')
    pa = LR.pass_analysis(facts, 'transform_pseudo_instructions')
    for r in pa.rows[:6]:
        rep.sample(LR.describe_row(r))
    rep.floor('pipeline steps', 12)
    rep.floor('pass paths accounted', 150)
    rep.floor('align emission sites', 1)
    rep.not_decided = ['byte-for-byte equality with an independent walk is the conjunction of these rules and C10']
    return rep
