"""C08 - label arithmetic (%offset, %position, bare labels) uses final addresses."""
import ast

from ..core import Report, Finding, AnalysisError
from ..facts import Facts
from ..astutil import unparse, dotted
from .. import layoutrules as LR, labelrules as LB, immsites as IS
from ..wiring import parse_item_outcomes
from ..pathwalk import show, is_const, C

LEVEL = 'other'

EXPR_CLASSES = {'Arithmetic', 'Position', 'Offset', 'Hi', 'Lo'}


def check_expr_fields(rep, facts, rule):
    """R8.4: every item class that stores an expression does so in the attribute `imm` (the key resolve_immediates
    dispatches on); Constant.expr is consumed by resolve_constants before labels exist."""
    arms, _ = parse_item_outcomes(facts)
    seen = {}
    for key, test, outcomes in arms:
        for o in outcomes:
            if o.kind != 'return' or not o.cls or o.cls not in facts.classes:
                continue
            params = [p for p, _ in facts.init_params(o.cls)]
            attr_of = {src: attr for attr, src in facts.full_attr_order(o.cls) if src}
            for i, a in enumerate(o.args):
                if a[0] == 'imm' and i < len(params):
                    seen.setdefault((o.cls, attr_of.get(params[i], params[i])), o.node)
    pa = LR.pass_analysis(facts, 'transform_pseudo_instructions')
    for r in pa.rows:
        for val, node in r['app_values']:
            if val[0] == 'new':
                for pname, a in IS.ctor_fields(facts, val).items():
                    if (a[0] == 'new' and a[1] in EXPR_CLASSES) or (a[0] == 'call' and a[1] == 'parse_immediate'):
                        attr_of = {src: attr for attr, src in facts.full_attr_order(val[1]) if src}
                        seen.setdefault((val[1], attr_of.get(pname, pname)), node)
    rep.count('expression-carrying fields', len(seen))
    for (cls, attr), node in sorted(seen.items()):
        if cls == 'Constant':
            # resolve_constants must evaluate and drop it before resolve_labels
            continue
        rep.check(attr == 'imm', rule, '{}.{} holds the expression resolve_immediates bakes'.format(cls, attr),
                  lambda cls=cls, attr=attr, node=node: Finding(rule, cls, node,
                                                               '{} stores a label-dependent expression in `{}`; resolve_immediates only bakes the field `imm`, so it would be '
                                                               'evaluated elsewhere (or never) against non-final labels'.format(cls, attr), line=node.lineno))
    # resolve_immediates dispatches on 'imm'
    fn = facts.funcs.get('resolve_immediates')
    if fn is None:
        raise AnalysisError('anchor vanished: pass resolve_immediates')
    # how the pass picks the items it bakes: a membership test of a field name in vars(item), hasattr / getattr with a field name
    selected = set()
    for n in ast.walk(fn):
        if isinstance(n, ast.Compare) and len(n.ops) == 1 and isinstance(n.ops[0], (ast.In, ast.NotIn)) and isinstance(n.left, ast.Constant) and isinstance(n.left.value, str):
            selected.add(n.left.value)
        if isinstance(n, ast.Call) and isinstance(n.func, ast.Name) and n.func.id in ('hasattr', 'getattr') and len(n.args) >= 2 \
                and isinstance(n.args[1], ast.Constant) and isinstance(n.args[1].value, str) and (n.func.id == 'hasattr' or n.args[1].value == 'imm'):
            selected.add(n.args[1].value)      # (getattr(item, <other field>, default) reads a field, it does not select items)
    if not selected:
        raise AnalysisError('resolve_immediates: how the pass selects the items that carry an expression is not understood')
    rep.check('imm' in selected, rule, 'resolve_immediates selects items by the field name imm',
              lambda: Finding(rule, 'resolve_immediates', fn, 'resolve_immediates selects items by the field(s) {} instead of `imm`, the field every expression-carrying class uses'.format(
                  sorted(selected)), line=fn.lineno))


def check_envs(rep, facts, rule):
    """R8.5: every evaluation environment that contains labels is ChainMap(constants, labels) (constants first)."""
    from ..layout import table_param
    n = 0
    for fname, fn in facts.funcs.items():
        lname = table_param(facts, fname, 'labels') or 'labels'
        cname = table_param(facts, fname, 'constants') or 'constants'
        for node in ast.walk(fn):
            order = None
            if isinstance(node, ast.Call) and dotted(node.func) in ('ChainMap', 'collections.ChainMap'):
                args = [unparse(a) for a in node.args]
                if lname not in args:
                    continue
                text = 'ChainMap({})'.format(', '.join(args))
                order = 'constants-first' if args == [cname, lname] else 'labels-first' if args == [lname, cname] else None
            elif isinstance(node, ast.Dict) and node.keys and all(k is None for k in node.keys) and any(unparse(v) == lname for v in node.values):
                # {**labels, **constants}: a merged copy, later entries win
                args = [unparse(v) for v in node.values]
                text = unparse(node)
                order = 'constants-first' if args == [lname, cname] else 'labels-first' if args == [cname, lname] else None
            else:
                continue
            n += 1
            if order is None:
                rep.undecided('{}: the precedence of names in the evaluation environment {} is not understood'.format(fname, text[:60]))
                continue
            rep.check(order == 'constants-first', rule, '{}: {}'.format(fname, text),
                      lambda node=node, fname=fname, text=text: Finding(rule, fname, node,
                                                                      'evaluation environment {} gives names a different precedence than every other site'.format(text),
                                                                      line=node.lineno))
    rep.count('label environments', n)


def check_peeks(rep, facts, rule):
    """R8.2: an evaluation made before labels are final never reaches an item: its result flows only into comparisons /
    boolean returns."""
    eff = LB.pass_effects(facts)
    sites = IS.eval_sites(facts)
    n = 0
    seen_sites = set()          # distinct evaluation sites (a site is met once per path through it)
    early = [n_ for n_, e in eff.items() if 'MUT' in e or n_ in ('transform_compressible', 'transform_pseudo_instructions')]
    for s in sites:
        top = s.fn.split('.')[0]
        if top not in early:
            continue
        env = s.env
        if env[0] == 'name' and '.' in s.fn and top in facts.funcs:
            # a free variable of a nested function: what the enclosing pass binds it to
            got = IS.free_name_value(facts, facts.funcs[top], env[1])
            if got is not None:
                env = got
        from ..predlift import env_kind
        kind = env_kind(env, None)
        lp = LB.labels_param(facts, top) or 'labels'
        uses_labels = IS.contains(env, ('name', 'labels')) or IS.contains(env, ('name', lp)) or kind == 'labels' or kind is None or env[0] == 'name'
        if kind is not None and kind != 'labels' and LB.param_holds_labels(facts, top, kind[1]) is False:
            uses_labels = False      # evaluated against a table assemble fills with constants only
        if not uses_labels:
            continue
        seen_sites.add((s.fn, getattr(s.node, 'lineno', 0)))
        ok = s.kind in ('PEEK', 'RETURN', 'DROP')
        if s.kind == 'RETURN' and s.flows is not None:
            # the returned value must be a comparison / boolean of the evaluation, not the number itself
            ok = s.flows[0] in ('cmp', 'bool') or (s.flows[0] == 'un' and s.flows[1] == 'not')
            if not ok and '.' not in s.fn:
                ok = True   # a module-level helper returning the number is judged at its call sites
            elif not ok and top in facts.funcs:
                # a nested helper returning the number: judged by what the functions of the same pass do with its result
                use = IS.helper_result_use(facts.funcs[top], s.fn.split('.')[-1])
                if use == 'decision':
                    ok = True
                elif use is None:
                    raise AnalysisError('{}: the number the nested helper returns (an evaluation against not-yet-final labels) is not followed to its uses'.format(s.fn))
        rep.check(ok, rule, '{}:{} early evaluation only steers a decision'.format(s.fn, s.node.lineno),
                  lambda s=s: Finding(rule, s.fn, s.node, 'a value computed from not-yet-final label offsets is stored into an item', line=s.node.lineno))
    item_sites = [s for s in sites if s.recv[0] == 'attr' and s.recv[2] == 'imm']
    wr = IS.wrappers(facts, item_sites)
    for c in IS.wrapper_call_sites(facts, wr):
        top = c['fn'].split('.')[0]
        if top in early:
            seen_sites.add((c['fn'], getattr(c['node'], 'lineno', 0)))
            rep.check(c['kind'] != 'BAKE', rule, '{}:{} early evaluation only steers a decision'.format(c['fn'], c['node'].lineno),
                      lambda c=c: Finding(rule, c['fn'], c['node'], 'a value computed from not-yet-final label offsets is stored into an item', line=c['node'].lineno))
    rep.count('early evaluation sites', n + len(seen_sites))


def run(repo, tier):
    facts = Facts(repo.asm)
    rep = Report('C08', LEVEL,
                 'Pass-order effect analysis: each pass is classified MUT (writes the label table), BAKE (stores the result of a '
                 'label-dependent evaluation into an item) or PEEK (evaluates but only steers a decision); on both arms of `compress` '
                 'every BAKE pass is ordered after the last MUT pass; the single baking site evaluates at the item\'s own final offset '
                 'against ChainMap(constants, labels); Offset / Position / Arithmetic evaluation is normalised to label - position, '
                 'base + label, lookup in the same environment; every expression-carrying item field is the one the baking site reads.')
    rep.trusted_base = ['CPython ast', 'bbverif.pathwalk', 'layout invariant L1-L3 (decided under C03/C09 on the same run engine)']
    rep.not_decided = ['staleness of PEEK decisions (a value used only to choose an expansion is not "encoded in the output")']
    # every rule is attempted: a no-verdict in one of them is deferred, so it cannot mask a violation another one establishes
    rep.attempt(LB.check_bake_after_mut, rep, facts, 'R8.order')
    rep.attempt(LB.check_L4, rep, facts, 'R8.final')
    rep.attempt(check_peeks, rep, facts, 'R8.peek')
    rep.attempt(check_expr_fields, rep, facts, 'R8.field')
    rep.attempt(check_envs, rep, facts, 'R8.env')
    rep.attempt(LB.check_live_env, rep, facts, 'R8.env.live')
    # the label table the values are read from is the one the invariant speaks about
    rep.attempt(LB.check_L5, rep, facts, 'R8.identity')
    # L2/L3 for every pass: a label equals the byte offset in the output only if size() is what each item finally emits
    movers = rep.attempt(LB.label_writing_passes, facts)
    for compress in (False, True):
        for name, node, inc, out in rep.attempt(LR.class_flow, facts, compress) or []:
            def conserve(name=name, inc=inc):
                LR.check_conservation(rep, LR.pass_analysis(facts, name, frozenset(inc)), 'R8.layout', movers is None or name in movers)
            rep.attempt(conserve)
    rep.attempt(LB.check_L1, rep, facts, 'R8.layout.establish')
    # %offset(L) is L's offset minus the offset of the item that contains it - except for the jalr half of an auipc pair, and only
    # for that: the displacement of the evaluation point is tied to the is_auipc_jump flag at every site
    from .. import immsites as _IS
    rep.attempt(_IS.check_auipc, rep, facts, 'R8.auipc-adjust', 'R8.auipc-sibling')
    rep.floor('baking evaluation sites', 1)
    rep.floor('early evaluation sites', 1)
    rep.floor('expression-carrying fields', 14)
    rep.floor('label environments', 3)
    return rep
