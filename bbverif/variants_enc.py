"""Self-test variants for the encoder interpreter (bitdom): the idioms of a helper- and table-driven rewrite of the
encoders.  Same format as variants.py, merged into its lists at import time."""

A = 'bronzebeard/asm.py'
ENC = ['C01', 'C02', 'C06', 'C04', 'C12']

# ---- anchors in /repo's bronzebeard/asm.py -----------------------------------------------------------------------
TABLE_TRY = ("    try:\n        reg = REGISTERS[reg]\n    except KeyError:\n"
             "        raise ValueError('register must be a valid integer, name, or alias: {}'.format(reg))\n")
REG_MSG = "        raise ValueError('register must be a valid integer, name, or alias: {}'.format(reg))\n"
COMPRESSED_TAIL = ("    # check for compressed instruction register, validate and apply\n    if compressed:\n"
                   "        # must be in \"common\" registers: x8-x15\n        if reg < 8 or reg > 15:\n"
                   "            raise ValueError('compressed register must be between 8 and 15: {}'.format(reg))\n"
                   "        # subtract 8 to get compressed, 3-bit reg value\n        reg -= 8\n\n    return reg\n")
INT_TRY = "    except:\n        pass\n\n    # at this point"
ITYPE_GUARD = ("    if imm < -0x800 or imm > 0x7ff:\n        raise ValueError('12-bit immediate must be between -0x800 (-2048) and 0x7ff (2047): {}'.format(imm))\n\n"
               "    imm = c_uint32(imm).value & 0b111111111111\n\n    code = 0\n    code |= opcode\n    code |= rd << 7")
RTYPE_DEF = "def r_type(rd, rs1, rs2, *, opcode, funct3, funct7):"
RTYPE_BODY = ("    code = 0\n    code |= opcode\n    code |= rd << 7\n    code |= funct3 << 12\n    code |= rs1 << 15\n"
              "    code |= rs2 << 20\n    code |= funct7 << 25\n\n    return code")
STYPE_SLICES = "    imm_11_5 = (imm >> 5) & 0b1111111\n    imm_4_0 = imm & 0b11111\n"
CIA_BODY = ("    imm = imm >> 4\n    imm = c_uint32(imm).value & 0b111111\n\n    imm_9 = (imm >> 5) & 0b1\n    imm_8_7 = (imm >> 3) & 0b11\n"
            "    imm_6 = (imm >> 2) & 0b1\n    imm_5 = (imm >> 1) & 0b1\n    imm_4 = imm & 0b1\n\n    code = 0\n    code |= opcode\n"
            "    code |= imm_5 << 2\n    code |= imm_8_7 << 3\n    code |= imm_6 << 5\n    code |= imm_4 << 6\n    code |= 0b00010 << 7\n"
            "    code |= imm_9 << 12\n    code |= funct3 << 13\n\n    return code")
CIA_DEF = "# CI variation\n# c.addi16sp\ndef cia_type"
CR_DEF = "# c.jr, c.mv, c.ebreak, c.jalr, c.add\ndef cr_type"
CR_LOOP = "    # validate constraints\n    for c in cs or []:\n        c(rd_rs1=rd_rs1, rs2=rs2)\n"
UTYPE_WINDOW = "    if imm >= 0x80000 and imm <= 0xfffff:\n        imm = imm - 2**20\n    if imm < -0x80000 or imm > 0x7ffff:\n"
FENCE_COERCE = "    succ = succ if type(succ) == int else int(succ, base=0)\n    pred = pred if type(pred) == int else int(pred, base=0)\n"
FENCE_DEF = "def fence(succ, pred, *, opcode, funct3, rd, rs1, fm):"
CIW_SHIFT = "    imm = imm >> 2\n    imm = c_uint32(imm).value & 0b11111111\n"
BTYPE_SHIFT = "    imm = imm >> 1\n    imm = c_uint32(imm).value & 0b111111111111\n\n    imm_12"
CNOT = ("def constraint_not(field, value):\n    def inner(**kwargs):\n        if kwargs[field] == value:\n"
        "            raise ValueError('constraint failed: {} must not be {}'.format(field, value))\n    return inner\n")

# ---- replacement text ----------------------------------------------------------------------------------------------
HELPERS = ("def signed_range(width, scale=1):\n    half = scale << (width - 1)\n    return -half, half - 1\n\n\n"
           "IMM12_RANGE = signed_range(%d)\n\n\n"
           "def check_immediate(imm, bounds, kind, multiple=1):\n    lowest, highest = bounds\n    if not lowest %s imm <= highest:\n"
           "        raise ValueError('{} immediate must be between {} and {}: {}'.format(kind, lowest, highest, imm))\n"
           "    if multiple != 1 and imm %% multiple:\n"
           "        raise ValueError('{} immediate must be a multiple of {}: {}'.format(kind, multiple, imm))\n\n\n"
           "def twos_complement(imm, width):\n    return imm & ((1 << width) - 1)\n\n\n")
ITYPE_HELPED = "    check_immediate(imm, IMM12_RANGE, '12-bit')\n    imm = twos_complement(imm, %d)\n\n    code = 0\n    code |= opcode\n    code |= rd << 7"


def helpers(width=12, cmp='<=', tw=12):
    return [(A, RTYPE_DEF, HELPERS % (width, cmp) + RTYPE_DEF), (A, ITYPE_GUARD, ITYPE_HELPED % tw, 0)]


GET_NONE = "    number = REGISTERS.get(reg)\n    if number is None:\n" + REG_MSG + "    reg = number\n"
MEMBER = "    if reg not in REGISTERS:\n" + REG_MSG + "    reg = REGISTERS[reg]\n"
EARLY_RETURN = ("    if not compressed:\n        return reg\n\n    # must be in \"common\" registers: x8-x15\n    if not 8 <= reg <= 15:\n"
                "        raise ValueError('compressed register must be between 8 and 15: {}'.format(reg))\n    return reg - %d\n")
SCATTER_LOOP = ("    code = opcode | 0b00010 << 7 | funct3 << 13\n"
                "    for hi, lo, position in ((5, 5, 2), (8, 7, 3), (6, 6, %d), (4, 4, 6), (9, 9, 12)):\n"
                "        code |= ((imm >> lo) & ((1 << (hi - lo + 1)) - 1)) << position\n\n    return code")
SCATTER_SUM = ("    return opcode | 0b00010 << 7 | funct3 << 13 | sum(bits(imm, hi, lo) << position for hi, lo, position in CIA_IMM_LAYOUT)")
CIA_TABLE = ("CIA_IMM_LAYOUT = (\n    (5, 5, 2),\n    (8, 7, 3),\n    (6, 6, 5),\n    (4, 4, 6),\n    (9, 9, 12),\n)\n\n\n"
             "def bits(value, hi, lo=None):\n    if lo is None:\n        lo = hi\n    return (value >> lo) & ((1 << (hi - lo + 1)) - 1)\n\n\n")
CHECK_CS = "def check_constraints(cs, **fields):\n    for constraint in %s:\n        constraint(**fields)\n\n\n"
CASE_INSENSITIVE = ("    except:\n        pass\n\n    if isinstance(reg, str) and reg.lower() in REGISTERS:\n"
                    "        REGISTERS.setdefault(reg, REGISTERS[reg.lower()])\n\n    # at this point")
CNOT_MSG = ("def constraint_not(field, value):\n    message = 'constraint failed: {} must not be {}'.format(field, value)\n\n"
            "    def check(**fields):\n        if fields[field] == value:\n            raise ValueError(message)\n    return check\n")

ITYPE_TAIL = "\n\n    code = 0\n    code |= opcode\n    code |= rd << 7"
RANGE_MSG = "        raise ValueError('12-bit immediate out of range: {}'.format(imm))\n"
NT_TABLE = ("from collections import namedtuple\nField = namedtuple('Field', 'hi lo pos')\n"
            "CIA_FIELDS = (Field(5, 5, 2), Field(8, 7, 3), Field(6, 6, 5), Field(4, 4, 6), Field(hi=9, lo=9, pos=12))\n\n\n")
NT_LOOP = ("    code = opcode | 0b00010 << 7 | funct3 << 13\n    for f in CIA_FIELDS:\n"
           "        code |= ((imm >> f.lo) & ((1 << (f.hi - f.lo + 1)) - 1)) << f.pos\n\n    return code")
ADD_BINDING = "ADD        = partial(r_type,   opcode=0b0110011, funct3=0b000, funct7=0b0000000)"
FACTORY = ("def make_r_type(shift_rd):\n    def enc(rd, rs1, rs2, *, opcode, funct3, funct7):\n        rd = lookup_register(rd)\n"
           "        rs1 = lookup_register(rs1)\n        rs2 = lookup_register(rs2)\n"
           "        return opcode | rd << shift_rd | funct3 << 12 | rs1 << 15 | rs2 << 20 | funct7 << 25\n    return enc\n\n\n"
           "r_type2 = make_r_type(%d)\n\n\n")
FENCE_IMM = "    imm = (fm << 8) | (pred << 4) | succ\n"
IJ_MULT = "    if imm % 2 != 0:\n        raise ValueError('12-bit immediate must be a multiple of 2: {}'.format(imm))\n"

CNOT_LAMBDA = ("def constraint(field, accept, rule):\n    def inner(**kwargs):\n        if not accept(kwargs[field]):\n"
               "            raise ValueError('constraint failed: {}'.format(rule))\n    return inner\n\n\n"
               "def constraint_not(field, value):\n    return constraint(field, lambda v: v %s value, '{} must not be {}'.format(field, value))\n")
FUNCTOOLS = "from functools import partial\n"
REDUCE_BODY = ("    fields = dict(opcode=opcode, rd=rd, funct3=funct3, rs1=rs1, rs2=rs2)\n    fields['funct7'] = funct7\n"
               "    positions = {'opcode': 0, 'rd': 7, 'funct3': 12, 'rs1': %d, 'rs2': 20, 'funct7': 25}\n"
               "    return reduce(or_, (fields[name] << pos for name, pos in positions.items()), 0)")

CIL_GUARD = ("    if imm < 0 or imm > 255:\n        raise ValueError('6-bit MO4 unsigned immediate must be between 0x00 (0) and 0xff (255): {}'.format(imm))\n"
             "    if imm % 4 != 0:\n        raise ValueError('6-bit MO4 unsigned immediate must be a multiple of 4: {}'.format(imm))\n")
CIL_NEGMASK = "    if imm & ~%s:\n        raise ValueError('6-bit MO4 unsigned immediate must be a multiple of 4 between 0 and 252: {}'.format(imm))\n"
CREG_MASK = ("    if not compressed:\n        return reg\n    if reg >> 3 != %d:\n"
             "        raise ValueError('compressed register must be between 8 and 15: {}'.format(reg))\n    return reg & 0b111\n")
ITYPE_MASK_TAIL = ("    imm = c_uint32(imm).value & 0b111111111111\n\n    code = 0\n    code |= opcode\n    code |= rd << 7\n    code |= funct3 << 12\n"
                   "    code |= rs1 << 15\n    code |= imm << 20\n\n    return code\n\n\n# i-type variation")
ITYPE_SLIDE = ("    code = 0\n    code |= opcode\n    code |= rd << 7\n    code |= funct3 << 12\n"
               "    code |= rs1 << 15\n    code |= (imm << 20) & %s\n\n    return code\n\n\n# i-type variation")
CIA_GUARDS = ("    if imm < -512 or imm > 511:\n        raise ValueError('6-bit MO16 immediate must be between -0x200 (-512) and 0x1ff (511): {}'.format(imm))\n"
              "    if imm % 16 != 0:\n        raise ValueError('6-bit MO16 immediate must be a multiple of 16: {}'.format(imm))\n")
OO_CLASSES = """class BitField:
    def __init__(self, high, low, position):
        self.high = high
        self.low = low
        self.position = position

    @property
    def width(self):
        return self.high - self.low + 1

    def place(self, value):
        return ((value >> self.low) & ((1 << self.width) - 1)) << self.position


class ImmediateSpec:
    def __init__(self, bits, scale=1, layout=()):
        self.bits = bits
        self.scale = scale
        self.layout = layout
        self.lowest = -(scale << (bits - 1))
        self.highest = (scale << (bits - 1)) - 1

    def check(self, imm):
        if not self.lowest <= imm <= self.highest:
            raise ValueError('immediate out of range: {}'.format(imm))
        if self.scale != 1 and imm % self.scale:
            raise ValueError('immediate must be a multiple of {}: {}'.format(self.scale, imm))
        return imm

    def encode(self, imm):
        imm = self.check(imm)
        word = 0
        for field in self.layout:
            word |= field.place(imm)
        return word


class ScaledImmediate(ImmediateSpec):
    def __init__(self, bits, scale, layout):
        super().__init__(bits, scale=scale, layout=layout)


class Word:
    def __init__(self, value=0):
        self.value = value

    def put(self, field, position):
        self.value |= field << position
        return self


CIA_SPEC = ScaledImmediate(6, 16, (BitField(5, 5, 2), BitField(8, 7, @POS@), BitField(6, 6, 5), BitField(4, 4, 6), BitField(9, 9, 12)))


"""
OO_BODY = "    word = Word(opcode).put(0b00010, 7).put(funct3, 13)\n    return word.value | CIA_SPEC.encode(imm)"


def oo(pos=3):
    return [(A, CIA_DEF, OO_CLASSES.replace('@POS@', str(pos)) + CIA_DEF), (A, CIA_GUARDS, "    CIA_SPEC.check(imm)\n"), (A, CIA_BODY, OO_BODY)]


FENCE_SUCC_GUARD = ("    if succ < 0b0000 or succ > 0b1111:\n        raise ValueError('invalid successor value for FENCE instruction: {}'.format(succ))\n")
FENCE_PRED_GUARD = ("    if pred < 0b0000 or pred > 0b1111:\n        raise ValueError('invalid predecessor value for FENCE instruction: {}'.format(pred))\n")
FENCE_PRED_RAISE = "        raise ValueError('invalid predecessor value for FENCE instruction: {}'.format(pred))\n"

RTYPE_LOOKUPS = RTYPE_DEF + "\n    rd = lookup_register(rd)\n    rs1 = lookup_register(rs1)\n    rs2 = lookup_register(rs2)\n"
INT_TRY_FULL = "    try:\n        reg = int(reg, base=0)\n    except:\n        pass\n"
TABLE_TRY_KEY = TABLE_TRY.replace('REGISTERS[reg]', 'REGISTERS[key]')


def rlook(expr):
    return [(A, RTYPE_LOOKUPS, RTYPE_DEF + "\n    rd, rs1, rs2 = " + expr + "\n")]


def fallback_key(conv):
    return [(A, INT_TRY_FULL, "    try:\n        key = " + conv + "\n    except:\n        key = reg\n"), (A, TABLE_TRY, TABLE_TRY_KEY)]


# ---- round 6: helper classes / shared tails / local lambdas / tables built by helpers / letter sets -------------------------------
IMMRANGE_STEP = ("class ImmRange:\n    def __init__(self, lo, hi, step, range_message, step_message):\n        self.lo = lo\n        self.hi = hi\n"
                 "        self.step = step\n        self.range_message = range_message\n        self.step_message = step_message\n\n"
                 "    def check(self, imm):\n        if imm < self.lo or imm > self.hi:\n            raise ValueError(self.range_message.format(imm))\n"
                 "        if imm % self.step != 0:\n            raise ValueError(self.step_message.format(imm))\n\n\n"
                 "MO4_UIMM6 = ImmRange(\n    0, @HI@, @STEP@,\n    '6-bit MO4 unsigned immediate must be between 0x00 (0) and 0xff (255): {}',\n"
                 "    '6-bit MO4 unsigned immediate must be a multiple of 4: {}',\n)\n\n\n")


def immrange_step(hi=255, step=4):
    return [(A, CIA_DEF, IMMRANGE_STEP.replace('@HI@', str(hi)).replace('@STEP@', str(step)) + CIA_DEF),
            (A, CIL_GUARD, "    MO4_UIMM6.check(imm)\n", 'all')]


IMM12_GUARD = "    if imm < -0x800 or imm > 0x7ff:\n        raise ValueError('12-bit immediate must be between -0x800 (-2048) and 0x7ff (2047): {}'.format(imm))\n"
IMMRANGE_PLAIN = ("class ImmRange:\n    def __init__(self, lo, hi, message):\n        self.lo = lo\n        self.hi = hi\n        self.message = message\n\n"
                  "    def check(self, imm):\n        if imm < self.lo or imm > self.hi:\n            raise ValueError(self.message.format(imm))\n\n\n"
                  "IMM_12 = ImmRange(-0x800, @HI@, '12-bit immediate must be between -0x800 (-2048) and 0x7ff (2047): {}')\n\n\n")


def immrange_plain(hi='0x7ff'):
    return [(A, RTYPE_DEF, IMMRANGE_PLAIN.replace('@HI@', hi) + RTYPE_DEF), (A, IMM12_GUARD, "    IMM_12.check(imm)\n", 'all')]


CLCS_TAIL = ("    imm = imm >> 2\n    imm = c_uint32(imm).value & 0b11111\n\n    imm_6 = (imm >> 4) & 0b1\n    imm_5_3 = (imm >> 1) & 0b111\n"
             "    imm_2 = imm & 0b1\n\n    code = 0\n    code |= opcode\n    code |= %s << 2\n    code |= imm_6 << 5\n    code |= imm_2 << 6\n"
             "    code |= rs1 << 7\n    code |= imm_5_3 << 10\n    code |= funct3 << 13\n\n    return code\n")
CL_DEF = "# c.lw\ndef cl_type"


def shared_tail(first='rd_rs2', rs1_pos=7):
    helper = "def pack_cl_cs(opcode, rd_rs2, rs1, imm, funct3):\n" + (CLCS_TAIL % first).replace('rs1 << 7', 'rs1 << %d' % rs1_pos) + "\n\n"
    return [(A, CL_DEF, helper + CL_DEF), (A, CLCS_TAIL % 'rd', "    return pack_cl_cs(opcode, rd, rs1, imm, funct3)\n"),
            (A, CLCS_TAIL % 'rs2', "    return pack_cl_cs(opcode, rs2, rs1, imm, funct3)\n")]


CIW_FIELDS = "    imm_9_6 = (imm >> 4) & 0b1111\n    imm_5_4 = (imm >> 2) & 0b11\n    imm_3 = (imm >> 1) & 0b1\n    imm_2 = imm & 0b1\n"
CIW_LAMBDA = ("    field = lambda shift, width: (imm >> shift) & ((1 << width) - 1)\n\n    imm_9_6 = field(%d, 4)\n    imm_5_4 = field(2, 2)\n"
              "    imm_3 = field(1, 1)\n    imm_2 = field(0, 1)\n")
PACK_FIELDS = ("def pack_fields(opcode, *fields):\n    code = 0\n    code |= opcode\n    for value, position in fields:\n        code |= value << position\n"
               "    return code\n\n\n")
SEXT_BODY = "    return (value & (sign_bit - 1)) - (value & sign_bit)\n"
CLUI_WINDOW = ("    if imm >= 0xfffe0 and imm <= 0xfffff:\n        imm = imm - 2**20", "    if imm >= 0xfffe0 and imm <= 0xfffff:\n        imm = sign_extend(imm, 20)")
REG_LITERAL_HEAD = "REGISTERS = {\n    # ints  # strs    # names    # aliases\n"
REG_LITERAL_TAIL = "    31: 31, '31': 31, 'x31': 31, 't6':   31,\n}\n"
BUILD_REGISTERS = ("\n\ndef build_registers():\n    registers = {}\n    for key, number in _REGISTER_ROWS.items():\n        registers[key] = %s\n"
                   "    return registers\n\n\nREGISTERS = build_registers()\n")


def built_table(value='number'):
    return [(A, REG_LITERAL_HEAD, REG_LITERAL_HEAD.replace('REGISTERS', '_REGISTER_ROWS')), (A, REG_LITERAL_TAIL, REG_LITERAL_TAIL + BUILD_REGISTERS % value)]


CIA_TABLE_DEF = ("def cia_imm_bits(imm):\n    imm_9 = (imm >> 5) & 0b1\n    imm_8_7 = (imm >> 3) & 0b11\n    imm_6 = (imm >> 2) & 0b1\n"
                 "    imm_5 = (imm >> 1) & 0b1\n    imm_4 = imm & 0b1\n    return imm_5 << 2 | imm_8_7 << 3 | %s << 5 | imm_4 << 6 | imm_9 << 12\n\n\n"
                 "CIA_IMM_BITS = tuple(cia_imm_bits(imm) for imm in range(0b1000000))\n\n\n")
CIA_TABLE_BODY = ("    imm = imm >> 4\n    imm = c_uint32(imm).value & 0b111111\n\n    code = 0\n    code |= opcode\n    code |= CIA_IMM_BITS[imm]\n"
                  "    code |= 0b00010 << 7\n    code |= funct3 << 13\n\n    return code")


def const_table(expr='imm_6'):
    return [(A, CIA_DEF, CIA_TABLE_DEF % expr + CIA_DEF), (A, CIA_BODY, CIA_TABLE_BODY)]


FENCE_SET = ("def fence_set(value):\n    if type(value) == int:\n        return value\n    flags = value.lower()\n"
             "    if flags and all(c in 'iorw' for c in flags):\n        return sum(1 << '%s'.index(c) for c in %s)\n    return int(value, base=0)\n\n\n")


def letters(order='wroi', over='set(flags)'):
    return [(A, FENCE_DEF, FENCE_SET % (order, over) + FENCE_DEF), (A, FENCE_COERCE, "    succ = fence_set(succ)\n    pred = fence_set(pred)\n")]


# ---- round 8: contextlib.suppress, generator helpers consumed by unpacking ---------------------------------------------------------
IMPORT_ANCHOR = "from collections import ChainMap\n"
CIL_FIELDS = "    imm_7_6 = (imm >> 4) & 0b11\n    imm_5 = (imm >> 3) & 0b1\n    imm_4_2 = imm & 0b111\n"
SPLIT_BITS = ("def split_bits(value, *widths):\n    for width in widths:\n        yield value & ((1 << width) - 1)\n        value >>= width\n\n\n")


def suppress_conv(classes='BaseException'):
    return [(A, IMPORT_ANCHOR, "import contextlib\n" + IMPORT_ANCHOR),
            (A, INT_TRY_FULL, "    with contextlib.suppress(" + classes + "):\n        reg = int(reg, base=0)\n")]


def gen_split(call="split_bits(imm, 3, 1, 2)", stmt=None):
    stmt = stmt or "    imm_4_2, imm_5, imm_7_6 = " + call + "\n"
    return [(A, CIA_DEF, SPLIT_BITS + CIA_DEF), (A, CIL_FIELDS, stmt)]


PRESERVING = [
    ('p-enc-get-none', ENC, [(A, TABLE_TRY, GET_NONE)]),
    ('p-enc-membership', ENC, [(A, TABLE_TRY, MEMBER)]),
    ('p-enc-except-narrow', ENC, [(A, INT_TRY, "    except (TypeError, ValueError):\n        pass\n\n    # at this point")]),
    ('p-enc-early-return', ENC, [(A, COMPRESSED_TAIL, EARLY_RETURN % 8)]),
    ('p-enc-range-const-helpers', ENC, helpers()),
    ('p-enc-divmod', ENC, [(A, STYPE_SLICES, "    imm_11_5, imm_4_0 = divmod(imm, 1 << 5)\n")]),
    ('p-enc-mod-slice', ENC, [(A, STYPE_SLICES, "    imm_11_5, imm_4_0 = imm // 32, imm % 32\n")]),
    ('p-enc-single-expr', ENC, [(A, RTYPE_BODY, "    return opcode | rd << 7 | funct3 << 12 | rs1 << 15 | rs2 << 20 | funct7 << 25")]),
    ('p-enc-scatter-loop', ENC, [(A, CIA_BODY, SCATTER_LOOP % 5)]),
    ('p-enc-scatter-sum-table', ENC, [(A, CIA_DEF, CIA_TABLE + CIA_DEF), (A, CIA_BODY, SCATTER_SUM)]),
    ('p-enc-check-constraints', ENC, [(A, CR_DEF, CHECK_CS % 'cs or ()' + CR_DEF), (A, CR_LOOP, "    check_constraints(cs, rd_rs1=rd_rs1, rs2=rs2)\n", 0)]),
    ('p-enc-utype-window-mask', ENC, [(A, UTYPE_WINDOW, "    if not -0x80000 <= imm <= 0xfffff:\n")]),
    ('p-enc-int-operand', ENC, [(A, FENCE_DEF, "def int_operand(value):\n    return value if type(value) is int else int(value, base=0)\n\n\n" + FENCE_DEF),
                                (A, FENCE_COERCE, "    succ = int_operand(succ)\n    pred = int_operand(pred)\n")]),
    ('p-enc-int-operand-isinstance', ENC, [(A, FENCE_DEF, "def int_operand(value):\n    if isinstance(value, int):\n        return value\n    return int(value, base=0)\n\n\n" + FENCE_DEF),
                                           (A, FENCE_COERCE, "    succ = int_operand(succ)\n    pred = int_operand(pred)\n")]),
    ('p-enc-floordiv', ENC, [(A, CIW_SHIFT, "    imm = imm // 4\n")]),
    ('p-enc-second-name', ENC, [(A, BTYPE_SHIFT, "    half = imm >> 1\n    imm = c_uint32(half).value & 0b111111111111\n\n    imm_12")]),
    ('p-enc-reg-case-insensitive', ENC, [(A, INT_TRY, CASE_INSENSITIVE)]),
    ('p-enc-closure-message', ENC, [(A, CNOT, CNOT_MSG)]),
    ('p-enc-unsigned-by-add', ENC, [(A, ITYPE_GUARD, "    if not -2048 <= imm < 2048:\n" + RANGE_MSG + "    imm = imm + 4096 if imm < 0 else imm" + ITYPE_TAIL, 0)]),
    ('p-enc-range-membership', ENC, [(A, ITYPE_GUARD, "    if imm not in range(-0x800, 0x800):\n" + RANGE_MSG + "    imm = imm & 0xfff" + ITYPE_TAIL, 0)]),
    ('p-enc-shifted-test', ENC, [(A, ITYPE_GUARD, "    if (imm >> 11) not in (0, -1):\n" + RANGE_MSG + "    imm &= 0xfff" + ITYPE_TAIL, 0)]),
    ('p-enc-low-bit-test', ENC, [(A, IJ_MULT, "    if imm & 1:\n        raise ValueError('12-bit immediate must be a multiple of 2: {}'.format(imm))\n")]),
    ('p-enc-namedtuple-layout', ENC, [(A, CIA_DEF, NT_TABLE + CIA_DEF), (A, CIA_BODY, NT_LOOP)]),
    ('p-enc-partial-chain', ENC, [(A, ADD_BINDING, "ALU_OP     = partial(r_type,   opcode=0b0110011)\nADD        = partial(ALU_OP,   funct3=0b000, funct7=0b0000000)")]),
    ('p-enc-encoder-factory', ENC, [(A, RTYPE_DEF, FACTORY % 7 + RTYPE_DEF), (A, "ADD        = partial(r_type,", "ADD        = partial(r_type2,")]),
    ('p-enc-fields-by-arithmetic', ENC, [(A, FENCE_IMM, "    imm = fm * 256 + pred * 16 + succ\n")]),
    ('p-enc-lambda-constraint', ENC, [(A, CNOT, CNOT_LAMBDA % '!=')]),
    ('p-enc-reduce-pack', ENC, [(A, FUNCTOOLS, "from functools import partial, reduce\nfrom operator import or_\n"), (A, RTYPE_BODY, REDUCE_BODY % 15)]),
    ('p-enc-allowed-bits-mask', ENC, [(A, CIL_GUARD, CIL_NEGMASK % '0b11111100', 0)]),
    ('p-enc-creg-by-mask', ENC, [(A, COMPRESSED_TAIL, CREG_MASK % 1)]),
    ('p-enc-slide-in-place', ENC, [(A, ITYPE_MASK_TAIL, ITYPE_SLIDE % '0xfff00000')]),
    ('p-enc-helper-classes', ENC, oo()),
    ('p-enc-fence-chained-guards', ENC, [(A, FENCE_SUCC_GUARD, "    if not 0 <= succ <= 0b1111:\n        raise ValueError('invalid successor value for FENCE instruction: {}'.format(succ))\n"),
                                          (A, FENCE_PRED_GUARD, "    if not 0 <= pred <= 0b1111:\n" + FENCE_PRED_RAISE)]),
    ('p-enc-fence-merged-guard', ENC, [(A, FENCE_SUCC_GUARD, ""),
                                        (A, FENCE_PRED_GUARD, "    if not (0 <= succ <= 0b1111 and 0 <= pred <= 0b1111):\n        raise ValueError('invalid successor / predecessor value for FENCE instruction: {} {}'.format(succ, pred))\n")]),
    ('p-enc-fence-imm-by-arithmetic-guarded', ENC, [(A, FENCE_IMM, "    imm = (fm * 16 + pred) * 16 + succ\n")]),
    ('p-enc-map-lookup', ENC, rlook("map(lookup_register, (rd, rs1, rs2))")),
    ('p-enc-list-map-lookup', ENC, rlook("list(map(lookup_register, [rd, rs1, rs2]))")),
    ('p-enc-listcomp-lookup', ENC, rlook("[lookup_register(x) for x in (rd, rs1, rs2)]")),
    ('p-enc-tuple-genexp-lookup', ENC, rlook("tuple(lookup_register(x) for x in (rd, rs1, rs2))")),
    ('p-enc-fallback-key', ENC + ['C13'], fallback_key("int(reg, base=0)")),
    ('p-enc-immrange-class-step', ENC, immrange_step()),
    ('p-enc-immrange-class', ENC, immrange_plain()),
    ('p-enc-shared-tail', ENC, shared_tail()),
    ('p-enc-local-lambda-field', ENC, [(A, CIW_FIELDS, CIW_LAMBDA % 4)]),
    ('p-enc-pack-fields-varargs', ENC, [(A, RTYPE_DEF, PACK_FIELDS + RTYPE_DEF), (A, RTYPE_BODY, "    return pack_fields(opcode, (rd, 7), (funct3, 12), (rs1, 15), (rs2, 20), (funct7, 25))")]),
    ('p-enc-sext-xor-form', ENC, [(A,) + CLUI_WINDOW, (A, SEXT_BODY, "    low_bits = value & (2 * sign_bit - 1)\n    return (low_bits ^ sign_bit) - sign_bit\n")]),
    ('p-enc-table-built-by-helper', ENC + ['C13'], built_table()),
    ('p-enc-constant-table-index', ENC, const_table()),
    ('p-enc-fence-letter-sets', ['C01', 'C06'], letters()),
    ('p-enc-binding-helper', ENC, [(A, ADD_BINDING, "def alu_op(*, funct3, funct7):\n    return partial(r_type, opcode=0b0110011, funct3=funct3, funct7=funct7)\n\n\nADD        = alu_op(funct3=0b000, funct7=0b0000000)")]),
    ('p-enc-suppress-conversion', ENC + ['C13'], suppress_conv()),
    ('p-enc-suppress-conversion-classes', ENC, [(A, IMPORT_ANCHOR, "from contextlib import suppress\n" + IMPORT_ANCHOR),
                                                (A, INT_TRY_FULL, "    with suppress(TypeError, ValueError):\n        reg = int(reg, base=0)\n")]),
    ('p-enc-generator-split-bits', ENC, gen_split()),
    ('p-enc-generator-split-bits-list', ENC, gen_split("list(split_bits(imm, 3, 1, 2))")),
    ('p-enc-log-call', ENC, [(A, ITYPE_GUARD, "    log.debug('i-type immediate %s', imm)\n" + ITYPE_GUARD, 0)]),
]

BREAKING = [
    ('c06-get-default0', ['C01', 'C06'], [(A, TABLE_TRY, "    reg = REGISTERS.get(reg, 0)\n")]),
    ('c06-reg-falsy-test', ['C01', 'C06'], [(A, TABLE_TRY, "    number = REGISTERS.get(reg)\n    if not number:\n" + REG_MSG + "    reg = number\n")]),
    ('c06-membership-inverted', ['C01', 'C06'], [(A, TABLE_TRY, "    if reg in REGISTERS:\n" + REG_MSG + "    reg = REGISTERS[reg]\n")]),
    ('c02-early-return-rebase', ['C02'], [(A, COMPRESSED_TAIL, EARLY_RETURN % 7)]),
    ('c06-range-const-wide', ['C01', 'C06'], helpers(width=13)),
    ('c06-chained-strict', ['C06'], helpers(cmp='<')),
    ('c01-twos-width', ['C01'], helpers(tw=11)),
    ('c01-divmod-4', ['C01'], [(A, STYPE_SLICES, "    imm_11_5, imm_4_0 = divmod(imm, 1 << 4)\n")]),
    ('c01-single-expr-shift', ['C01'], [(A, RTYPE_BODY, "    return opcode | rd << 7 | funct3 << 12 | rs1 << 15 | rs2 << 20 | funct7 << 24")]),
    ('c02-scatter-loop-pos', ['C02'], [(A, CIA_BODY, SCATTER_LOOP % 4)]),
    ('c02-scatter-table-entry', ['C02'], [(A, CIA_DEF, CIA_TABLE.replace('(8, 7, 3)', '(7, 8, 3)') + CIA_DEF), (A, CIA_BODY, SCATTER_SUM)]),
    ('c02-check-constraints-skip', ['C02', 'C06'], [(A, CR_DEF, CHECK_CS % '()' + CR_DEF), (A, CR_LOOP, "    check_constraints(cs, rd_rs1=rd_rs1, rs2=rs2)\n", 0)]),
    ('c06-utype-window-mask-wide', ['C01', 'C06'], [(A, UTYPE_WINDOW, "    if not -0x80000 <= imm <= 0x1fffff:\n")]),
    ('c02-floordiv-2', ['C02'], [(A, CIW_SHIFT, "    imm = imm // 2\n")]),
    # a second name for the shifted value while the fields are still cut from the unshifted one
    ('c01-second-name-unused', ['C01'], [(A, BTYPE_SHIFT, "    half = imm >> 1\n    imm = c_uint32(imm).value & 0b111111111111\n\n    imm_12")]),
    ('c01-unsigned-by-add-2048', ['C01'], [(A, ITYPE_GUARD, "    if not -2048 <= imm < 2048:\n" + RANGE_MSG + "    imm = imm + 2048 if imm < 0 else imm" + ITYPE_TAIL, 0)]),
    ('c06-range-membership-wide', ['C01', 'C06'], [(A, ITYPE_GUARD, "    if imm not in range(-0x800, 0x801):\n" + RANGE_MSG + "    imm = imm & 0xfff" + ITYPE_TAIL, 0)]),
    ('c06-shifted-test-10', ['C06'], [(A, ITYPE_GUARD, "    if (imm >> 10) not in (0, -1):\n" + RANGE_MSG + "    imm &= 0xfff" + ITYPE_TAIL, 0)]),
    ('c02-namedtuple-entry', ['C02'], [(A, CIA_DEF, NT_TABLE.replace('Field(6, 6, 5)', 'Field(6, 6, 6)') + CIA_DEF), (A, CIA_BODY, NT_LOOP)]),
    ('c01-partial-chain-opcode', ['C01'], [(A, ADD_BINDING, "ALU_OP     = partial(r_type,   opcode=0b0110011)\nADD        = partial(ALU_OP,   funct3=0b000, funct7=0b0000000, opcode=0b0010011)")]),
    ('c01-encoder-factory-shift', ['C01'], [(A, RTYPE_DEF, FACTORY % 8 + RTYPE_DEF), (A, "ADD        = partial(r_type,", "ADD        = partial(r_type2,")]),
    ('c02-lambda-constraint-eq', ['C02', 'C06'], [(A, CNOT, CNOT_LAMBDA % '==')]),
    ('c01-reduce-pack-pos', ['C01'], [(A, FUNCTOOLS, "from functools import partial, reduce\nfrom operator import or_\n"), (A, RTYPE_BODY, REDUCE_BODY % 16)]),
    ('c06-allowed-bits-mask-wide', ['C02', 'C06'], [(A, CIL_GUARD, CIL_NEGMASK % '0b111111100', 0)]),
    ('c02-creg-by-mask-low', ['C02'], [(A, COMPRESSED_TAIL, CREG_MASK % 0)]),
    ('c01-slide-in-place-short', ['C01'], [(A, ITYPE_MASK_TAIL, ITYPE_SLIDE % '0x7ff00000')]),
    ('c02-helper-classes-pos', ['C02'], oo(4)),
    # the guard of one fence set tests the other operand (copy / paste): the 12-bit check of i_type on the composite
    # fm << 8 | pred << 4 | succ is all that is left for pred
    ('c06-fence-pred-negative-unguarded', ['C01', 'C06'], [(A, FENCE_PRED_GUARD, "    if succ < 0b0000 or pred > 0b1111:\n" + FENCE_PRED_RAISE)]),
    ('c06-fence-pred-upper-unguarded', ['C01', 'C06'], [(A, FENCE_PRED_GUARD, "    if pred < 0b0000 or succ > 0b1111:\n" + FENCE_PRED_RAISE)]),
    ('c06-fence-merged-guard-slip', ['C01', 'C06'], [(A, FENCE_SUCC_GUARD, ""),
                                                     (A, FENCE_PRED_GUARD, "    if not (0 <= succ <= 0b1111 and 0 <= succ and pred <= 0b1111):\n" + FENCE_PRED_RAISE)]),
    ('c01-map-lookup-order', ['C01'], rlook("map(lookup_register, (rd, rs2, rs1))")),
    ('c01-listcomp-lookup-order', ['C01'], rlook("[lookup_register(x) for x in (rs1, rd, rs2)]")),
    ('c13-fallback-key-base10', ['C13'], fallback_key("int(reg)")),
    ('c06-immrange-class-step-hi', ['C02', 'C06'], immrange_step(hi=259)),
    ('c06-immrange-class-step-2', ['C02', 'C06'], immrange_step(step=2)),
    ('c06-immrange-class-hi', ['C01', 'C06'], immrange_plain('0xfff')),
    ('c02-shared-tail-first-field', ['C02'], shared_tail(first='rs1')),
    ('c02-shared-tail-rs1-pos', ['C02'], shared_tail(rs1_pos=8)),
    ('c02-local-lambda-field-shift', ['C02'], [(A, CIW_FIELDS, CIW_LAMBDA % 3)]),
    ('c01-pack-fields-varargs-pos', ['C01'], [(A, RTYPE_DEF, PACK_FIELDS + RTYPE_DEF), (A, RTYPE_BODY, "    return pack_fields(opcode, (rd, 7), (funct3, 12), (rs1, 14), (rs2, 20), (funct7, 25))")]),
    ('c02-sext-xor-form-width', ['C02', 'C06'], [(A, CLUI_WINDOW[0], CLUI_WINDOW[1].replace('sign_extend(imm, 20)', 'sign_extend(imm, 21)')),
                                                 (A, SEXT_BODY, "    low_bits = value & (2 * sign_bit - 1)\n    return (low_bits ^ sign_bit) - sign_bit\n")]),
    ('c01-table-built-by-helper-entry', ['C01', 'C13'], built_table("number if key != 't6' else 30")),
    ('c02-constant-table-entry', ['C02'], const_table('imm_4')),
    ('c01-fence-letter-order', ['C01'], letters('iorw')),
    ('c01-fence-letters-repeated', ['C01'], letters('wroi', 'flags')),
    ('c01-binding-helper-opcode', ['C01'], [(A, ADD_BINDING, "def alu_op(*, funct3, funct7):\n    return partial(r_type, opcode=0b0010011, funct3=funct3, funct7=funct7)\n\n\nADD        = alu_op(funct3=0b000, funct7=0b0000000)")]),
    # the table lookup, not the conversion, is wrapped: a spelling that is no key is no longer refused
    ('c06-suppress-lookup', ['C01', 'C06'], [(A, IMPORT_ANCHOR, "import contextlib\n" + IMPORT_ANCHOR),
                                             (A, TABLE_TRY, "    with contextlib.suppress(KeyError):\n        reg = REGISTERS[reg]\n")]),
    # int operands raise TypeError, which is not suppressed: ecall / fence (pre-bound rd=0, rs1=0) can never be encoded
    ('c01-suppress-valueerror', ['C01'], suppress_conv('ValueError')),
    ('c02-generator-split-bits-widths', ['C02'], gen_split("split_bits(imm, 3, 2, 1)")),
    ('c02-generator-split-bits-msb-first', ['C02'], gen_split(stmt="    imm_7_6, imm_5, imm_4_2 = split_bits(imm, 3, 1, 2)\n")),
    ('c02-closure-message-value', ['C02', 'C06'], [(A, CNOT, CNOT_MSG.replace('fields[field] == value', 'fields[field] != value'))]),
]

BREAKING += [
    # `except ValueError:` around int(reg, base=0): an *int* register (the pre-bound rd=0 / rs1=0 of ecall, ebreak, fence, fence.i)
    # raises TypeError, so those four mnemonics can never be encoded.  Listed as "undecided" until round 7: the no-verdict for the
    # open spellings of `add` ended the run before the always-refused bindings were reported (a masked verdict; confirmed by running
    # the edited function: ECALL() -> TypeError)
    ('c01-enc-except-valueerror', ['C01'], [(A, INT_TRY, "    except ValueError:\n        pass\n\n    # at this point")]),
]

UNDECIDED = [
    # a generator kept in a variable runs when it is consumed, not where it is created
    ('u-enc-generator-stored', ['C02'], gen_split(stmt="    fields = split_bits(imm, 3, 1, 2)\n    imm_4_2, imm_5, imm_7_6 = fields\n")),
    # a table entry whose bit is the exclusive-or of two index bits has no single-bit provenance
    ('u-enc-constant-table-xor', ['C02'], const_table('(imm_6 ^ imm_4)')),
    # successor unguarded below: (pred << 4) | succ with a negative low part is not a sum of fields, no closed form in the domain
    ('u-enc-fence-succ-negative-unguarded', ['C06'], [(A, FENCE_SUCC_GUARD, "    if pred < 0b0000 or succ > 0b1111:\n        raise ValueError('invalid successor value for FENCE instruction: {}'.format(succ))\n")]),
    # overlapping fields added with carries: not a bit-disjoint union, no closed form in the domain
    ('u-enc-fields-by-arithmetic-overlap', ['C01'], [(A, FENCE_IMM, "    imm = fm * 256 + pred * 8 + succ\n")]),
]
