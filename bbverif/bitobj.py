"""Plain classes of the analysed module used as helpers by the encoders (bit-field / immediate-spec objects):
instances, attribute stores in __init__ and methods, bound methods, properties, static methods, single inheritance with
super().  Attributes of live instances are kept in the state's heap; module-level constant objects are frozen."""
import ast

from .astutil import unparse, dotted
from .bitcells import Unsupported, FuncValue, ClassValue, Obj, BoundMethod, Record, RecordType, TOP

REFUSED_DUNDERS = {'__new__', '__getattr__', '__getattribute__', '__setattr__', '__delattr__', '__get__', '__set__',
                   '__init_subclass__', '__class_getitem__', '__bool__', '__len__', '__eq__', '__hash__', '__del__'}


class Super:
    def __init__(self, obj, after):
        self.obj, self.after = obj, after


class ObjMixin:
    def class_value(self, cdef):
        try:
            return self.record_class(cdef)
        except Unsupported as first:
            try:
                return self.plain_class(cdef)
            except Unsupported:
                raise first

    def plain_class(self, cdef):
        if cdef.decorator_list or cdef.keywords:
            raise Unsupported('class {} is decorated or has a metaclass'.format(cdef.name))
        for cname in self.class_mro(cdef.name):
            node = self.facts.classes[cname].node
            if cname in self.model.attr_store_bases:
                raise Unsupported('attributes of class {} are assigned at run time'.format(cname))
            if node.decorator_list or node.keywords:
                raise Unsupported('class {} is decorated or has a metaclass'.format(cname))
            for s in node.body:
                if isinstance(s, ast.FunctionDef) and s.name in REFUSED_DUNDERS:
                    raise Unsupported('class {} defines {}'.format(cname, s.name))
                if not isinstance(s, (ast.FunctionDef, ast.Assign, ast.Pass, ast.Expr)):
                    raise Unsupported('class {} has a member of kind {}'.format(cname, type(s).__name__))
        return ClassValue(cdef)

    def class_mro(self, cname):
        """linearisation for single inheritance among classes of the module"""
        out = []
        cur = cname
        while True:
            if cur in out:
                raise Unsupported('inheritance cycle at class {}'.format(cur))
            ci = self.facts.classes.get(cur)
            if ci is None or not self.model.stable(cur):
                raise Unsupported('class {} is not a single module-level class'.format(cur))
            out.append(cur)
            bases = [b for b in ci.bases if b != 'object']
            if not bases:
                return out
            if len(bases) > 1 or bases[0] is None or bases[0] not in self.facts.classes:
                raise Unsupported('class {} has bases outside single inheritance from module classes: {}'.format(cur, ci.bases))
            cur = bases[0]

    def find_member(self, cname, name, after=None):
        mro = self.class_mro(cname)
        if after is not None:
            mro = mro[mro.index(after) + 1:] if after in mro else []
        for c in mro:
            for s in self.facts.classes[c].node.body:
                if isinstance(s, ast.FunctionDef) and s.name == name:
                    return ('func', s, c)
                if isinstance(s, ast.Assign) and any(isinstance(t, ast.Name) and t.id == name for t in s.targets):
                    return ('attr', s.value, c)
        return None

    def instantiate(self, cls, args, kwargs, st, node):
        obj = Obj(cls)
        st.heap[obj.oid] = {}
        m = self.find_member(cls.name, '__init__')
        if m is None:
            if args or kwargs:
                raise Unsupported('{}() takes no arguments'.format(cls.name))
            return obj
        if m[0] != 'func':
            raise Unsupported('{}.__init__ is not a method'.format(cls.name))
        self.run_function(FuncValue(m[1], None, '{}.__init__'.format(m[2])), [obj] + list(args), kwargs, st)
        return None if st.dead else obj

    def obj_attrs(self, obj, st):
        if obj.frozen is not None:
            return obj.frozen
        if obj.oid not in st.heap:
            raise Unsupported('instance {} is not known on this path'.format(obj))
        return st.heap[obj.oid]

    def get_attr(self, obj, name, st, node):
        after = None
        if isinstance(obj, Super):
            obj, after = obj.obj, obj.after
        attrs = self.obj_attrs(obj, st)
        if after is None and name in attrs:
            v = attrs[name]
            if v is TOP:
                raise Unsupported('attribute {} has different abstract values on joined paths'.format(name))
            return v
        m = self.find_member(obj.cls.name, name, after)
        if m is None:
            raise Unsupported('attribute {} of {} is not defined on this path'.format(name, obj))
        kind, what, owner = m
        if kind == 'attr':
            return self.default_value(what, self.facts.classes[owner].node)
        decos = [dotted(d) for d in what.decorator_list]
        label = '{}.{}'.format(owner, name)
        if not decos:
            return BoundMethod(obj, what, label)
        if decos == ['property']:
            return self.call_def(what, label, [obj], {}, st)
        if decos == ['staticmethod']:
            return FuncValue(self.undecorated(what), None, label)
        raise Unsupported('method {} is decorated with {}'.format(label, decos))

    def undecorated(self, fdef):
        if not hasattr(fdef, '_bitdom_plain'):
            clone = ast.FunctionDef(name=fdef.name, args=fdef.args, body=fdef.body, decorator_list=[], returns=None, type_comment=None)
            ast.copy_location(clone, fdef)
            clone._parent = getattr(fdef, '_parent', None)
            fdef._bitdom_plain = clone
        return fdef._bitdom_plain

    def call_def(self, fdef, label, args, kwargs, st):
        return self.run_function(FuncValue(self.undecorated(fdef) if fdef.decorator_list else fdef, None, label), args, kwargs, st)

    def set_attr(self, obj, name, v, st, node):
        if isinstance(obj, Super) or not isinstance(obj, Obj):
            raise Unsupported('attribute store on {}'.format(obj))
        if obj.frozen is not None:
            raise Unsupported('attribute {} of a module-level object is written by a function'.format(name))
        m = self.find_member(obj.cls.name, name)
        if m is not None and m[0] == 'func':
            raise Unsupported('attribute store over the method / property {}.{}'.format(obj.cls.name, name))
        self.obj_attrs(obj, st)[name] = v

    def call_object(self, callee, args, kwargs, st, node):
        """call of a class, a bound method or an instance with __call__"""
        if isinstance(callee, (ClassValue,)):
            return self.instantiate(callee, args, kwargs, st, node)
        if isinstance(callee, BoundMethod):
            return self.call_def(callee.fdef, callee.label, [callee.obj] + list(args), kwargs, st)
        if isinstance(callee, Obj):
            m = self.find_member(callee.cls.name, '__call__')
            if m is None or m[0] != 'func' or m[1].decorator_list:
                raise Unsupported('call of an instance of {} without __call__'.format(callee.cls.name))
            return self.call_def(m[1], '{}.__call__'.format(m[2]), [callee] + list(args), kwargs, st)
        raise Unsupported('call of {}'.format(callee))

    def super_value(self, node, st):
        if node.args or node.keywords:
            raise Unsupported('super() with arguments')
        for fdef in reversed(self.def_stack):
            parent = getattr(fdef, '_parent', None)
            if isinstance(parent, ast.ClassDef) and not isinstance(fdef, ast.Lambda) and fdef.args.args:
                obj = st.env.get(fdef.args.args[0].arg)
                if isinstance(obj, Obj):
                    return Super(obj, parent.name)
            break
        raise Unsupported('super() outside a method')

    def freeze(self, v, st, seen=None):
        """module-level constant objects carry their attributes themselves"""
        seen = seen if seen is not None else set()
        if isinstance(v, Obj):
            if v.oid in seen:
                return
            seen.add(v.oid)
            if v.frozen is None:
                v.frozen = dict(st.heap.get(v.oid, {}))
            for x in v.frozen.values():
                self.freeze(x, st, seen)
        elif isinstance(v, BoundMethod):
            self.freeze(v.obj, st, seen)
        elif isinstance(v, list):
            for x in v:
                self.freeze(x, st, seen)
        elif isinstance(v, dict):
            for x in v.values():
                self.freeze(x, st, seen)
        elif isinstance(v, Record):
            for x in v.values.values():
                self.freeze(x, st, seen)
