"""Purity / determinism effect rules (C16), usable on any module tree (the repo and the positive fixture)."""
import ast

from .astutil import unparse, dotted, walk_no_nested

MUTATORS = {'append', 'extend', 'insert', 'update', 'add', 'pop', 'remove', 'clear', 'setdefault', 'popitem', 'sort', 'reverse',
            'discard', '__setitem__', '__delitem__', 'appendleft', 'popleft', 'difference_update', 'intersection_update',
            'symmetric_difference_update'}
AMBIENT_CALLS = {'time.time', 'time.monotonic', 'time.perf_counter', 'time.time_ns', 'datetime.now', 'datetime.datetime.now',
                 'datetime.utcnow', 'datetime.date.today', 'uuid.uuid4', 'uuid.uuid1', 'os.getpid', 'os.urandom', 'id', 'hash',
                 'os.getenv', 'os.environ.get', 'socket.gethostname', 'getpass.getuser'}
UNSORTED_LISTING = {'os.listdir', 'glob.glob', 'os.scandir', 'glob.iglob', 'os.walk'}


def module_level_mutables(tree):
    """{name: kind} for module-level dict / set / list objects and classes."""
    out = {}
    for st in tree.body:
        if isinstance(st, ast.Assign):
            for t in st.targets:
                if isinstance(t, ast.Name):
                    v = st.value
                    if isinstance(v, (ast.Dict, ast.DictComp)):
                        out[t.id] = 'dict'
                    elif isinstance(v, (ast.Set, ast.SetComp)):
                        out[t.id] = 'set'
                    elif isinstance(v, (ast.List, ast.ListComp)):
                        out[t.id] = 'list'
                    elif isinstance(v, ast.Call) and dotted(v.func) in ('dict', 'set', 'list', 'collections.OrderedDict', 'defaultdict', 'collections.defaultdict'):
                        out[t.id] = {'dict': 'dict', 'set': 'set', 'list': 'list'}.get(dotted(v.func), 'dict')
        elif isinstance(st, ast.ClassDef):
            out[st.name] = 'class'
    return out


_LOCALS = {}


def local_names(fn):
    """Names that are local to the function (parameters and assigned names not declared global); memoised per node."""
    if id(fn) not in _LOCALS:
        _LOCALS[id(fn)] = _local_names(fn)
    return _LOCALS[id(fn)]


def _local_names(fn):
    out = {a.arg for a in fn.args.args + fn.args.kwonlyargs}
    if fn.args.vararg:
        out.add(fn.args.vararg.arg)
    if fn.args.kwarg:
        out.add(fn.args.kwarg.arg)
    glob = set()
    for n in walk_no_nested(fn):
        if isinstance(n, ast.Global):
            glob.update(n.names)
    for n in walk_no_nested(fn):
        if isinstance(n, ast.Name) and isinstance(n.ctx, (ast.Store, ast.Del)):
            out.add(n.id)
        if isinstance(n, (ast.FunctionDef, ast.ClassDef)):
            out.add(n.name)
    return out - glob, glob


PARAM_SETS = {}     # id(FunctionDef) -> set of parameter names that receive set-kinded arguments at some call site


def set_kinded(node, fn, module_sets, depth=0):
    if isinstance(node, ast.Name) and fn is not None and node.id in PARAM_SETS.get(id(fn), ()):
        return True
    if isinstance(node, (ast.Set, ast.SetComp)):
        return True
    if isinstance(node, ast.Call) and dotted(node.func) in ('set', 'frozenset'):
        return True
    if isinstance(node, ast.BinOp) and isinstance(node.op, (ast.BitAnd, ast.BitOr, ast.Sub, ast.BitXor)):
        # set algebra, also on dict views: d.items() | e.items() and d.keys() & e.keys() are plain sets
        view = lambda x: isinstance(x, ast.Call) and isinstance(x.func, ast.Attribute) and x.func.attr in ('items', 'keys') and not x.args and not x.keywords
        return set_kinded(node.left, fn, module_sets, depth) or set_kinded(node.right, fn, module_sets, depth) or view(node.left) or view(node.right)
    if isinstance(node, ast.Call) and isinstance(node.func, ast.Attribute) and node.func.attr in ('union', 'intersection', 'difference', 'symmetric_difference', 'copy') \
            and set_kinded(node.func.value, fn, module_sets, depth):
        return True
    if isinstance(node, ast.Name) and depth < 3:
        locs, _ = local_names(fn) if fn is not None else (set(), set())
        if node.id in locs and fn is not None:
            defs = [st.value for st in walk_no_nested(fn) if isinstance(st, ast.Assign) and any(isinstance(t, ast.Name) and t.id == node.id for t in st.targets)]
            return bool(defs) and all(set_kinded(d, fn, module_sets, depth + 1) for d in defs)
        return node.id in module_sets
    return False


def pinned_globals(g, fn, module_tree=None, depth=0):
    """Is the globals argument of eval() a dict display that pins `__builtins__` to None / {} - written in place, through a local
    bound once to such a display, or through a module-level constant holding one (writes into module-level objects are R16.1's
    business)?"""
    if g is None or depth > 3:
        return False
    if isinstance(g, ast.Dict):
        return any(isinstance(k, ast.Constant) and k.value == '__builtins__' and
                   ((isinstance(v, ast.Constant) and v.value is None) or (isinstance(v, ast.Dict) and not v.keys))
                   for k, v in zip(g.keys, g.values))
    if isinstance(g, ast.Call) and dotted(g.func) == 'dict' and not g.args:
        return any(k.arg == '__builtins__' and ((isinstance(k.value, ast.Constant) and k.value.value is None) or (isinstance(k.value, ast.Dict) and not k.value.keys))
                   for k in g.keywords)
    if isinstance(g, ast.Name):
        locs, _ = local_names(fn)
        if g.id in locs:
            defs = [st.value for st in walk_no_nested(fn) if isinstance(st, ast.Assign) and any(isinstance(t, ast.Name) and t.id == g.id for t in st.targets)]
            return len(defs) == 1 and pinned_globals(defs[0], fn, module_tree, depth + 1)
        if module_tree is not None:
            defs = [st.value for st in module_tree.body if isinstance(st, ast.Assign) and any(isinstance(t, ast.Name) and t.id == g.id for t in st.targets)]
            return len(defs) == 1 and pinned_globals(defs[0], fn, None, depth + 1)
    return False


def check_function(qual, fn, mutables, module_sets, emit, is_entry_like=False, module_tree=None):
    """emit(rule, node, message)"""
    locs, glob = local_names(fn)
    for n in walk_no_nested(fn):
        if isinstance(n, ast.Global):
            emit('R16.1.module-state', n, 'function declares module names global: {}'.format(', '.join(n.names)))
    # aliases of module-level mutables
    alias = {}
    for n in walk_no_nested(fn):
        if isinstance(n, ast.Assign) and isinstance(n.value, ast.Name) and n.value.id in mutables and n.value.id not in locs:
            for t in n.targets:
                if isinstance(t, ast.Name):
                    alias[t.id] = n.value.id

    def module_obj(node):
        if isinstance(node, ast.Name):
            if node.id in alias:
                return alias[node.id]
            if node.id in mutables and node.id not in locs:
                return node.id
        return None
    for n in walk_no_nested(fn):
        tgts = []
        if isinstance(n, ast.Assign):
            tgts = n.targets
        elif isinstance(n, (ast.AugAssign, ast.AnnAssign)):
            tgts = [n.target]
        elif isinstance(n, ast.Delete):
            tgts = n.targets
        for t in tgts:
            for sub in ast.walk(t):
                if isinstance(sub, (ast.Subscript, ast.Attribute)) and isinstance(sub.ctx, (ast.Store, ast.Del)):
                    m = module_obj(sub.value)
                    if m:
                        emit('R16.1.module-state', n, 'writes into the module-level object {} at call time'.format(m))
                if isinstance(sub, ast.Attribute) and isinstance(sub.ctx, ast.Store) and isinstance(sub.value, ast.Name) \
                        and sub.value.id not in locs and sub.value.id not in mutables and sub.value.id not in ('self', 'cls'):
                    emit('R16.2.function-state', n, 'stores state on the module-level object {} (function attribute / memo)'.format(sub.value.id))
        if isinstance(n, ast.Call) and isinstance(n.func, ast.Attribute) and n.func.attr in MUTATORS:
            m = module_obj(n.func.value)
            if m:
                emit('R16.1.module-state', n, 'mutates the module-level object {} with .{}() at call time'.format(m, n.func.attr))
        if isinstance(n, ast.Call) and dotted(n.func) in ('ChainMap', 'collections.ChainMap') and n.args:
            m = module_obj(n.args[0])
            if m:
                emit('R16.1.module-state', n, 'ChainMap puts the module-level {} in the writable first position'.format(m))
    # defaults
    for d in list(fn.args.defaults) + [k for k in fn.args.kw_defaults if k is not None]:
        if isinstance(d, (ast.List, ast.Dict, ast.Set, ast.ListComp, ast.DictComp, ast.SetComp)) or \
                (isinstance(d, ast.Call) and dotted(d.func) in ('list', 'dict', 'set', 'bytearray', 'collections.defaultdict', 'defaultdict')):
            emit('R16.2.mutable-default', d, 'mutable default argument {} is shared between calls'.format(unparse(d)))
    for dec in fn.decorator_list:
        name = dotted(dec.func) if isinstance(dec, ast.Call) else dotted(dec)
        if name and name.split('.')[-1] in ('lru_cache', 'cache', 'cached_property', 'memoize'):
            emit('R16.2.function-state', dec, 'function results are memoised across calls ({})'.format(name))
    # set iteration
    def set_iter(node, what):
        if set_kinded(node, fn, module_sets):
            emit('R16.4.hash-order', node, '{} a set ({}): order depends on the interpreter\'s hash seed'.format(what, unparse(node)[:60]))
    for n in walk_no_nested(fn):
        if isinstance(n, ast.For):
            set_iter(n.iter, 'iterates over')
        if isinstance(n, (ast.ListComp, ast.GeneratorExp, ast.DictComp)):
            for g in n.generators:
                set_iter(g.iter, 'iterates over')
        if isinstance(n, ast.Call) and dotted(n.func) in ('list', 'tuple', 'next', 'iter', 'enumerate', 'zip') and n.args:
            set_iter(n.args[0], 'materialises')
        if isinstance(n, ast.Call) and dotted(n.func) in ('dict', 'collections.OrderedDict', 'OrderedDict') and n.args:
            # dict(<set of pairs>): for a key that occurs twice the pair iterated last wins
            set_iter(n.args[0], 'builds a dict from')
        if isinstance(n, ast.Call) and isinstance(n.func, ast.Attribute) and n.func.attr == 'join' and n.args:
            set_iter(n.args[0], 'joins')
        if isinstance(n, ast.Call) and isinstance(n.func, ast.Attribute) and n.func.attr == 'pop' and not n.args:
            set_iter(n.func.value, 'pops from')
        if isinstance(n, ast.Starred):
            set_iter(n.value, 'unpacks')
    # ambient inputs
    for n in walk_no_nested(fn):
        if isinstance(n, ast.Call):
            d = dotted(n.func)
            if d in AMBIENT_CALLS or (d and d.startswith('random.')):
                emit('R16.5.ambient', n, 'result depends on an ambient input: {}()'.format(d))
            if d in UNSORTED_LISTING:
                par = getattr(n, '_parent', None)
                if not (isinstance(par, ast.Call) and dotted(par.func) == 'sorted'):
                    emit('R16.5.ambient', n, 'directory listing order is not defined: {}() without sorted()'.format(d))
            if d == 'os.getcwd':
                emit('R16.5.cwd', n, 'consults the process working directory')
            if d == 'eval' or d == 'exec':
                g = n.args[1] if len(n.args) > 1 else next((k.value for k in n.keywords if k.arg == 'globals'), None)
                if not pinned_globals(g, fn, module_tree):
                    emit('R16.6.eval-sandbox', n, 'eval() globals are not a dict that pins __builtins__: user expressions can reach interpreter state')
        if isinstance(n, ast.Attribute) and dotted(n) == 'os.environ':
            emit('R16.5.ambient', n, 'reads the process environment')
