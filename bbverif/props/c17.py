"""C17 - the command line writes exactly the assembled program, or nothing on failure."""
import ast

from ..core import Report, Finding, AnalysisError
from ..facts import Facts
from ..astutil import unparse, dotted
from ..pathwalk import Walker, PathState, show, is_const, C
from ..immsites import contains, find_all
from ..dfurules import strip

LEVEL = 'other'


def classify(path):
    """Ordered CLI events: ('ASM', i, node, sym) ('W', i, node, (path sym, mode)) ('ENDW', ...) ('FAIL', ...) ('WRITE', ...) ('HEX', ...)"""
    out = []
    open_stack = []
    for i, ev in enumerate(path.events):
        k = ev[0]
        v = strip(ev[1]) if k in ('value', 'expr', 'with') and isinstance(ev[1], tuple) else None
        if k in ('value', 'expr') and v is not None and v[0] == 'call' and v[1] == 'assemble':
            out.append(('ASM', i, ev[2], ev[1]))
        elif k == 'with' and v is not None and v[0] == 'call' and v[1] == 'open':
            mode = v[2][1] if len(v[2]) > 1 else dict(v[3]).get('mode', C('r'))
            if is_const(mode) and any(c in mode[1] for c in 'wax+'):
                out.append(('W', i, ev[2], (v[2][0], mode[1])))
                open_stack.append(True)
            else:
                open_stack.append(False)
        elif k == 'endwith':
            if open_stack and open_stack.pop():
                out.append(('ENDW', i, ev[2], None))
        elif k in ('value', 'expr') and v is not None and v[0] == 'call' and v[1] == 'open':
            mode = v[2][1] if len(v[2]) > 1 else dict(v[3]).get('mode', C('r'))
            if is_const(mode) and any(c in mode[1] for c in 'wax+'):
                out.append(('W', i, ev[2], (v[2][0], mode[1])))
        elif k in ('value', 'expr') and v is not None and v[0] == 'call' and v[1].split('.')[-1] == 'bin2hex':
            out.append(('HEX', i, ev[2], v[2]))
        elif k == 'mcall' and ev[2] in ('write', 'writelines'):
            out.append(('WRITE', i, ev[5], (ev[1], ev[2], ev[3])))
        elif k == 'raise':
            out.append(('FAIL', i, ev[2], ev[1]))
    return out


def exit_arg_ok(exc):
    """raise SystemExit(x) with x neither None nor 0 / empty."""
    if exc[0] not in ('call', 'new') or exc[1] != 'SystemExit':
        return exc[0] in ('call', 'new', 'exc', 'name')     # another exception: non-zero exit by traceback
    if not exc[2]:
        return False
    a = exc[2][0]
    if is_const(a):
        return bool(a[1]) and a[1] is not True
    return True


def run(repo, tier):
    facts = Facts(repo.asm)
    rep = Report('C17', LEVEL,
                 'Side-effect ordering on the symbolically enumerated paths of asm.cli_main: events ASM (the assemble call), W (opening a '
                 'path for writing, bin2hex), FAIL (raise SystemExit / conversion of a user-input error).  No FAIL after any W and ASM before '
                 'every W on every path (no-clobber); the -o handle is opened in binary mode and receives exactly the value returned by '
                 'assemble, once; the -l lines come from labels.items() of the very dict passed as labels= to assemble; bin2hex runs after '
                 'the binary\'s with-block has closed with int(hex_offset, 0); AssemblerError is turned into a failing SystemExit and no '
                 'handler swallows an exception; option wiring -c / -i / -o / -l.')
    rep.trusted_base = ['CPython ast', 'bbverif.pathwalk', 'intelhex.bin2hex (third party) writes the same bytes at the given offset']
    rep.not_decided = ['failures of the operating system while writing (disk full, unwritable second file)', 'correctness of intelhex.bin2hex']
    fn = facts.funcs.get('cli_main')
    if fn is None:
        raise AnalysisError('anchor vanished: asm.cli_main')
    w = Walker(facts, name_results=True)
    paths = w.run(fn.body, PathState())
    rep.count('paths through cli_main', len(paths))
    n_w = 0
    for p in paths:
        evs = classify(p)
        asm = [e for e in evs if e[0] == 'ASM']
        ws = [e for e in evs if e[0] in ('W', 'HEX')]
        first_w = min([e[1] for e in ws], default=None)
        for kind, i, node, data in evs:
            if kind == 'FAIL' and first_w is not None and i > first_w:
                wnode = [e for e in ws if e[1] < i][0][2]
                rep.fail(Finding('R17.1.no-clobber', 'cli_main', node,
                                 'this failing exit is reachable after an output file has already been opened for writing (line {}): a run that fails leaves '
                                 'existing output files overwritten'.format(wnode.lineno), line=node.lineno), instance='FAIL after W')
            if kind in ('W', 'HEX'):
                n_w += 1
                ok = bool(asm) and asm[0][1] < i
                rep.check(ok, 'R17.1.asm-first', 'assemble() completes before {} is written'.format(show(data[0]) if kind == 'W' else 'the hex file'),
                          lambda node=node: Finding('R17.1.asm-first', 'cli_main', node, 'an output file is opened before the program has been assembled: a failing assembly clobbers it', line=node.lineno))
        if ws and not any(e[0] == 'FAIL' and e[1] > first_w for e in evs):
            rep.ok('R17.1.no-clobber', 'no failing exit after the first write on any path')
        # exactness of the binary
        if asm:
            binary = None
            for nm, v in p.env.items():
                if isinstance(v, tuple) and v and v[0] == 'res' and strip(v) == strip(asm[0][3]):
                    binary = v
            outs = [e for e in evs if e[0] == 'W' and e[3][0] == ('attr', p.env.get('args', ('name', 'args')), 'output')]
            for kind, i, node, (path_sym, mode) in outs:
                rep.check(mode == 'wb', 'R17.2.binary-mode', '-o file opened in binary write mode',
                          lambda node=node, mode=mode: Finding('R17.2.binary-mode', 'cli_main', node, 'the output file is opened with mode {!r} instead of \'wb\''.format(mode), line=node.lineno))
                endw = [e for e in evs if e[0] == 'ENDW' and e[1] > i]
                upto = endw[0][1] if endw else 10 ** 9
                writes = [e for e in evs if e[0] == 'WRITE' and i < e[1] < upto and e[3][1] == 'write']
                good = len(writes) == 1 and binary is not None and writes[0][3][2] == (binary,)
                rep.check(good, 'R17.2.exact', 'the -o handle receives the value returned by assemble(), once',
                          lambda node=node, writes=writes: Finding('R17.2.exact', 'cli_main', writes[0][2] if writes else node,
                                                                   'what is written to the output file is not exactly the assembled program: {}'.format(
                                                                       [show(x) for x in writes[0][3][2]] if writes else 'nothing'), line=node.lineno))
            # labels
            lab_w = [e for e in evs if e[0] == 'W' and e[3][0] == ('attr', p.env.get('args', ('name', 'args')), 'labels')]
            asm_call = strip(asm[0][3])
            passed = dict(asm_call[3]).get('labels')
            for kind, i, node, (path_sym, mode) in lab_w:
                endw = [e for e in evs if e[0] == 'ENDW' and e[1] > i]
                upto = endw[0][1] if endw else 10 ** 9
                writes = [e for e in evs if e[0] == 'WRITE' and i < e[1] < upto]
                good = False
                why = 'nothing is written'
                if writes:
                    arg = writes[0][3][2][0]
                    comps = find_all(arg, lambda t: t[0] == 'comp')
                    if arg[0] == 'comp':
                        comps = [arg]
                    why = 'the lines are not produced from the label table handed to assemble()'
                    for cmp_ in comps:
                        it = cmp_[4]
                        if it[0] == 'mcall' and it[2] == 'items' and passed is not None and it[1] == passed and not cmp_[5]:
                            names = cmp_[3].split(',')
                            elt = cmp_[2]
                            uses = all(contains(elt, ('var', n)) for n in names) and len(names) == 2
                            nl = contains(elt, C('\n')) or any(is_const(t) and isinstance(t[1], str) and '\n' in t[1] for t in find_all(elt, lambda t: t[0] == 'const'))
                            good = uses and nl
                            why = 'a label line does not contain both the name and the address, or is not newline terminated'
                rep.check(good, 'R17.3.labels', '-l file: one line per item of the dict passed as labels= to assemble()',
                          lambda node=node, why=why: Finding('R17.3.labels', 'cli_main', node, why, line=node.lineno))
            # hex
            for kind, i, node, hargs in [e for e in evs if e[0] == 'HEX']:
                opened = [e for e in evs if e[0] == 'W' and e[1] < i and e[3][0] == ('attr', p.env.get('args', ('name', 'args')), 'output')]
                closed = [e for e in evs if e[0] == 'ENDW' and opened and opened[0][1] < e[1] < i]
                rep.check(bool(opened) and bool(closed), 'R17.4.hex-after-close', 'bin2hex runs after the binary file is written and closed',
                          lambda node=node: Finding('R17.4.hex-after-close', 'cli_main', node, 'the hex file is produced before the binary file has been written and closed', line=node.lineno))
                a_out = ('attr', p.env.get('args', ('name', 'args')), 'output')
                off = strip(hargs[2]) if len(hargs) > 2 else None
                off_ok = off is not None and off[0] == 'call' and off[1] == 'int' and off[2] and off[2][0] == ('attr', p.env.get('args'), 'hex_offset') \
                    and dict(off[3]).get('base', off[2][1] if len(off[2]) > 1 else None) == C(0)
                src_ok = len(hargs) >= 2 and hargs[0] == a_out and hargs[1] == ('bin', '+', a_out, C('.hex'))
                rep.check(off_ok and src_ok, 'R17.4.hex-args', 'bin2hex(output, output + ".hex", int(hex_offset, 0))',
                          lambda node=node, hargs=hargs: Finding('R17.4.hex-args', 'cli_main', node, 'bin2hex is called with {}'.format([show(h) for h in hargs]), line=node.lineno))
            # R17.4 the hex file is produced whenever --hex-offset was given (and only then)
            a_hex = ('attr', p.env.get('args', ('name', 'args')), 'hex_offset')
            fh = p.facts.get(a_hex)
            given = fh.get('truthy') if fh else None
            hexes = [e for e in evs if e[0] == 'HEX']
            if p.end != 'raise' and given is True:
                rep.check(bool(hexes), 'R17.4.hex-produced', 'a successful run with --hex-offset writes the hex file',
                          lambda p=p: Finding('R17.4.hex-produced', 'cli_main', [e for e in evs if e[0] == 'W'][-1][2] if [e for e in evs if e[0] == 'W'] else asm[0][2],
                                              'there is a successful path on which --hex-offset was given but no Intel HEX file is written (the decision is taken on something other than '
                                              'the presence of the option, e.g. on the parsed value, so `--hex-offset 0` is skipped)', line=asm[0][2].lineno))
            if p.end != 'raise' and given is False:
                rep.check(not hexes, 'R17.4.hex-produced', 'no hex file without --hex-offset',
                          lambda: Finding('R17.4.hex-produced', 'cli_main', hexes[0][2], 'a hex file is written although --hex-offset was not given', line=hexes[0][2].lineno), nontrivial=False)
            # argument wiring
            kws = dict(asm_call[3])
            a = p.env.get('args', ('name', 'args'))
            rep.check(kws.get('compress') == ('attr', a, 'compress'), 'R17.5.wiring', '-c reaches assemble(compress=)',
                      lambda: Finding('R17.5.wiring', 'cli_main', asm[0][2], 'the -c option is not what assemble() receives as compress', line=asm[0][2].lineno), nontrivial=False)
            rep.check('include_dirs' in kws and kws['include_dirs'][0] != 'const', 'R17.5.wiring', '-i directories reach assemble(include_dirs=)',
                      lambda: Finding('R17.5.wiring', 'cli_main', asm[0][2], 'include directories are not passed to assemble()', line=asm[0][2].lineno), nontrivial=False)
    rep.analysed['write events on paths'] = n_w
    # failure status
    for t in [n for n in ast.walk(fn) if isinstance(n, ast.Try)]:
        for h in t.handlers:
            ends_raise = bool(h.body) and isinstance(h.body[-1], ast.Raise)
            rep.check(ends_raise, 'R17.5.no-swallow', 'handler `except {}` re-raises as a failing exit'.format(unparse(h.type) if h.type else ''),
                      lambda h=h: Finding('R17.5.no-swallow', 'cli_main', h, 'an exception handler swallows the error: the run continues and exits 0', line=h.lineno))
    asm_try = [t for t in ast.walk(fn) if isinstance(t, ast.Try) and any(isinstance(n, ast.Call) and dotted(n.func) == 'assemble' for b in t.body for n in ast.walk(b))]
    ok = False
    node = fn
    for t in asm_try:
        for h in t.handlers:
            if h.type is not None and unparse(h.type) in ('AssemblerError', 'Exception') and h.body and isinstance(h.body[-1], ast.Raise):
                exc = h.body[-1].exc
                node = h
                if isinstance(exc, ast.Call) and dotted(exc.func) == 'SystemExit' and exc.args:
                    a0 = exc.args[0]
                    ok = not (isinstance(a0, ast.Constant) and (a0.value is None or a0.value == 0 or a0.value == ''))
    rep.check(ok, 'R17.5.status', 'AssemblerError -> SystemExit(non-zero: the error itself)',
              lambda: Finding('R17.5.status', 'cli_main', node, 'an assembler error does not end the run with a non-zero exit status and its message', line=getattr(node, 'lineno', fn.lineno)))
    for p in paths:
        if p.end == 'raise':
            exc = p.events[-1][1]
            if exc[0] in ('call', 'new') and exc[1] == 'SystemExit':
                txt = show(exc)
                if 'version' in txt:
                    continue
                rep.check(exit_arg_ok(exc), 'R17.5.status', 'failing exit {} has a non-zero status'.format(txt[:50]),
                          lambda p=p, txt=txt: Finding('R17.5.status', 'cli_main', p.events[-1][2], 'this exit reports success (status 0 / no message): {}'.format(txt[:60]), line=p.events[-1][2].lineno), nontrivial=False)
    rep.floor('paths through cli_main', 8)
    rep.floor('write events on paths', 4)
    return rep
