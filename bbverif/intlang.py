"""Does a regular-expression test accept exactly the texts that int(text, 0) accepts?  (C13 R13.7)

Both sides are regular languages, so the question is decided, not sampled:

  * the pattern (a constant of the analysed module, never its code) is parsed with re._parser and translated into an epsilon-NFA;
    the way it is applied (fullmatch / match / search, a trailing `$` or `\\Z`, a leading `^`) becomes part of the language;
  * int(text, 0) is a hand-written DFA: optional surrounding whitespace, an optional sign, then `0[xX]`, `0[oO]`, `0[bB]` with digits
    of that radix, a non-zero decimal number, or zeros; single underscores between digits and after a radix prefix; non-ASCII decimal
    digits count with their value, non-ASCII whitespace is stripped like blanks;
  * the alphabet is every ASCII character plus one representative per class of non-ASCII characters that either side can tell apart
    (decimal digits by value class, whitespace, other word characters, everything else);
  * the product of the determinised NFA and the DFA is explored breadth-first; the first state pair that disagrees on acceptance
    yields a shortest witness text.

Both models are cross-checked against the library (`int` and `re` of this interpreter) on random texts over the alphabet before a
verdict is given; a disagreement is an AnalysisError (the model, not the analysed code, is wrong).  Constructs outside the regular
subset (back-references, look-around, atomic groups, possessive repeats, anchors inside the pattern, MULTILINE, non-ASCII literals)
raise Unsupported.
"""
import random
import re
import re._parser as sre_parse
import re._constants as sre
import unicodedata

from .core import AnalysisError


class Unsupported(Exception):
    pass


# ---------------------------------------------------------------------------------------------------------------------------
# alphabet
# ---------------------------------------------------------------------------------------------------------------------------
def _non_ascii_digit(value):
    for cp in range(0x660, 0x66a):          # ARABIC-INDIC DIGIT ZERO..NINE
        if unicodedata.decimal(chr(cp), None) == value:
            return chr(cp)
    raise AnalysisError('no non-ASCII decimal digit with value {} in this interpreter'.format(value))


NON_ASCII = [_non_ascii_digit(0), _non_ascii_digit(1), _non_ascii_digit(2), _non_ascii_digit(8),
             ' ',       # whitespace
             'é',       # a word character that is no decimal digit
             '€']       # neither word character nor whitespace
ALPHABET = [chr(c) for c in range(128)] + NON_ASCII


def in_token_domain(ch):
    """Characters of a token that the lexer split off at whitespace; non-ASCII decimal digits are left out as well (no number the
    expression evaluator accepts is spelled with them)."""
    return not ch.isspace() and not (ord(ch) > 127 and unicodedata.decimal(ch, None) is not None)


# ---------------------------------------------------------------------------------------------------------------------------
# int(text, 0)
# ---------------------------------------------------------------------------------------------------------------------------
INT_ACCEPTING = {'Z', 'ZZ', 'D', 'HX', 'OC', 'BN', 'T'}
_RADIX_DIGITS = {'HX': 16, 'OC': 8, 'BN': 2}


def _int_ws(ch):
    return ch in ' \t\n\r\x0b\x0c' or (ord(ch) > 127 and ch.isspace())


def _digit(ch):
    """Value of the character as a digit in some radix up to 16, or None."""
    d = unicodedata.decimal(ch, None)
    if d is not None:
        return d
    if ch in 'abcdef':
        return 10 + 'abcdef'.index(ch)
    if ch in 'ABCDEF':
        return 10 + 'ABCDEF'.index(ch)
    return None


def int_step(state, ch):
    """One step of the DFA of int(text, 0); None is the dead state."""
    d = _digit(ch)
    if state == 'S':                       # leading whitespace
        if _int_ws(ch):
            return 'S'
        if ch in '+-':
            return 'N'
        state = 'N'
    if state == 'N':                       # a number has to start here
        if d == 0:
            return 'Z'
        if d is not None and d <= 9:
            return 'D'
        return None
    if state == 'Z':                       # a single zero so far
        if ch in 'xX':
            return 'HX0'
        if ch in 'oO':
            return 'OC0'
        if ch in 'bB':
            return 'BN0'
        state = 'ZZ'
    if state == 'ZZ':                      # zeros
        if d == 0:
            return 'ZZ'
        if ch == '_':
            return 'ZU'
        return 'T' if _int_ws(ch) else None
    if state == 'ZU':
        return 'ZZ' if d == 0 else None
    if state == 'D':
        if d is not None and d <= 9:
            return 'D'
        if ch == '_':
            return 'DU'
        return 'T' if _int_ws(ch) else None
    if state == 'DU':
        return 'D' if d is not None and d <= 9 else None
    for acc in ('HX', 'OC', 'BN'):
        radix = _RADIX_DIGITS[acc]
        if state == acc + '0':             # right after the prefix: one optional underscore, then a digit
            if ch == '_':
                return acc + 'U'
            return acc if d is not None and d < radix else None
        if state == acc + 'U':
            return acc if d is not None and d < radix else None
        if state == acc:
            if d is not None and d < radix:
                return acc
            if ch == '_':
                return acc + 'U'
            return 'T' if _int_ws(ch) else None
    if state == 'T':
        return 'T' if _int_ws(ch) else None
    return None


def int_accepts(text):
    st = 'S'
    for ch in text:
        st = int_step(st, ch)
        if st is None:
            return False
    return st in INT_ACCEPTING


# ---------------------------------------------------------------------------------------------------------------------------
# regular expression -> epsilon-NFA
# ---------------------------------------------------------------------------------------------------------------------------
class NFA:
    def __init__(self):
        self.trans = []      # state -> [(predicate, target)]
        self.eps = []        # state -> [target]

    def new(self):
        self.trans.append([])
        self.eps.append([])
        if len(self.trans) > 6000:
            raise Unsupported('pattern too large')
        return len(self.trans) - 1

    def closure(self, states):
        out = set(states)
        todo = list(states)
        while todo:
            s = todo.pop()
            for t in self.eps[s]:
                if t not in out:
                    out.add(t)
                    todo.append(t)
        return frozenset(out)

    def step(self, states, ch):
        nxt = set()
        for s in states:
            for pred, t in self.trans[s]:
                if pred(ch):
                    nxt.add(t)
        return self.closure(nxt)


def _category(cat, ascii_only):
    name = str(cat)
    neg = name.startswith('CATEGORY_NOT_') or name.startswith('CATEGORY_UNI_NOT_') or name.startswith('CATEGORY_LOC_NOT_')
    if 'LOC' in name:
        raise Unsupported('locale dependent category')
    kind = name.replace('CATEGORY_', '').replace('UNI_', '').replace('NOT_', '')
    if kind == 'DIGIT':
        f = (lambda c: c in '0123456789') if ascii_only else (lambda c: unicodedata.decimal(c, None) is not None and c.isdecimal())
    elif kind == 'SPACE':
        f = (lambda c: c in ' \t\n\r\x0b\x0c') if ascii_only else (lambda c: c.isspace())
    elif kind == 'WORD':
        f = (lambda c: ord(c) < 128 and (c.isalnum() or c == '_')) if ascii_only else (lambda c: c.isalnum() or c == '_')
    elif kind == 'LINEBREAK':
        f = lambda c: c == '\n'
    else:
        raise Unsupported('category ' + name)
    return (lambda c: not f(c)) if neg else f


class Builder:
    def __init__(self, flags):
        self.nfa = NFA()
        self.ignorecase = bool(flags & re.IGNORECASE)
        self.ascii = bool(flags & re.ASCII)
        self.dotall = bool(flags & re.DOTALL)
        if flags & re.MULTILINE:
            raise Unsupported('MULTILINE')
        if flags & re.LOCALE:
            raise Unsupported('LOCALE')

    def _lit(self, cp):
        if cp > 127:
            raise Unsupported('non-ASCII literal in the pattern')
        ch = chr(cp)
        if self.ignorecase and ch.isalpha():
            if ch.lower() in 'ksi':
                raise Unsupported('IGNORECASE with a letter that has non-ASCII case variants')
            lo, up = ch.lower(), ch.upper()
            return lambda c: c == lo or c == up
        return lambda c: c == ch

    def _range(self, lo, hi):
        if hi > 127:
            raise Unsupported('character range beyond ASCII')
        if self.ignorecase:
            chars = set()
            for cp in range(lo, hi + 1):
                ch = chr(cp)
                if ch.isalpha() and ch.lower() in 'ksi':
                    raise Unsupported('IGNORECASE with a letter that has non-ASCII case variants')
                chars.update((ch.lower(), ch.upper()))
            return lambda c: c in chars
        return lambda c: lo <= ord(c) <= hi

    def _class(self, av):
        av = list(av)
        negate = bool(av) and av[0][0] == sre.NEGATE
        if negate:
            av = av[1:]
        preds = []
        for op, a in av:
            if op == sre.LITERAL:
                preds.append(self._lit(a))
            elif op == sre.RANGE:
                preds.append(self._range(a[0], a[1]))
            elif op == sre.CATEGORY:
                preds.append(_category(a, self.ascii))
            else:
                raise Unsupported('class item ' + str(op))
        if negate:
            if self.ignorecase:
                raise Unsupported('negated class with IGNORECASE')
            return lambda c: not any(p(c) for p in preds)
        return lambda c: any(p(c) for p in preds)

    def atom(self, op, av):
        if op == sre.LITERAL:
            return self._lit(av)
        if op == sre.NOT_LITERAL:
            if self.ignorecase:
                raise Unsupported('negated literal with IGNORECASE')
            p = self._lit(av)
            return lambda c: not p(c)
        if op == sre.ANY:
            return (lambda c: True) if self.dotall else (lambda c: c != '\n')
        if op == sre.IN:
            return self._class(av)
        return None

    def seq(self, items, start):
        cur = start
        for op, av in items:
            cur = self.item(op, av, cur)
        return cur

    def item(self, op, av, start):
        n = self.nfa
        pred = self.atom(op, av)
        if pred is not None:
            end = n.new()
            n.trans[start].append((pred, end))
            return end
        if op == sre.SUBPATTERN:
            _group, add, dele, inner = av
            if add or dele:
                raise Unsupported('inline flags on a group')
            return self.seq(inner, start)
        if op == sre.BRANCH:
            end = n.new()
            for alt in av[1]:
                s = n.new()
                n.eps[start].append(s)
                e = self.seq(alt, s)
                n.eps[e].append(end)
            return end
        if op in (sre.MAX_REPEAT, sre.MIN_REPEAT):
            lo, hi, inner = av
            if lo > 64 or (hi != sre.MAXREPEAT and hi > 64):
                raise Unsupported('large bounded repeat')
            cur = start
            for _ in range(lo):
                cur = self.seq(inner, cur)
            if hi == sre.MAXREPEAT:
                loop = n.new()
                n.eps[cur].append(loop)
                e = self.seq(inner, loop)
                n.eps[e].append(loop)
                return loop
            end = n.new()
            n.eps[cur].append(end)
            for _ in range(hi - lo):
                cur = self.seq(inner, cur)
                n.eps[cur].append(end)
            return end
        raise Unsupported('pattern construct ' + str(op))


class PatternLanguage:
    """The set of texts on which `re.<how>(pattern, text, flags)` finds a match."""

    def __init__(self, pattern, how, flags=0):
        user_flags = flags
        try:
            tree = sre_parse.parse(pattern, flags)
        except re.error as e:
            raise AnalysisError('regular expression {!r} does not parse: {}'.format(pattern, e))
        flags = tree.state.flags
        items = list(tree)
        # a single non-capturing / capturing group around everything is transparent
        anchored_start = False
        while items and items[0][0] == sre.AT and items[0][1] in (sre.AT_BEGINNING, sre.AT_BEGINNING_STRING):
            anchored_start = True
            items = items[1:]
        end = None                       # None | '$' | 'Z'
        while items and items[-1][0] == sre.AT and items[-1][1] in (sre.AT_END, sre.AT_END_STRING):
            this = '$' if items[-1][1] == sre.AT_END else 'Z'
            end = 'Z' if (end == 'Z' or this == 'Z') else '$'
            items = items[:-1]
        b = Builder(flags)
        n = b.nfa
        start = n.new()
        if how == 'search' and not anchored_start:
            n.trans[start].append((lambda c: True, start))
        elif how not in ('match', 'fullmatch', 'search'):
            raise Unsupported('method ' + how)
        last = b.seq(items, start)
        final = n.new()
        n.eps[last].append(final)
        if how == 'fullmatch' or end == 'Z':
            pass
        elif end == '$':
            nl = n.new()
            n.trans[last].append((lambda c: c == '\n', nl))
            n.eps[nl].append(final)
        else:
            n.trans[final].append((lambda c: True, final))
        self.nfa, self.start, self.final = n, n.closure({start}), final
        self.pattern, self.how, self.flags = pattern, how, flags
        self.user_flags = user_flags

    def accepts(self, text):
        st = self.start
        for ch in text:
            st = self.nfa.step(st, ch)
            if not st:
                return False
        return self.final in st


# ---------------------------------------------------------------------------------------------------------------------------
# cross-checks of the two models against the library, and the decision
# ---------------------------------------------------------------------------------------------------------------------------
_WEIGHTED = list('0123456789abcdefxXoObB_+- \t') * 6 + ALPHABET


def _random_texts(n, seed):
    rnd = random.Random(seed)
    for _ in range(n):
        yield ''.join(rnd.choice(_WEIGHTED) for _ in range(rnd.randint(0, 7)))


def crosscheck_int_model():
    for t in _random_texts(4000, 13):
        try:
            int(t, 0)
            want = True
        except ValueError:
            want = False
        if int_accepts(t) != want:
            raise AnalysisError('the model of int(text, 0) disagrees with this interpreter on {!r}'.format(t))


def crosscheck_pattern_model(lang):
    rx = re.compile(lang.pattern, lang.user_flags)
    f = getattr(rx, lang.how)
    for t in _random_texts(3000, 17):
        if (f(t) is not None) != lang.accepts(t):
            raise AnalysisError('the automaton built for {!r} disagrees with the re module on {!r}'.format(lang.pattern, t))


def compare(lang, allowed=None):
    """{} when the pattern language equals that of int(text, 0) over texts of allowed characters; else shortest witnesses:
    'missed' - a text int(text, 0) accepts and the pattern does not, 'extra' - a text only the pattern accepts."""
    alphabet = [c for c in ALPHABET if allowed is None or allowed(c)]
    start = (lang.start, 'S')
    seen = {start: None}
    queue = [start]
    out = {}
    i = 0
    while i < len(queue) and len(out) < 2:
        cur = queue[i]
        i += 1
        ns, ds = cur
        a_int = ds in INT_ACCEPTING
        a_pat = lang.final in ns
        if a_int != a_pat:
            kind = 'missed' if a_int else 'extra'
            if kind not in out:
                text = []
                k = cur
                while seen[k] is not None:
                    k, ch = seen[k]
                    text.append(ch)
                out[kind] = ''.join(reversed(text))
        for ch in alphabet:
            n2 = lang.nfa.step(ns, ch) if ns else ns
            d2 = int_step(ds, ch) if ds is not None else None
            if not n2 and d2 is None:
                continue
            nxt = (n2, d2)
            if nxt not in seen:
                seen[nxt] = (cur, ch)
                queue.append(nxt)
                if len(queue) > 200000:
                    raise Unsupported('state space too large')
    return out


def decide(pattern, how, flags=0):
    """-> {'all': witnesses over every text, 'tokens': witnesses over whitespace-free text without non-ASCII digits}; an empty dict
    of witnesses means: the same language."""
    crosscheck_int_model()
    lang = PatternLanguage(pattern, how, flags)
    crosscheck_pattern_model(lang)
    full = compare(lang)
    return {'all': full, 'tokens': {} if not full else compare(lang, in_token_domain)}
