"""The compression relation lifted from transform_compressible (shared by C04, C12, C20).

  * predicate factories are summarised once from their inner function bodies into formula templates over the terms
    NAME, REG(field), IMM; a rule = conjunction of instantiated templates
  * constructions: for each matched key, the compressed class, mnemonic and the provenance of every constructor argument
  * enumeration of the *lifted* closed forms (never of repository code) against the RVC oracle
"""
import ast
import itertools

from .core import AnalysisError, Finding
from .astutil import unparse
from .pathwalk import show, is_const, C
from . import layoutrules as LR, immsites as IS, oracle
from .encsum import all_summaries, derived_operand, canon, show_cells
from .bitdom import INF


# -- formulas ------------------------------------------------------------------------------------------------------
from .predlift import lift_predicate, to_formula, to_term, RAW_COMPARES, UNGUARDED_EVALS, INST, POS, ENV, factory_name   # noqa: E402,F401


def eval_formula(f, tup):
    """Evaluate a lifted formula on a concrete field tuple {'name':..., 'rd':..., 'imm':...}.  Fields the tuple lacks make
    the atom false (getattr would fail for that class: the rule cannot fire)."""
    k = f[0]
    if k == 'cmp':
        a, b = eval_term(f[2], tup), eval_term(f[3], tup)
        if a is None or b is None:
            return False
        return {'==': a == b, '!=': a != b, '<': a < b, '<=': a <= b, '>': a > b, '>=': a >= b}[f[1]]
    if k == 'and':
        return all(eval_formula(x, tup) for x in f[1])
    if k == 'or':
        return any(eval_formula(x, tup) for x in f[1])
    if k == 'not':
        return not eval_formula(f[1], tup)
    raise AnalysisError('formula node {}'.format(k))


def eval_term(t, tup):
    k = t[0]
    if k == 'const':
        return t[1]
    if k == 'add':
        a = eval_term(t[1], tup)
        return None if a is None else a + t[2]
    if k == 'ifterm':
        c = eval_formula(t[1], tup)
        return eval_term(t[2] if c else t[3], tup)
    if k == 'NAME':
        return tup.get('name')
    if k == 'REG':
        return tup.get(t[1])
    if k in ('IMM', 'IMMC', 'IMMX'):
        return tup.get('imm')
    if k in ('ISARITH', 'ISLITERAL'):
        return True          # enumerated operands are literals
    if k in ('ISOFFSET', 'KIND', 'UNDEF'):
        return False         # ... not pc-relative label references, and their evaluation succeeds
    if k == 'mod':
        a, b = eval_term(t[1], tup), eval_term(t[2], tup)
        if a is None or b in (None, 0):
            return None
        return a % b
    raise AnalysisError('term node {}'.format(k))


def mentions(f):
    """set of tuple keys a formula reads ('name' excluded)."""
    k = f[0]
    if k == 'cmp':
        return mentions_t(f[2]) | mentions_t(f[3])
    if k in ('and', 'or'):
        out = set()
        for x in f[1]:
            out |= mentions(x)
        return out
    if k == 'not':
        return mentions(f[1])
    return set()


def mentions_t(t):
    if t[0] == 'REG':
        return {t[1]}
    if t[0] in ('IMM', 'IMMC', 'IMMX'):
        return {'imm'}
    if t[0] == 'mod':
        return mentions_t(t[1]) | mentions_t(t[2])
    if t[0] == 'add':
        return mentions_t(t[1])
    return set()


class Rule:
    def __init__(self, key, preds, formulas):
        self.key = key
        self.preds = preds
        self.formulas = formulas
        names = [f[3][1] for f in formulas if f[0] == 'cmp' and f[1] == '==' and f[2] == ('NAME',) and f[3][0] == 'const']
        self.name = names[0] if len(names) == 1 else None

    def enum_formulas(self, mode='literal'):
        """The formulas specialised to what the enumerations range over.  mode 'literal': the immediate is a plain expression, not
        a pc-relative label reference, and its evaluation succeeds.  mode 'offset': the immediate is %offset(<label>) - the distance
        to a label - which is how every jump / branch to a label is written."""
        cache = self.__dict__.setdefault('_enum', {})
        if mode not in cache:
            if mode == 'literal':
                assign = dict(ENUM_ASSIGN)
                if getattr(self, 'inst_isa', None) is not None:
                    assign['KIND'] = lambda term, self=self: self.inst_isa(term[1]) if term[1].startswith('inst isa ') else False
            else:
                def kinds(term, self=self):
                    text = term[1]
                    if text.startswith('inst isa '):
                        return self.inst_isa(text) if getattr(self, 'inst_isa', None) is not None else False
                    if text.endswith(' in labels') or text.endswith(' in <env>'):
                        return True
                    if text.endswith(' in constants'):
                        return False
                    if text.endswith(' isa Offset'):
                        return True
                    return False
                assign = {'ISARITH': False, 'ISLITERAL': False, 'ISOFFSET': True, 'UNDEF': False, 'KIND': kinds}
            cache[mode] = [simplify(f, assign) for f in self.formulas]
        return cache[mode]

    def holds(self, tup, mode='literal'):
        return all(eval_formula(f, tup) for f in self.enum_formulas(mode))

    def imm_bounds(self, mode='literal'):
        """Interval and divisors mentioned for IMM (to bound the enumeration)."""
        lo, hi = None, None
        pts = set()
        for f in (self.enum_formulas(mode) if self.key is not None else self.formulas):
            if f[0] == 'cmp' and f[2][0] in ('IMM', 'IMMC') and f[3][0] == 'const' and isinstance(f[3][1], int):
                c = f[3][1]
                if f[1] == '>=':
                    lo = c if lo is None else max(lo, c)
                elif f[1] == '>':
                    lo = c + 1 if lo is None else max(lo, c + 1)
                elif f[1] == '<=':
                    hi = c if hi is None else min(hi, c)
                elif f[1] == '<':
                    hi = c - 1 if hi is None else min(hi, c - 1)
                elif f[1] == '==':
                    pts.add(c)
            if f[0] == 'and':
                sub = Rule(None, [], f[1]).imm_bounds()
                if sub[0] is not None:
                    lo = sub[0] if lo is None else max(lo, sub[0])
                if sub[1] is not None:
                    hi = sub[1] if hi is None else min(hi, sub[1])
                pts |= sub[2]
        return lo, hi, pts


class Construction:
    def __init__(self, key, cls, mnemonic, fields, node, val):
        self.key, self.cls, self.mnemonic, self.fields, self.node, self.val = key, cls, mnemonic, fields, node, val


class CompRel:
    def __init__(self, facts):
        self.facts = facts
        del RAW_COMPARES[:]
        del UNGUARDED_EVALS[:]
        self.pa = LR.pass_analysis(facts, 'transform_compressible')
        self.factories = {}        # factory name -> (None, None, defining function node)
        self.rules = []
        self.constructions = {}
        self.unbuilt = []
        seen = set()
        for r in self.pa.rows:
            if r['crit'] is None:
                continue
            key, preds = r['crit']
            if key not in seen:
                seen.add(key)
                forms = []
                for f, fname, node in self.pa.lifted(key, preds):
                    forms.append(f)
                    top = node
                    par = getattr(node, '_parent', None)
                    while par is not None and par is not self.pa.fn:
                        if isinstance(par, ast.FunctionDef):
                            top = par
                        par = getattr(par, '_parent', None)
                    self.factories.setdefault(fname, (None, None, top))
                ru_ = Rule(key, preds, forms)
                alts = None
                if ru_.name is None:
                    # a rule that admits several mnemonics (`i.name in (..)`): one rule per mnemonic, same construction
                    for k_, f_ in enumerate(forms):
                        if f_[0] == 'or' and f_[1] and all(x[0] == 'cmp' and x[1] == '==' and x[2] == ('NAME',) and x[3][0] == 'const' for x in f_[1]):
                            alts = (k_, [x[3][1] for x in f_[1]])
                            break
                if alts is not None:
                    for nm_ in alts[1]:
                        forms_n = list(forms)
                        forms_n[alts[0]] = ('cmp', '==', ('NAME',), ('const', nm_))
                        self.rules.append(Rule(key, preds, forms_n))
                else:
                    self.rules.append(ru_)
            news = [(v, n) for v, n in r['app_values'] if v[0] == 'new']
            if r['path'].end == 'raise' or not news:
                self.unbuilt.append((key, r))
                continue
            val, node = news[0]
            made = {}
            for v, n in r['acc'].new_values:
                made.setdefault(v, n)
            fields = IS.ctor_fields(facts, val)
            nm = fields.get('name')
            self.constructions[key] = Construction(key, val[1], nm[1] if nm and is_const(nm) else None, fields, made.get(val, node), val)
        # order of rules = order of the criteria table
        order = []
        for r in self.pa.rows:
            for ev in r['path'].events:
                if ev[0] == 'search' and ev[1][0] == 'mcall' and ev[1][1][0] == 'dict':
                    order = [k[1] for k, v in ev[1][1][1]]
                    break
            if order:
                break
        if not self.rules:
            raise AnalysisError('transform_compressible: the first-match search over the criteria table is not recognised (no rule could be read)')
        self.rules.sort(key=lambda ru: order.index(ru.key) if ru.key in order else 999)
        self.order = order
        for ru in self.rules:
            ru.inst_isa = self.class_oracle(ru)
        self.raw_compares = sorted(set(RAW_COMPARES))
        self.unguarded_evals = sorted(set(UNGUARDED_EVALS))

    def class_oracle(self, ru):
        """`inst isa X` for the items a rule applies to: the class parse_item / the expansions build for the rule's mnemonic."""
        classes = self.pa.mn_classes.get(ru.name, set()) if ru.name else set()

        def isa(text):
            cls = text[len('inst isa '):]
            if not classes or cls not in self.facts.classes:
                return False
            vals = {bool(self.facts.is_subclass(c, cls)) for c in classes}
            return vals.pop() if len(vals) == 1 else False
        return isa

    # -- original-instruction side --------------------------------------------------------------------------------
    def item_fields(self, mnemonic):
        """attributes (beyond line/name) of the item class parse_item builds for a 32-bit mnemonic."""
        classes = self.pa.mn_classes.get(mnemonic, set())
        if len(classes) != 1:
            return None, None
        cls = next(iter(classes))
        if hasattr(self.facts, 'init_understood') and not self.facts.init_understood(cls):
            raise AnalysisError('{}: how __init__ of {} fills the attributes of the item is not understood'.format(mnemonic, cls))
        attrs = [a for a, _ in self.facts.full_attr_order(cls) if a not in ('line', 'name', 'is_auipc_jump', 'aq', 'rl')]
        return cls, attrs

    def field_domain(self, mnemonic, attr, rule, mode='literal'):
        """Finite set of values to enumerate for an original field."""
        spec = oracle.RV32.get(mnemonic)
        if attr in ('rd', 'rs1', 'rs2', 'rd_rs1'):
            return list(range(32))
        if attr == 'imm':
            lo, hi, pts = rule.imm_bounds(mode)
            if lo is None or hi is None:
                if pts:
                    return sorted(pts)
                # unbounded rule on imm: use the instruction's own legal range
                op = [o for o in spec['operands'] if o['kind'] == 'imm'] if spec else []
                if not op:
                    return [0]
                return list(range(op[0]['lo'], op[0]['hi'] + 1))
            if hi - lo > 1 << 16:
                raise AnalysisError('rule {}: immediate region too wide to enumerate'.format(rule.key))
            return list(range(lo, hi + 1))
        return [None]

    def region_tuples(self, rule, mode='literal'):
        """All field tuples on which `rule` is the first rule to fire."""
        if rule.name is None:
            raise AnalysisError('rule {} does not fix the mnemonic with NameEquals'.format(rule.key))
        cls, attrs = self.item_fields(rule.name)
        if cls is None:
            raise AnalysisError('rule {}: mnemonic {} has no unique item class'.format(rule.key, rule.name))
        doms = [self.field_domain(rule.name, a, rule, mode) for a in attrs]
        # unary atoms prune each field's domain before the product is taken
        for idx, a in enumerate(attrs):
            unary = [f for f in rule.enum_formulas(mode) if mentions(f) == {a}]
            if unary:
                doms[idx] = [v for v in doms[idx] if all(eval_formula(f, {a: v, 'name': rule.name}) for f in unary)]
        earlier = self.rules[:self.rules.index(rule)]
        earlier = [e for e in earlier if e.name == rule.name]
        for combo in itertools.product(*doms):
            tup = dict(zip(attrs, combo))
            tup['name'] = rule.name
            if not rule.holds(tup, mode):
                continue
            if any(e.holds(tup, mode) for e in earlier):
                continue
            yield tup


# -- semantics ------------------------------------------------------------------------------------------------------
def effect(mnemonic, f):
    """Normalised architectural effect of a 32-bit instruction (enough algebra for x0 and +0)."""
    def R(n):
        return ('zero',) if n == 0 else ('reg', n)

    def add(a, b):
        xs = [x for x in (a, b) if x != ('zero',) and x != ('imm', 0)]
        if not xs:
            return ('zero',)
        if len(xs) == 1:
            return xs[0]
        return ('add',) + tuple(sorted(xs, key=repr))
    if mnemonic == 'addi':
        return ('write', f['rd'], add(R(f['rs1']), ('imm', f['imm'])))
    if mnemonic == 'add':
        return ('write', f['rd'], add(R(f['rs1']), R(f['rs2'])))
    return (mnemonic,) + tuple(sorted(f.items()))


def accepted(cells, v):
    for (lo, hi, delta, m, r) in cells:
        if lo <= v <= hi and v % m == r:
            return True
    return False


def encode_closed_form(summary, operands):
    """Word produced by the derived closed form for concrete operand values {param: value}."""
    w = 0
    for i, b in enumerate(summary.bits):
        if b == 1:
            w |= 1 << i
        elif isinstance(b, tuple) and b[0] != 'overlap':
            (kind, p), j = b
            if (operands[p] >> j) & 1:
                w |= 1 << i
    return w


def decode_rvc(mnemonic, word):
    """Operand values {role: value} of halfword `word` as an instance of RVC `mnemonic` (oracle bit maps)."""
    spec = oracle.RVC[mnemonic]
    out = {}
    for op in spec['operands']:
        v = 0
        top = max(op['bits'])
        for j, pos in op['bits'].items():
            if (word >> pos) & 1:
                v |= 1 << j
        if op['kind'] == 'regc':
            v += 8
        elif op['kind'] == 'imm' and op['lo'] < 0 and (v >> top) & 1:
            v -= 1 << (top + 1)
        out[op['role']] = v
    return out


def expand(mnemonic, ops):
    base, mapping = oracle.RVC[mnemonic]['expands']
    fields = {}
    for role, src in mapping.items():
        fields[role] = src[1] if isinstance(src, tuple) else ops[src]
    return base, fields


# -- rules that discard the immediate --------------------------------------------------------------------------------------------
def terms_of(f, out=None):
    """All terms occurring in a formula."""
    out = [] if out is None else out
    k = f[0]
    if k == 'cmp':
        for t in (f[2], f[3]):
            out.append(t)
            if t[0] == 'mod':
                out.extend([t[1], t[2]])
    elif k in ('and', 'or'):
        for x in f[1]:
            terms_of(x, out)
    elif k == 'not':
        terms_of(f[1], out)
    return out


def check_final_immediates(report, rel, rule):
    """A rule whose compressed form has no immediate (c.jr / c.jalr / c.mv from addi / c.nop) is selected by testing the immediate
    at a moment when labels still move (this very replacement moves them).  The dropped value is never looked at again, so the
    test must be about a value that cannot change any more: the immediate must be known to be a plain arithmetic expression and
    be evaluated without the label table.  Otherwise the %lo half of a far call / tail, or %lo(sym) of a lui/addi pair, that is 0
    now and -2 after the shift is silently discarded."""
    n = 0
    for ru in rel.rules:
        con = rel.constructions.get(ru.key)
        if con is None or ru.name is None:
            continue
        cls, attrs = rel.item_fields(ru.name)
        if cls is None or 'imm' not in attrs:
            continue
        keeps = any(IS.contains(v, ('attr', rel.pa.item, 'imm')) for v in con.fields.values() if isinstance(v, tuple))
        if keeps:
            continue
        n += 1
        terms = [t for f in ru.formulas for t in terms_of(f)]
        imm_terms = [t for t in terms if t[0] in ('IMM', 'IMMC')]
        guarded = any(t[0] == 'ISARITH' for t in terms)
        ok = bool(imm_terms) and all(t[0] == 'IMMC' for t in imm_terms) and guarded
        why = ('no predicate pins the immediate' if not imm_terms else
               'the immediate is evaluated with the live label environment' if any(t[0] == 'IMM' for t in imm_terms) else
               'nothing establishes that the immediate is a plain arithmetic expression (it may be %lo / %offset of a label)')
        report.check(ok, rule, "rule '{}' ({} -> {} without immediate) is decided on a final, label-independent immediate".format(ru.key, ru.name, con.mnemonic or con.cls),
                     lambda ru=ru, con=con, why=why: Finding(rule, 'transform_compressible', con.node,
                                                             "rule '{}' replaces {} by {}, which has no immediate, but {}: an immediate that depends on a label (the %lo half of a far "
                                                             'call / tail, %lo(sym) after lui) can satisfy the test now and change when later labels move - by this very replacement - '
                                                             'so the dropped offset makes the transfer land beside its label'.format(ru.key, ru.name, con.mnemonic or con.cls, why),
                                                             line=getattr(con.node, 'lineno', None)))
    report.count('immediate-dropping rules', n)


ENUM_ASSIGN = {'ISARITH': True, 'ISLITERAL': True, 'ISOFFSET': False, 'KIND': False, 'UNDEF': False}


def simplify(f, assign):
    """Formula with the boolean atoms in `assign` ({term kind: bool}) replaced by constants and and/or/not folded."""
    T, F_ = ('and', []), ('or', [])
    k = f[0]
    if k == 'cmp':
        if f[1] == '==' and f[2][0] in assign and f[3] == ('const', True):
            val = assign[f[2][0]]
            if callable(val):
                val = val(f[2])
                if val is None:
                    return f
            return T if val else F_
        if f[1] in ('==', '!=') and f[2][0] in ('IMM', 'IMMC', 'REG') and f[3] == ('const', None):
            return F_ if f[1] == '==' else T          # an evaluated operand is a number, never None
        return f
    if k == 'not':
        x = simplify(f[1], assign)
        return F_ if x == T else (T if x == F_ else ('not', x))
    if k in ('and', 'or'):
        xs = [simplify(x, assign) for x in f[1]]
        unit, zero = (T, F_) if k == 'and' else (F_, T)
        if any(x == zero for x in xs):
            return zero
        flat = []
        for x in xs:
            if x == unit:
                continue
            if x[0] == k:
                flat.extend(x[1])          # and-in-and / or-in-or
            else:
                flat.append(x)
        if len(flat) == 1:
            return flat[0]
        return (k, flat)
    return f


def check_literal_blind(report, rel, rule):
    """A rule may not ask whether the operand is *written* as a number: a named constant with the same value has to be treated
    exactly like the literal (it only has to be label-free, which evaluating it against the constants establishes)."""
    n = 0
    for ru in rel.rules:
        terms = [t for f in ru.formulas for t in terms_of(f)]
        if not any(t[0] in ('IMM', 'IMMC', 'IMMX') for t in terms):
            continue
        n += 1
        con = rel.constructions.get(ru.key)
        node = con.node if con is not None else rel.pa.loop
        report.check(not any(t[0] == 'ISLITERAL' for t in terms), rule, "rule '{}' does not look at how the operand is spelled".format(ru.key),
                     lambda ru=ru, node=node: Finding(rule, 'transform_compressible', node,
                                                      "rule '{}' applies only when the immediate is written as an integer literal: the same instruction with a named constant of "
                                                      'that value is not compressed, so replacing a constant by its value changes the binary and the labels behind it'.format(ru.key),
                                                      line=getattr(node, 'lineno', None)))
    report.count('rules that test an immediate', n)


def check_operand_value(report, rel, rule):
    """The value a rule tests is the value the compressed instruction will carry: the operand's own value (i.imm.eval), never the
    expression inside a %hi / %lo wrapper (i.imm.expr.eval) - c.lui of %hi(X) is legal when %hi(X) is in range, not when X is."""
    n = 0
    for ru in rel.rules:
        terms = [t for f in ru.formulas for t in terms_of(f)]
        if not any(t[0] in ('IMM', 'IMMC', 'IMMX') for t in terms):
            continue
        n += 1
        con = rel.constructions.get(ru.key)
        node = con.node if con is not None else rel.pa.loop
        report.check(not any(t[0] == 'IMMX' for t in terms), rule, "rule '{}' tests the value of the operand itself".format(ru.key),
                     lambda ru=ru, node=node: Finding(rule, 'transform_compressible', node,
                                                      "rule '{}' tests the expression inside a %hi / %lo operand (i.imm.expr) instead of the operand's value: the compressed form is "
                                                      'chosen for X but carries %hi(X) / %lo(X), which the compressed encoder can refuse (or which makes an eligible instruction stay 32 bits '
                                                      'wide)'.format(ru.key), line=getattr(node, 'lineno', None)))
    report.count('rules whose tested value is the operand', n)


def check_guarded_evaluations(report, rel, rule):
    """An immediate evaluated without the label table fails (AssemblerError: unknown name) for every expression that mentions a
    label.  Inside a compression predicate that failure must mean 'not compressible': it has to be caught, otherwise a program that
    assembles without -c stops assembling with it."""
    for fname, table in rel.unguarded_evals:
        node = rel.factories.get(fname, (None, None, rel.pa.fn))[2]
        report.fail(Finding(rule, 'transform_compressible', node,
                            "predicate {} evaluates the immediate against '{}' only (no labels) outside any handler for AssemblerError: an immediate that mentions a label "
                            '(`addi a1, a0, end - start`) makes the -c build fail where the plain build succeeds'.format(fname, table), line=getattr(node, 'lineno', None)),
                    instance='unguarded constants-only evaluation in {}'.format(fname))
    if not rel.unguarded_evals:
        report.ok(rule, 'every label-free evaluation of an immediate inside a compression predicate is under a handler for AssemblerError')


def check_stable_decisions(report, rel, rule):
    """A compression decision is taken while labels still move, and the encoder re-validates the operand at the very end.  A rule
    may therefore look at the immediate only when its value cannot leave the rule's region any more: when it does not involve labels
    (evaluated without the label table), or when it is a pc-relative label offset (moving labels only shrink such a distance towards
    zero).  An absolute label-dependent immediate (%lo(sym), sym) that is inside the range now and outside it after later labels
    moved makes the build fail under -c only."""
    n = 0
    for ru in rel.rules:
        terms = [t for f in ru.formulas for t in terms_of(f)]
        if not any(t[0] in ('IMM', 'IMMC') for t in terms):
            continue
        n += 1
        kinds = lambda term, ru=ru: ru.inst_isa(term[1]) if term[1].startswith('inst isa ') else None
        residual = [simplify(f, {'ISOFFSET': False, 'KIND': kinds}) for f in ru.formulas]
        live = [t for f in residual for t in terms_of(f) if t[0] == 'IMM']
        # a pc-relative label offset is a stable operand only for jumps and branches (moving labels bring the target closer, and
        # the 32-bit form needs the same alignment); for any other instruction `!= 0` / `% 4 == 0` can stop holding
        pcrel = oracle.RV32_FORMAT.get(ru.name) in ('J', 'B')
        if not pcrel:
            residual2 = [simplify(f, {'ISOFFSET': True, 'KIND': kinds}) for f in ru.formulas]
            live = live + [t for f in residual2 for t in terms_of(f) if t[0] == 'IMM']
        else:
            # ... and only when the target is a label: the distance to an absolute constant *grows* when the code in front of the
            # jump shrinks afterwards
            def kinds_const(term, ru=ru):
                text = term[1]
                if text.startswith('inst isa '):
                    return ru.inst_isa(text)
                if text.endswith(' in labels'):
                    return False
                if text.endswith(' in constants') or text.endswith(' in <env>'):
                    return True
                return None
            residual3 = [simplify(f, {'ISOFFSET': True, 'KIND': kinds_const}) for f in ru.formulas]
            to_const = [t for f in residual3 for t in terms_of(f) if t[0] == 'IMM']
            if to_const:
                con_ = rel.constructions.get(ru.key)
                node_ = con_.node if con_ is not None else rel.pa.loop
                report.fail(Finding(rule, 'transform_compressible', node_,
                                    "rule '{}' also decides on the distance to a target that is a constant (an absolute address): that distance grows when code in front of the "
                                    'jump / branch is compressed afterwards, so a jump chosen as compressed can fall out of range - the program assembles without -c only'.format(ru.key),
                                    line=getattr(node_, 'lineno', None)), instance="rule '{}' pc-relative decision only for label targets".format(ru.key))
        con = rel.constructions.get(ru.key)
        node = con.node if con is not None else rel.pa.loop
        report.check(not live, rule, "rule '{}' looks at the immediate only when it is final (label-free){}".format(ru.key, ' or the label target of the jump / branch' if pcrel else ''),
                     lambda ru=ru, node=node: Finding(rule, 'transform_compressible', node,
                                                      "rule '{}' tests the immediate against the live label table whatever kind of expression it is: an absolute label-dependent "
                                                      'immediate (%lo(sym), a label used as a number) can be inside the compressed range now and outside it once later labels have moved; '
                                                      'the compressed encoder then refuses a program that assembles without -c'.format(ru.key), line=getattr(node, 'lineno', None)))
    report.count('rules that test the immediate', n)
