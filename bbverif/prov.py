"""Path-provenance dataflow for filesystem arguments (C10 R10.5, C14 R14.1-R14.4).

Every expression is abstracted to a *set* of kinds (a list is abstracted by the kinds of its elements):

  Resolved   a search directory joined with the included name (what the include search returned)
  Dir        a search directory given by the caller (an element of assemble()'s include_dirs)
  AdjDir     dirname(<path of a file that is being read>): the directory adjacent to the including file
  CwdDir     os.getcwd()
  UserGiven  the caller's own path (assemble()'s path_or_source, a command-line argument): relative to the caller by definition
  CliArgs    the argparse namespace (its attributes are UserGiven)
  RawToken   text cut out of file content / a source line (split, partition, regex, read): relative to nothing in particular,
             i.e. resolved against the process cwd when it reaches the filesystem
  Literal    a string literal
  NoneK      None / an empty container / a non-string constant (neutral)
  Unknown    not classified

The dataflow is demand driven and follows values through
  * local variables by *reaching definitions* on the structured control flow (a definition that dominates the use kills the
    earlier ones; loops add their back-edge definitions; both arms of an `if`, `try` handlers, `with` targets, comprehension
    targets, tuple unpacking incl. `for i, x in enumerate(...)` and tuple-returning helpers);
  * in-place growth of a list held in a local (`x.append(v)`, `x.extend(w)`, `x += w`, `x.insert(i, v)`);
  * parameters (union over every call site: positional, keyword, defaults, `*args`; a function whose name is used as a value may be
    called from anywhere: Unknown is added);
  * helper functions, module-level or nested (kinds of the returned expressions; closures read their free variables in the
    enclosing function; module-level constants);
  * object attributes (union over every store `<x>.attr = v` in the program, constructor bindings included).
Interprocedural summaries (parameters, returns, attributes) are solved as a least fixed point, so recursion (read_lines calling
itself with a path it resolved) needs no special case.

Path values may be strings handled with os.path or pathlib objects (`Path(x)`, `d / name`, `.joinpath`, `.parent`, `.resolve()`,
`.exists()` / `.read_bytes()` / `.open()` as sinks); `filter(os.path.exists, xs)` / `map(os.path.abspath, xs)` apply the function to
every element.  Calls through a local alias of a function or a function-valued parameter are resolved; a function whose name
escapes (stored in a table, returned) may be called from anywhere.

More analyses share the same machinery:
  * `cwd_guard`   - is a use of the working directory (os.getcwd(), Path.cwd(), abspath('.')) executed only when
                    os.path.exists(<the caller's input>) is false?  Decided by a truth table over the enclosing conditions,
                    conditional expressions, short-circuit operands and preceding guard clauses (`if t: return ...`);
  * `is_abs`      - the expression is definitely an absolute path / a list of absolute paths (os.path.abspath, join(abs, ...),
                    dirname(abs)), used for the CLI rule;
  * `aliases`     - local names that may denote the *same object* as a parameter (plain copies of the reference, `p or []`,
                    `p if c else []`), used to see in-place mutation of the caller's list;
  * `reach`       - functions reachable from an entry point, counting a function whose name is used as a value (dispatch tables,
                    higher-order helpers) as reachable.
"""
import ast

from .core import AnalysisError
from .astutil import unparse, dotted, walk_no_nested

DIRKINDS = frozenset({'Dir', 'AdjDir', 'CwdDir'})
ORDER = ['NoneK', 'ObjAttrs', 'Resolved', 'AdjDir', 'Dir', 'CwdDir', 'UserGiven', 'CliArgs', 'Unknown', 'Literal', 'RawToken', 'Ambiguous']
COARSE = {'AdjDir': 'Dir', 'CwdDir': 'Dir', 'CliArgs': 'UserGiven'}
EMPTY = frozenset()
NONE = frozenset({'NoneK'})
UNKNOWN = frozenset({'Unknown'})
RAW = frozenset({'RawToken'})

SINKS = ('open', 'io.open', 'os.path.getsize', 'os.path.exists', 'os.path.isdir', 'os.path.isfile', 'os.stat', 'os.path.getmtime',
         'os.listdir', 'os.scandir', 'os.access')
# str -> str methods that keep the text (and hence its provenance)
KEEP_METHODS = {'strip', 'lstrip', 'rstrip', 'lower', 'upper', 'casefold', 'replace', 'removeprefix', 'removesuffix', 'expandtabs',
                'encode', 'decode', 'title', 'swapcase', 'capitalize', 'copy', '__str__'}
# methods that cut a text into pieces / read file content
CUT_METHODS = {'split', 'rsplit', 'splitlines', 'partition', 'rpartition', 'read', 'readline', 'readlines', 'group', 'groups',
               'groupdict', 'findall', 'finditer', 'match', 'search', 'fullmatch', 'sub', 'subn'}
PASS_CALLS = {'list', 'tuple', 'sorted', 'set', 'frozenset', 'reversed', 'iter', 'copy.copy', 'copy.deepcopy', 'os.path.abspath',
              'os.path.normpath', 'os.path.realpath', 'os.path.expanduser', 'os.path.expandvars', 'os.path.normcase', 'str',
              'os.fspath', 'os.fsdecode', 'next'}
FRESH_CALLS = {'list', 'tuple', 'sorted', 'set', 'frozenset', 'copy.copy', 'copy.deepcopy', 'dict'}
LIST_MUTATORS = {'append', 'extend', 'insert', 'remove', 'pop', 'clear', 'sort', 'reverse', 'add', 'update', 'discard', '__setitem__',
                 '__delitem__', '__iadd__'}


PATH_CTORS = ('pathlib.Path', 'Path', 'pathlib.PurePath', 'PurePath', 'pathlib.PosixPath', 'PosixPath')
PATH_SINK_METHODS = {'exists', 'is_file', 'is_dir', 'read_text', 'read_bytes', 'stat', 'iterdir', 'glob', 'rglob', 'lstat', 'samefile'}
PATH_KEEP_METHODS = {'resolve', 'absolute', 'expanduser', 'as_posix', 'with_suffix', 'with_name'}


def is_cwd_expr(node):
    """The expression denotes the process working directory: os.getcwd(), Path.cwd(), abspath('.') / abspath('') / abspath(os.curdir)."""
    if not isinstance(node, ast.Call):
        return False
    d = dotted(node.func)
    if d in ('os.getcwd', 'os.getcwdb', 'pathlib.Path.cwd', 'Path.cwd'):
        return True
    if d in ('os.path.abspath', 'os.path.realpath') + PATH_CTORS and len(node.args) == 1:
        a = node.args[0]
        return (isinstance(a, ast.Constant) and a.value in ('.', '', './')) or dotted(a) == 'os.curdir'
    if d in PATH_CTORS and not node.args and not node.keywords:
        return True         # Path() is Path('.')
    return False


def walk_fn(node):
    """ast.walk over a function body that enters lambdas (they are part of the function) but not nested defs / classes."""
    todo = list(ast.iter_child_nodes(node))
    while todo:
        n = todo.pop()
        yield n
        if isinstance(n, (ast.FunctionDef, ast.AsyncFunctionDef, ast.ClassDef)):
            continue
        todo.extend(ast.iter_child_nodes(n))


def worst(kinds):
    kinds = [k for k in kinds if k != 'NoneK'] or ['NoneK']
    return max(kinds, key=ORDER.index)


def coarse(kinds):
    """One display kind for a set of kinds (the worst, with the directory flavours folded into Dir)."""
    return COARSE.get(worst(kinds or ['NoneK']), worst(kinds or ['NoneK']))


def _exits(body):
    """The statement list never falls through its end."""
    return bool(body) and isinstance(body[-1], (ast.Raise, ast.Return, ast.Continue, ast.Break))


def _bind(target, name):
    """How an assignment target binds `name`: None | ('expr',) | ('unpack', index, arity, starred)."""
    if isinstance(target, ast.Name):
        return ('expr',) if target.id == name else None
    if isinstance(target, (ast.Tuple, ast.List)):
        n = len(target.elts)
        for i, e in enumerate(target.elts):
            starred = isinstance(e, ast.Starred)
            e2 = e.value if starred else e
            if isinstance(e2, ast.Name) and e2.id == name:
                return ('unpack', i, n, starred)
            if isinstance(e2, (ast.Tuple, ast.List)) and _bind(e2, name):
                return ('unpack', i, n, True)        # nested pattern: treated like a starred slot (a sub-collection)
    return None


class Prov:
    def __init__(self, facts, cg):
        self.facts = facts
        self.cg = cg
        self.qual_of = {id(fn): q for q, fn in cg.funcs.items()}
        self.tab = {}            # summary key -> frozenset of kinds (least fixed point)
        self.abs_tab = {}
        self.busy = set()
        self.cuts = 0
        self.memo = {}
        self._value_refs = None
        # entry points: the public API
        self.seeds = {('param', 'assemble', 'path_or_source'): frozenset({'UserGiven'}),
                      ('param', 'assemble', 'include_dirs'): frozenset({'Dir'})}

    # -- program structure ------------------------------------------------------------------------------------------------
    def fn_of(self, qual):
        return self.cg.funcs[qual]

    def params(self, fn):
        a = fn.args
        return [x.arg for x in getattr(a, 'posonlyargs', []) + a.args + a.kwonlyargs] + \
               ([a.vararg.arg] if a.vararg else []) + ([a.kwarg.arg] if a.kwarg else [])

    def _only_called(self, fn, name):
        """Every read of the local / parameter `name` in `fn` is as the callee of a call."""
        callee_ids = {id(n.func) for n in walk_fn(fn) if isinstance(n, ast.Call)}
        return all(id(n) in callee_ids for n in walk_fn(fn) if isinstance(n, ast.Name) and n.id == name and isinstance(n.ctx, ast.Load))

    def _ref_escapes(self, ref, q):
        """A function name used as a value escapes unless the dataflow can follow it: a local alias that is only ever called, or an
        argument for a parameter (of a repo function) that is only ever called."""
        par = getattr(ref, '_parent', None)
        fn = self.cg.funcs[q]
        if isinstance(par, ast.Assign) and par.value is ref and len(par.targets) == 1 and isinstance(par.targets[0], ast.Name):
            return not self._only_called(fn, par.targets[0].id)
        call = par._parent if isinstance(par, ast.keyword) else par
        if isinstance(call, ast.Call) and call.func is not ref:
            callees = self.cg.callees(q, call)
            if not callees or (dotted(call.func) in self.facts.classes):
                return True
            for c in callees:
                for p, args in self.bind_call(c, call, q).items():
                    if any(a is ref for a in args) and not self._only_called(self.cg.funcs[c], p):
                        return True
            return False
        return True

    def value_refs(self):
        """{qualified function name: [referencing qual]} for functions whose *name is used as a value* in a way the dataflow cannot
        follow (stored in a table, returned, passed to unknown code): such a function may be called from anywhere."""
        if self._value_refs is None:
            refs = {}
            for q, fn in self.cg.funcs.items():
                callee_names = set()
                for n in walk_fn(fn):
                    if isinstance(n, ast.Call) and isinstance(n.func, ast.Name):
                        callee_names.add(id(n.func))
                locals_ = self.cg.local_defs(q)
                for n in walk_fn(fn):
                    if isinstance(n, ast.Name) and isinstance(n.ctx, ast.Load) and id(n) not in callee_names:
                        tgt = locals_.get(n.id) or (n.id if n.id in self.facts.funcs else None)
                        if tgt and self._ref_escapes(n, q):
                            refs.setdefault(tgt, []).append(q)
            # module level: tables of functions, partials
            for st in self.facts.tree.body:
                if isinstance(st, (ast.FunctionDef, ast.ClassDef)):
                    continue
                callee_names = {id(n.func) for n in ast.walk(st) if isinstance(n, ast.Call) and isinstance(n.func, ast.Name)}
                for n in ast.walk(st):
                    if isinstance(n, ast.Name) and isinstance(n.ctx, ast.Load) and n.id in self.facts.funcs and id(n) not in callee_names:
                        refs.setdefault(n.id, []).append('<module>')
            self._value_refs = refs
        return self._value_refs

    def registered_in(self, table):
        """Module-level functions decorated with a repo function whose body mentions the module-level name `table`."""
        idx = self.__dict__.setdefault('_registries', None)
        if idx is None:
            idx = {}
            for name, fn in self.facts.funcs.items():
                for d in fn.decorator_list:
                    dn = dotted(d.func) if isinstance(d, ast.Call) else dotted(d)
                    deco = self.facts.funcs.get(dn)
                    if deco is None:
                        continue
                    for m in ast.walk(deco):
                        if isinstance(m, ast.Name) and m.id in self.facts.assign_nodes:
                            idx.setdefault(m.id, []).append(name)
            self._registries = idx
        return idx.get(table, [])

    def reach(self, entry, dynamic=True):
        """Functions reachable from `entry`: call edges, nested closures, and functions referenced as values; with `dynamic`, a
        method call on an object of unknown class may reach every repo method of that name (over-approximation)."""
        memo = self.__dict__.setdefault('_reach_memo', {})
        if (entry, dynamic) not in memo:
            memo[(entry, dynamic)] = self._reach(entry, dynamic)
        return memo[(entry, dynamic)]

    def _reach(self, entry, dynamic):
        seen = set()
        todo = [entry]
        while todo:
            q = todo.pop()
            if q in seen or q not in self.cg.funcs:
                continue
            seen.add(q)
            fn = self.cg.funcs[q]
            locals_ = self.cg.local_defs(q)
            for n in walk_fn(fn):
                if isinstance(n, ast.Call):
                    todo.extend(self.callees(q, n))
                    if dynamic and isinstance(n.func, ast.Attribute) and not (dotted(n.func) or '').startswith(('os.', 're.', 'struct.', 'copy.', 'sys.', 'log.', 'logging.')):
                        # dynamic dispatch: any repo method of that name may be the target
                        todo.extend(self.cg.methods_by_name.get(n.func.attr, []))
                if isinstance(n, ast.Attribute) and isinstance(n.ctx, ast.Load) and isinstance(n.value, ast.Name) and n.value.id in self.facts.classes:
                    todo.extend(self.cg.methods_by_name.get(n.attr, []))        # Cls.method used as a value
                if isinstance(n, ast.Name) and isinstance(n.ctx, ast.Load):
                    if n.id in locals_:
                        todo.append(locals_[n.id])
                    elif n.id in self.facts.funcs:
                        todo.append(n.id)
                    elif n.id in self.facts.tables or n.id in self.facts.consts or n.id in self.facts.assign_nodes:
                        # module-level table of callables: its entries
                        node = self.facts.assign_nodes.get(n.id)
                        if node is not None:
                            for m in ast.walk(node):
                                if isinstance(m, ast.Name) and m.id in self.facts.funcs:
                                    todo.append(m.id)
                        # a registry filled by a decorator (`@register` appending the function to this table)
                        todo.extend(self.registered_in(n.id))
            for cand, par in self.cg.parent.items():
                if par == q:
                    todo.append(cand)
        return seen

    # -- reaching definitions ---------------------------------------------------------------------------------------------
    def all_defs(self, root, name):
        """Every binding of `name` in the subtree (no kill): [(how, value node)]."""
        out = []
        for n in [root] + list(walk_no_nested(root)):
            if isinstance(n, ast.Assign):
                for t in n.targets:
                    b = _bind(t, name)
                    if b:
                        out.append((b, n.value))
            elif isinstance(n, ast.AugAssign):
                if isinstance(n.target, ast.Name) and n.target.id == name:
                    out.append((('aug',), n.value))
            elif isinstance(n, (ast.For, ast.AsyncFor)):
                b = _bind(n.target, name)
                if b:
                    out.append((('elem',) + b, n.iter))
            elif isinstance(n, ast.withitem):
                if n.optional_vars is not None and _bind(n.optional_vars, name):
                    out.append((('ctx',), n.context_expr))
            elif isinstance(n, ast.NamedExpr):
                if isinstance(n.target, ast.Name) and n.target.id == name:
                    out.append((('expr',), n.value))
            elif isinstance(n, ast.ExceptHandler):
                if n.name == name:
                    out.append((('exc',), None))
            elif isinstance(n, (ast.FunctionDef, ast.ClassDef)) and n is not root:
                if n.name == name:
                    out.append((('func',), n))
            elif isinstance(n, (ast.Import, ast.ImportFrom)):
                for al in n.names:
                    if (al.asname or al.name.split('.')[0]) == name:
                        out.append((('import',), None))
        return out

    def stmt_defs(self, st, name):
        """(definitions of `name` that may flow out of the end of statement `st`, st definitely (re)binds name)."""
        if isinstance(st, ast.Assign):
            out = [(b, st.value) for b in (_bind(t, name) for t in st.targets) if b]
            return out + self._walrus(st.value, name), bool(out)
        if isinstance(st, ast.AugAssign):
            if isinstance(st.target, ast.Name) and st.target.id == name:
                return [(('aug',), st.value)], False
            return [], False
        if isinstance(st, (ast.For, ast.AsyncFor, ast.While)):
            return self.all_defs(st, name), False
        if isinstance(st, ast.If):
            d1, m1 = self.block_defs(st.body, name)
            d2, m2 = self.block_defs(st.orelse, name)
            return d1 + d2 + self._walrus(st.test, name), m1 and m2
        if isinstance(st, (ast.With, ast.AsyncWith)):
            out = []
            must = False
            for it in st.items:
                if it.optional_vars is not None and _bind(it.optional_vars, name):
                    out.append((('ctx',), it.context_expr))
                    must = True
            d, m = self.block_defs(st.body, name)
            if m:
                return d, True
            return out + d, must
        if isinstance(st, ast.Try):
            d, m = self.block_defs(st.body + st.orelse, name)
            out = list(d)
            ok = m
            falls = [h for h in st.handlers if not _exits(h.body)]
            if falls:
                # the body ran partially before a handler that falls through
                out += [x for x in self.all_defs(ast.Module(body=st.body, type_ignores=[]), name) if x not in out]
            for h in st.handlers:
                dh, mh = self.block_defs(h.body, name)
                if h.name == name and not _exits(h.body):
                    dh = dh + [(('exc',), None)]
                out += dh
                ok = ok and mh
            df, mf = self.block_defs(st.finalbody, name) if st.finalbody else ([], False)
            if mf:
                return df, True
            return out + df, ok
        if isinstance(st, (ast.FunctionDef, ast.ClassDef)):
            return ([(('func',), st)], True) if st.name == name else ([], False)
        if isinstance(st, (ast.Import, ast.ImportFrom)):
            for al in st.names:
                if (al.asname or al.name.split('.')[0]) == name:
                    return [(('import',), None)], True
            return [], False
        if isinstance(st, (ast.Expr, ast.Return, ast.Raise, ast.Assert, ast.Delete)):
            return self._walrus(st, name), False
        return [], False

    def _walrus(self, node, name):
        if node is None:
            return []
        return [(('expr',), n.value) for n in ast.walk(node) if isinstance(n, ast.NamedExpr) and isinstance(n.target, ast.Name) and n.target.id == name]

    def block_defs(self, body, name):
        if _exits(body):
            return [], True           # nothing flows out of the end of this block
        defs, must = [], False
        for st in body:
            d, m = self.stmt_defs(st, name)
            if m:
                defs, must = list(d), True
            else:
                defs += d
        return defs, must

    def reaching(self, qual, node):
        """Definitions of the variable that may reach the use `node` (an ast.Name in function `qual`):
        [(how, value node)] with how[0] in expr | unpack | elem | ctx | aug | param | free | func | exc | import | lambda."""
        name = node.id
        fn = self.fn_of(qual)
        out = []
        cur = node
        while cur is not fn:
            par = getattr(cur, '_parent', None)
            if par is None:
                break
            if isinstance(par, (ast.ListComp, ast.SetComp, ast.GeneratorExp, ast.DictComp)):
                gens = par.generators
                upto = gens.index(cur) if cur in gens else len(gens)
                for g in reversed(gens[:upto]):
                    b = _bind(g.target, name)
                    if b:
                        return out + [(('elem',) + b, g.iter)]
            elif isinstance(par, ast.comprehension):
                if cur is not par.iter:
                    b = _bind(par.target, name)
                    if b:
                        return out + [(('elem',) + b, par.iter)]
            elif isinstance(par, ast.Lambda):
                a = par.args
                if name in [x.arg for x in a.args + a.kwonlyargs] + ([a.vararg.arg] if a.vararg else []) + ([a.kwarg.arg] if a.kwarg else []):
                    return out + [(('lambda',), None)]
            elif isinstance(par, ast.While) and cur is par.test:
                out += self.all_defs(par, name)
            if isinstance(cur, ast.stmt):
                lst = None
                for field in ('body', 'orelse', 'finalbody'):
                    cand = getattr(par, field, None)
                    if isinstance(cand, list) and any(c is cur for c in cand):
                        lst = cand
                        where = field
                        break
                if lst is not None:
                    idx = [i for i, c in enumerate(lst) if c is cur][0]
                    for prev in reversed(lst[:idx]):
                        d, m = self.stmt_defs(prev, name)
                        out += d
                        if m:
                            return out
                    if isinstance(par, (ast.For, ast.AsyncFor)) and where == 'body':
                        b = _bind(par.target, name)
                        if b:
                            return out + [(('elem',) + b, par.iter)]
                        out += self.all_defs(par, name)
                    elif isinstance(par, ast.While) and where == 'body':
                        out += self.all_defs(par, name)
                    elif isinstance(par, (ast.With, ast.AsyncWith)) and where == 'body':
                        for it in par.items:
                            if it.optional_vars is not None and _bind(it.optional_vars, name):
                                return out + [(('ctx',), it.context_expr)]
                    elif isinstance(par, ast.ExceptHandler):
                        if par.name == name:
                            return out + [(('exc',), None)]
                    elif isinstance(par, ast.Try) and where in ('orelse', 'finalbody'):
                        out += self.all_defs(ast.Module(body=par.body, type_ignores=[]), name)
                        if where == 'finalbody':
                            for h in par.handlers:
                                out += self.all_defs(h, name)
                            out += self.all_defs(ast.Module(body=par.orelse, type_ignores=[]), name)
            elif isinstance(cur, ast.ExceptHandler) and isinstance(par, ast.Try):
                # the try body ran partially
                out += self.all_defs(ast.Module(body=par.body, type_ignores=[]), name)
            cur = par
        if name in self.params(fn):
            out.append((('param',), None))
        elif not out:
            out.append((('free',), None))
        return out

    # -- call binding -----------------------------------------------------------------------------------------------------
    def dict_entries(self, node, qual, depth=0):
        """{constant key: value node} of a dict-valued expression that the dataflow can open up (a literal, dict(k=v), a local
        bound to one and not modified afterwards), or None."""
        if isinstance(node, ast.Dict):
            out = {}
            for k, v in zip(node.keys, node.values):
                if k is None:
                    inner = self.dict_entries(v, qual, depth + 1)
                    if inner is None:
                        return None
                    out.update(inner)
                elif isinstance(k, ast.Constant) and isinstance(k.value, str):
                    out[k.value] = v
                else:
                    return None
            return out
        if isinstance(node, ast.Call) and dotted(node.func) == 'dict' and not node.args and all(k.arg is not None for k in node.keywords):
            return {k.arg: k.value for k in node.keywords}
        if isinstance(node, ast.Name) and qual is not None and depth < 4:
            defs = self.reaching(qual, node)
            if len(defs) == 1 and defs[0][0][0] == 'expr':
                fn = self.fn_of(qual)
                for n in walk_fn(fn):
                    # the dict must not be changed between its definition and the call
                    if isinstance(n, ast.Subscript) and isinstance(n.ctx, (ast.Store, ast.Del)) and isinstance(n.value, ast.Name) and n.value.id == node.id:
                        return None
                    if isinstance(n, ast.Call) and isinstance(n.func, ast.Attribute) and isinstance(n.func.value, ast.Name) and n.func.value.id == node.id \
                            and n.func.attr in ('update', 'pop', 'setdefault', 'clear', 'popitem'):
                        return None
                return self.dict_entries(defs[0][1], qual, depth + 1)
        return None

    def rebuild_overrides(self, node, qual, depth=0):
        """For `<fields>.values()` (or <fields> itself) where <fields> is the attribute dict of an existing object - vars(obj), a copy
        of it, `{**vars(obj), 'k': v}`, followed by `fields['k'] = v` stores - : {replaced constant key: value node}; None when the
        expression is not such a dict.  (Replacements under computed keys are register / immediate fields: rebuild invariant of C01.)"""
        if qual is None or depth > 10:
            return None
        if isinstance(node, ast.Call) and isinstance(node.func, ast.Attribute) and node.func.attr == 'values' and not node.args:
            return self.rebuild_overrides(node.func.value, qual, depth + 1)
        if isinstance(node, ast.Call) and (dotted(node.func) == 'vars' or (dotted(node.func) in ('copy.deepcopy', 'copy.copy', 'dict') and len(node.args) == 1
                                                                             and not node.keywords and self.rebuild_overrides(node.args[0], qual, depth + 1) == {})):
            return {}
        if isinstance(node, ast.Attribute) and node.attr == '__dict__':
            return {}
        if isinstance(node, ast.Dict):
            out, based = {}, False
            for k, v in zip(node.keys, node.values):
                if k is None:
                    inner = self.rebuild_overrides(v, qual, depth + 1)
                    if inner is None:
                        inner = self.dict_entries(v, qual)      # `**{'k': v}` / a local holding such a literal
                        if inner is None:
                            return None
                    else:
                        based = True
                    out.update(inner)
                elif isinstance(k, ast.Constant) and isinstance(k.value, str):
                    out[k.value] = v
                else:
                    return None
            return out if based else None
        if isinstance(node, ast.Name):
            defs = self.reaching(qual, node)
            if not defs or any(h[0] != 'expr' for h, _ in defs):
                return None
            out = {}
            for _, v in defs:
                inner = self.rebuild_overrides(v, qual, depth + 1)
                if inner is None:
                    return None
                out.update(inner)
            for n in walk_fn(self.fn_of(qual)):
                if isinstance(n, ast.Assign):
                    for t in n.targets:
                        if isinstance(t, ast.Subscript) and isinstance(t.value, ast.Name) and t.value.id == node.id \
                                and isinstance(t.slice, ast.Constant) and isinstance(t.slice.value, str):
                            out[t.slice.value] = n.value
            return out
        return None

    def bind_call(self, callee, call, caller=None):
        """{parameter name: [argument nodes]} for a call of the repo function `callee` (bound calls skip self).  `**options` is
        opened up when the dataflow can see the dict (in function `caller`); otherwise every parameter may receive it and the key
        '**' is set."""
        fn = self.fn_of(callee)
        a = fn.args
        pos = [x.arg for x in getattr(a, 'posonlyargs', []) + a.args]
        if '.' in callee and callee.split('.')[0] in self.facts.classes and pos and pos[0] in ('self', 'cls'):
            pos = pos[1:]
        out = {}
        i = 0
        for arg in call.args:
            if isinstance(arg, ast.Starred):
                for p in pos[i:]:
                    out.setdefault(p, []).append(arg.value)
                if a.vararg:
                    out.setdefault(a.vararg.arg, []).append(arg.value)
                i = len(pos)
                continue
            if i < len(pos):
                out.setdefault(pos[i], []).append(arg)
            elif a.vararg:
                out.setdefault(a.vararg.arg, []).append(arg)
            i += 1
        names = set(pos) | {x.arg for x in a.kwonlyargs}
        for kw in call.keywords:
            if kw.arg is None:
                entries = self.dict_entries(kw.value, caller)
                if entries is None:
                    out.setdefault('**', []).append(kw.value)
                    for p in names:
                        out.setdefault(p, []).append(kw.value)
                else:
                    for k, v in entries.items():
                        if k in names:
                            out.setdefault(k, []).append(v)
                        elif a.kwarg:
                            out.setdefault(a.kwarg.arg, []).append(v)
            elif kw.arg in names:
                out.setdefault(kw.arg, []).append(kw.value)
            elif a.kwarg:
                out.setdefault(a.kwarg.arg, []).append(kw.value)
        return out

    def default_of(self, fn, name):
        a = fn.args
        pos = [x.arg for x in getattr(a, 'posonlyargs', []) + a.args]
        defaults = dict(zip(pos[len(pos) - len(a.defaults):], a.defaults))
        for x, d in zip(a.kwonlyargs, a.kw_defaults):
            if d is not None:
                defaults[x.arg] = d
        return defaults.get(name)

    def function_values(self, node, qual, _depth=0):
        """Qualified names of the repo functions an expression may denote (a function name, a local alias of one, a parameter
        that receives one at some call site), or [] when it is not (only) a function value."""
        if _depth > 4 or not isinstance(node, ast.Name) or qual is None:
            return []
        locals_ = self.cg.local_defs(qual)
        out = []
        for how, v in self.reaching(qual, node):
            if how[0] == 'func':
                q = locals_.get(node.id)
                if q:
                    out.append(q)
            elif how[0] == 'expr':
                r = self.function_values(v, qual, _depth + 1)
                if not r:
                    return []
                out += r
            elif how[0] == 'free':
                if node.id in locals_:
                    out.append(locals_[node.id])
                elif node.id in self.facts.funcs:
                    out.append(node.id)
                else:
                    return []
            elif how[0] == 'param':
                for cq, call in self.call_sites_of(qual, direct_only=True):
                    for arg in self.bind_call(qual, call, cq).get(node.id, []):
                        out += self.function_values(arg, cq, _depth + 1)
            else:
                return []
        return sorted(set(out))

    def class_of(self, node, qual, depth=0):
        """Name of the repo class an expression evidently is an instance of (or, for a class name, the class itself), else None."""
        if isinstance(node, ast.Call) and dotted(node.func) in self.facts.classes:
            return dotted(node.func)
        if isinstance(node, ast.Name):
            if node.id in self.facts.classes:
                return node.id
            fn = self.cg.funcs.get(qual)
            if fn is not None and '.' in qual and qual.split('.')[0] in self.facts.classes and fn.args.args and fn.args.args[0].arg == node.id \
                    and not any(getattr(d, 'id', None) == 'staticmethod' for d in fn.decorator_list):
                return qual.split('.')[0]
            if depth < 3:
                defs = self.reaching(qual, node)
                classes = {self.class_of(v, qual, depth + 1) if h[0] == 'expr' else None for h, v in defs}
                if len(classes) == 1:
                    return next(iter(classes))
        return None

    def callees(self, qual, call):
        """Repo functions a call may reach: the call graph's resolution, plus calls through a local alias of a function or
        through a function-valued parameter."""
        out = list(self.cg.callees(qual, call)) if qual is not None else []
        f = call.func
        if qual is not None and isinstance(f, ast.Attribute):
            # x.m(...) where the class of x is evident: self / cls in a method, a class name, a fresh Cls(...), a local bound to one
            target = self.class_of(f.value, qual)
            if target:
                owner, m = self.facts.method(target, f.attr)
                if m is not None and '{}.{}'.format(owner, f.attr) in self.cg.funcs:
                    return ['{}.{}'.format(owner, f.attr)]
        if not out and qual is not None and isinstance(call.func, ast.Name):
            key = (qual, id(call))
            memo = self.__dict__.setdefault('_callee_memo', {})
            if key not in memo:
                memo[key] = []           # cut cycles
                memo[key] = self.function_values(call.func, qual)
            out = memo[key]
        return out

    def call_sites_of(self, qual, direct_only=False):
        """[(caller qual, Call)]"""
        out = []
        for cfn, call in self.cg.call_sites().get(qual, []):
            out.append((self.qual_of[id(cfn)], call))
        if direct_only:
            return out
        if '_indirect' not in self.__dict__:
            self._indirect = {}
            for cq, cfn in self.cg.funcs.items():
                for n in walk_fn(cfn):
                    if isinstance(n, ast.Call):
                        known = self.cg.callees(cq, n)
                        for q in self.callees(cq, n):
                            if q not in known:
                                self._indirect.setdefault(q, []).append((cq, n))
        return out + self._indirect.get(qual, [])

    def namedtuples(self):
        """{factory name: [field names]} for module-level `X = namedtuple('X', 'a b c')` / NamedTuple('X', [('a', T), ...])."""
        if '_nt' not in self.__dict__:
            out = {}
            for name, node in self.facts.assign_nodes.items():
                v = node.value
                if isinstance(v, ast.Call) and dotted(v.func) in ('namedtuple', 'collections.namedtuple', 'NamedTuple', 'typing.NamedTuple') and len(v.args) >= 2:
                    spec = v.args[1]
                    fields = None
                    if isinstance(spec, ast.Constant) and isinstance(spec.value, str):
                        fields = spec.value.replace(',', ' ').split()
                    elif isinstance(spec, (ast.List, ast.Tuple)):
                        fields = []
                        for e in spec.elts:
                            if isinstance(e, ast.Constant) and isinstance(e.value, str):
                                fields.append(e.value)
                            elif isinstance(e, ast.Tuple) and e.elts and isinstance(e.elts[0], ast.Constant):
                                fields.append(e.elts[0].value)
                            else:
                                fields = None
                                break
                    if fields:
                        out[name] = fields
            self._nt = out
        return self._nt

    def namedtuple_fields(self, call):
        """{field index: value node} of a namedtuple construction, or None."""
        d = dotted(call.func) if isinstance(call, ast.Call) else None
        fields = self.namedtuples().get(d)
        if fields is None or any(isinstance(a, ast.Starred) for a in call.args) or any(k.arg is None for k in call.keywords):
            return None
        out = {i: a for i, a in enumerate(call.args)}
        for k in call.keywords:
            if k.arg in fields:
                out[fields.index(k.arg)] = k.value
        return out if len(out) == len(fields) else None

    def object_class(self, node, qual):
        """The repo class the object evidently belongs to: by construction / self (class_of), or because the function tests
        isinstance(<the same variable>, Cls) for exactly one class."""
        cls = self.class_of(node, qual)
        if cls or not isinstance(node, ast.Name) or qual is None:
            return cls
        seen = set()
        for n in walk_fn(self.fn_of(qual)):
            if isinstance(n, ast.Call) and dotted(n.func) == 'isinstance' and len(n.args) == 2 and isinstance(n.args[0], ast.Name) and n.args[0].id == node.id:
                c = n.args[1]
                for e in (c.elts if isinstance(c, ast.Tuple) else [c]):
                    if isinstance(e, ast.Name) and e.id in self.facts.classes:
                        seen.add(e.id)
        return next(iter(seen)) if len(seen) == 1 else None

    def attr_kinds(self, node, qual):
        """Kinds of `obj.attr`.  Attribute summaries are per (class, attribute) when the class of the stored-into object is known;
        a load from an object of known class reads the stores of that class (and of related classes / unknown-class stores), a load
        from an object of unknown class reads every class - and is marked Ambiguous when the classes disagree, because a same-named
        attribute of an unrelated class proves nothing about this object."""
        stores = self.attr_stores().get(node.attr, [])
        classes = {self._store_class.get((q, id(v), node.attr)) for q, v in stores} if stores else set()
        if len(classes) <= 1:
            return set(self.summary(('attr', node.attr)))
        cls = self.object_class(node.value, qual)
        if cls is not None:
            return set(self.summary(('cattr', cls, node.attr)))
        per = {c: self.summary(('cattr', c, node.attr)) for c in classes if c is not None}
        out = set()
        for ks in per.values():
            out |= ks
        if len({frozenset(k for k in ks if k != 'NoneK') for ks in per.values()}) > 1:
            out.add('Ambiguous')
        return out

    def attr_stores(self):
        """{attribute name: [(qual, stored value node)]} over the whole program (`x.a = v`, `setattr(x, 'a', v)`, fields of
        namedtuple constructions)."""
        if '_stores' not in self.__dict__:
            st = {}
            for q, fn in self.cg.funcs.items():
                for n in walk_fn(fn):
                    nf = self.namedtuple_fields(n) if isinstance(n, ast.Call) else None
                    if nf:
                        names = self.namedtuples()[dotted(n.func)]
                        for i, v in nf.items():
                            self.__dict__.setdefault('_nt_stores', {}).setdefault((dotted(n.func), names[i]), []).append((q, v))
            for q, fn in self.cg.funcs.items():
                for n in walk_no_nested(fn):
                    if isinstance(n, ast.Assign):
                        for t in n.targets:
                            if isinstance(t, ast.Attribute):
                                st.setdefault(t.attr, []).append((q, n.value))
                                self.__dict__.setdefault('_store_class', {})[(q, id(n.value), t.attr)] = self.class_of(t.value, q)
                    elif isinstance(n, ast.Call) and dotted(n.func) == 'setattr' and len(n.args) == 3 \
                            and isinstance(n.args[1], ast.Constant) and isinstance(n.args[1].value, str):
                        st.setdefault(n.args[1].value, []).append((q, n.args[2]))
            self._stores = st
        return self._stores

    # -- summaries (least fixed point) -----------------------------------------------------------------------------------------
    def summary(self, key):
        if key not in self.tab:
            self.tab[key] = self.seeds.get(key, EMPTY)
            self._grew = True
        return self.tab[key]

    def compute(self, key):
        if key[0] == 'param':
            _, qual, name = key
            fn = self.fn_of(qual)
            if key in self.seeds:
                return self.seeds[key]      # the role of an entry point's parameter is given by the API, whoever calls it
            out = set()
            sites = self.call_sites_of(qual)
            for cq, call in sites:
                bound = self.bind_call(qual, call, cq)
                if name in bound:
                    for arg in bound[name]:
                        ov = self.rebuild_overrides(arg, cq)
                        if ov is not None and '.' in qual and qual.split('.')[0] in self.facts.classes:
                            # Cls(*fields.values()) with fields = the attribute dict of an existing object, some keys replaced:
                            # this parameter receives the object's own attribute (nothing new) unless its attribute was replaced
                            for attr, src in self.facts.full_attr_order(qual.split('.')[0]):
                                if src == name and attr in ov:
                                    out |= self._kinds(ov[attr], cq)
                            continue
                        out |= self._kinds(arg, cq)
                else:
                    d = self.default_of(fn, name)
                    if d is not None:
                        out |= self._kinds(d, qual)
            if (qual in self.value_refs() or (not sites and key not in self.seeds)) and not (name in ('self', 'cls') and '.' in qual):
                out.add('Unknown')     # called through a value / from outside: anything may arrive
            # `Cls(*vars(obj).values())` re-binds every attribute to the same attribute of an existing object: nothing new
            out.discard('ObjAttrs')
            return frozenset(out)
        if key[0] == 'ntattr':
            self.attr_stores()
            out = set()
            for q, v in self.__dict__.get('_nt_stores', {}).get((key[1], key[2]), []):
                out |= self._kinds(v, q)
            return frozenset(out)
        if key[0] == 'cattr':
            _, cls, attr = key
            out = set()
            related = set(self.facts.mro(cls)) | {c for c in self.facts.classes if self.facts.is_subclass(c, cls)} if cls in self.facts.classes else {cls}
            for q, v in self.attr_stores().get(attr, []):
                sc = self._store_class.get((q, id(v), attr))
                if sc is None or sc in related:
                    out |= self._kinds(v, q)
            return frozenset(out)
        if key[0] == 'attr':
            out = set()
            stores = self.attr_stores().get(key[1], [])
            for q, v in stores:
                out |= self._kinds(v, q)
            return frozenset(out) if stores else UNKNOWN
        if key[0] == 'ret':
            _, qual, idx = key
            fn = self.fn_of(qual)
            out = set()
            for n in walk_no_nested(fn):
                if isinstance(n, (ast.Yield, ast.YieldFrom)) and n.value is not None and not self._in_lambda(n, fn):
                    out |= self._kinds(n.value, qual)          # a generator "returns" what it yields
                if isinstance(n, ast.Return) and n.value is not None:
                    v = n.value
                    nf = self.namedtuple_fields(v) if idx is not None else None
                    if idx is not None and isinstance(v, (ast.Tuple, ast.List)) and idx[0] < len(v.elts) and len(v.elts) == idx[1] \
                            and not any(isinstance(e, ast.Starred) for e in v.elts):
                        out |= self._kinds(v.elts[idx[0]], qual)
                    elif nf is not None and len(nf) == idx[1]:
                        out |= self._kinds(nf[idx[0]], qual)
                    else:
                        out |= self._kinds(v, qual)
            return frozenset(out)
        raise AnalysisError('prov: unknown summary key {}'.format(key))

    def _in_lambda(self, node, fn):
        p = getattr(node, '_parent', None)
        while p is not None and p is not fn:
            if isinstance(p, ast.Lambda):
                return True
            p = getattr(p, '_parent', None)
        return False

    def solve(self):
        for _ in range(200):
            changed = False
            n_keys = len(self.tab)
            for key in list(self.tab):
                new = self.compute(key) | self.tab[key]
                if new != self.tab[key]:
                    self.tab[key] = new
                    changed = True
                    self.memo.clear()
            if not changed and len(self.tab) == n_keys:
                return
        raise AnalysisError('prov: summaries did not converge')

    # -- the public queries ---------------------------------------------------------------------------------------------------
    def kinds(self, node, qual):
        """Set of kinds of an expression evaluated in function `qual`."""
        for _ in range(50):
            n0 = len(self.tab)
            self._kinds(node, qual)
            self.solve()
            if len(self.tab) == n0:
                break
        return frozenset(k for k in self._kinds(node, qual) if not k.startswith('NT:'))

    def kind(self, node, qual):
        return coarse(self.kinds(node, qual))

    def param_kinds(self, qual, name):
        self.summary(('param', qual, name))
        self.solve()
        # solving may demand further summaries
        for _ in range(50):
            n0 = len(self.tab)
            self.solve()
            if len(self.tab) == n0:
                break
        return frozenset(k for k in self.tab[('param', qual, name)] if not k.startswith('NT:'))

    def _kinds(self, node, qual):
        key = (id(node), qual)
        if key in self.memo:
            return self.memo[key]
        if key in self.busy:
            self.cuts += 1
            return EMPTY
        self.busy.add(key)
        c0 = self.cuts
        try:
            out = frozenset(self._eval(node, qual))
        finally:
            self.busy.discard(key)
        if self.cuts == c0:
            self.memo[key] = out
        return out

    def _name(self, node, qual):
        name = node.id
        if name == '__file__':
            return {'Resolved'}
        if name in ('True', 'False', 'None'):
            return {'NoneK'}
        if qual is None:
            st = self.facts.assign_nodes.get(name)
            if st is not None:
                return set(self._kinds(st.value, None))
            return {'Unknown'}
        fn = self.fn_of(qual)
        if self.known_absolute(node, qual):
            return {'Resolved'}          # an absolute path names its file whatever the working directory is
        out = set()
        defs = self.reaching(qual, node)
        for how, v in defs:
            out |= self._def_kinds(how, v, qual, name)
        # in-place growth of a list held in this variable (the attribute dict of an existing object is not a list of paths:
        # the fields the rebuild idiom replaces are register / immediate fields, see the rebuild invariant of C01)
        if not all(how[0] in ('free',) for how, _ in defs) and 'ObjAttrs' not in out:
            out |= self._mutation_kinds(fn, name, qual)
        return out

    def growth_sites(self, fn, name):
        """[('elem' | 'list', expression)] added in place to the local `name` of `fn`: x.append(v), x.add(v), x.insert(i, v) add
        one element; x.extend(w), x.update(w) add the elements of w."""
        idx = self.__dict__.setdefault('_growth', {})
        if id(fn) not in idx:
            tab = {}
            for n in walk_fn(fn):
                if isinstance(n, ast.Call) and isinstance(n.func, ast.Attribute) and isinstance(n.func.value, ast.Name):
                    if n.func.attr in ('append', 'add') and n.args:
                        tab.setdefault(n.func.value.id, []).append(('elem', n.args[0]))
                    elif n.func.attr in ('extend', 'update') and n.args:
                        tab.setdefault(n.func.value.id, []).append(('list', n.args[0]))
                    elif n.func.attr == 'insert' and len(n.args) > 1:
                        tab.setdefault(n.func.value.id, []).append(('elem', n.args[1]))
            idx[id(fn)] = tab
        return idx[id(fn)].get(name, [])

    def known_absolute(self, node, qual):
        """The use of variable x is reached only when os.path.isabs(x) held: inside `if os.path.isabs(x):` / the true arm of a
        conditional expression on it / after a guard clause `if not os.path.isabs(x): <leave>` - with x not rebound in between."""
        name = node.id
        fn = self.fn_of(qual)

        def is_test(t, want):
            if isinstance(t, ast.UnaryOp) and isinstance(t.op, ast.Not):
                return is_test(t.operand, not want)
            if isinstance(t, ast.BoolOp) and isinstance(t.op, ast.And) and want:
                return any(is_test(v, True) for v in t.values)
            if isinstance(t, ast.BoolOp) and isinstance(t.op, ast.Or) and not want:
                return any(is_test(v, False) for v in t.values)
            return want and isinstance(t, ast.Call) and dotted(t.func) == 'os.path.isabs' and len(t.args) == 1 \
                and isinstance(t.args[0], ast.Name) and t.args[0].id == name
        rebinds = lambda stmts: any(self.all_defs(ast.Module(body=list(stmts), type_ignores=[]), name))
        child, p = node, getattr(node, '_parent', None)
        while p is not None and p is not fn:
            if isinstance(p, ast.IfExp) and ((child is p.body and is_test(p.test, True)) or (child is p.orelse and is_test(p.test, False))):
                return True
            if isinstance(p, ast.BoolOp) and child is not p.values[0]:
                idx = [i for i, v in enumerate(p.values) if v is child][0]
                if any(is_test(v, isinstance(p.op, ast.And)) for v in p.values[:idx]):
                    return True
            if isinstance(child, ast.stmt):
                for field in ('body', 'orelse', 'finalbody'):
                    lst = getattr(p, field, None)
                    if isinstance(lst, list) and any(y is child for y in lst):
                        idx = [i for i, y in enumerate(lst) if y is child][0]
                        if isinstance(p, ast.If) and is_test(p.test, field == 'body') and not rebinds(lst[:idx]):
                            return True
                        for k, prev in enumerate(lst[:idx]):
                            if isinstance(prev, ast.If) and _exits(prev.body) and not prev.orelse and is_test(prev.test, False) and not rebinds(lst[k + 1:idx]):
                                return True
            child, p = p, getattr(p, '_parent', None)
        return False

    def _mutation_kinds(self, fn, name, qual):
        out = set()
        for _, v in self.growth_sites(fn, name):
            out |= self._kinds(v, qual)
        return out

    def _def_kinds(self, how, v, qual, name):
        h = how[0]
        if h == 'expr' or h == 'aug' or h == 'ctx':
            return set(self._kinds(v, qual))
        if h == 'param':
            return set(self.summary(('param', qual, name)))
        if h == 'free':
            par = self.cg.parent.get(qual)
            while par:
                pfn = self.fn_of(par)
                defs = self.all_defs(pfn, name)
                if defs or name in self.params(pfn):
                    out = set()
                    for how2, v2 in defs:
                        out |= self._def_kinds(how2, v2, par, name)
                    if name in self.params(pfn):
                        out |= self.summary(('param', par, name))
                    out |= self._mutation_kinds(pfn, name, par)
                    return out
                par = self.cg.parent.get(par)
            st = self.facts.assign_nodes.get(name)
            if st is not None:
                return set(self._kinds(st.value, None))
            return {'Unknown'}
        if h == 'unpack':
            return self._unpack_kinds(v, how[1], how[2], how[3], qual)
        if h == 'elem':
            # element of the iterable, possibly unpacked further
            if len(how) > 2 and how[1] == 'unpack':
                return self._elem_unpack_kinds(v, how[2], how[3], how[4], qual)
            return set(self._kinds(v, qual))
        return {'Unknown'}     # func / exc / import / lambda

    def _unpack_kinds(self, v, i, n, starred, qual):
        if isinstance(v, (ast.Tuple, ast.List)) and len(v.elts) == n and not starred and not any(isinstance(e, ast.Starred) for e in v.elts):
            return set(self._kinds(v.elts[i], qual))
        if isinstance(v, ast.Call) and qual is not None and not starred:
            callees = self.callees(qual, v)
            if callees:
                out = set()
                for c in callees:
                    out |= self.summary(('ret', c, (i, n)))
                return out
        return set(self._kinds(v, qual))

    def _elem_unpack_kinds(self, it, i, n, starred, qual):
        if isinstance(it, ast.Call):
            d = dotted(it.func)
            if d == 'enumerate' and it.args and n == 2:
                return {'NoneK'} if i == 0 else set(self._kinds(it.args[0], qual))
            if d == 'zip' and len(it.args) == n and not starred:
                return set(self._kinds(it.args[i], qual))
        return set(self._kinds(it, qual))

    def _eval(self, node, qual):
        if node is None:
            return {'NoneK'}
        if isinstance(node, ast.Constant):
            if isinstance(node.value, str):
                return {'Literal'}
            return {'NoneK'}
        if isinstance(node, ast.Name):
            return self._name(node, qual)
        if isinstance(node, ast.Attribute):
            d = dotted(node)
            if d == 'sys.argv':
                return {'UserGiven'}
            if d in ('os.curdir', 'os.pardir', 'os.sep'):
                return {'Literal'}
            if node.attr == '__dict__':
                return {'ObjAttrs'}
            if node.attr == 'parent' and not self.attr_stores().get('parent'):
                return self._dirname_kinds(node.value, qual)               # pathlib
            base = self._kinds(node.value, qual)
            if 'CliArgs' in base:
                return {'UserGiven'} | ({'Unknown'} if base - {'CliArgs', 'NoneK'} else set())
            # fields of a namedtuple are read only from values that may be that namedtuple (the tag travels with the value)
            tags = [k[3:] for k in base if k.startswith('NT:')]
            out = set()
            for t in tags:
                if node.attr in self.namedtuples().get(t, []):
                    out |= self.summary(('ntattr', t, node.attr))
            if not out or self.attr_stores().get(node.attr) or not tags:
                out |= self.attr_kinds(node, qual)
            return out
        if isinstance(node, ast.Call):
            return self._call(node, qual)
        if isinstance(node, ast.BoolOp):
            out = set()
            for v in node.values:
                out |= self._kinds(v, qual)
            return out
        if isinstance(node, ast.IfExp):
            return set(self._kinds(node.body, qual)) | self._kinds(node.orelse, qual)
        if isinstance(node, (ast.List, ast.Tuple, ast.Set)):
            out = {'NoneK'}
            for e in node.elts:
                out |= self._kinds(e, qual)
            return out
        if isinstance(node, ast.Dict):
            out = {'NoneK'}
            for e in node.values:
                out |= self._kinds(e, qual)
            return out
        if isinstance(node, ast.Starred):
            return set(self._kinds(node.value, qual))
        if isinstance(node, ast.NamedExpr):
            return set(self._kinds(node.value, qual))
        if isinstance(node, ast.BinOp) and isinstance(node.op, ast.Add):
            parts = []
            cur = node
            while isinstance(cur, ast.BinOp) and isinstance(cur.op, ast.Add):
                parts.insert(0, cur.right)
                cur = cur.left
            parts.insert(0, cur)
            ks = [self._kinds(p, qual) for p in parts]
            if any(isinstance(p, ast.Constant) and isinstance(p.value, str) for p in parts):
                # string concatenation `dir + '/' + name` behaves like a join
                first = ks[0] - {'NoneK'}
                if first and first <= (DIRKINDS | {'Resolved'}):
                    return {'Resolved'}
            out = set()
            for k in ks:
                out |= k
            return out
        if isinstance(node, ast.BinOp) and isinstance(node.op, ast.Div):
            return self._join_kinds([node.left, node.right], qual)        # pathlib: directory / name
        if isinstance(node, ast.BinOp) and isinstance(node.op, ast.Mod):
            out = set(self._kinds(node.right, qual))
            return out or {'Literal'}
        if isinstance(node, ast.JoinedStr):
            out = set()
            for v in node.values:
                if isinstance(v, ast.FormattedValue):
                    out |= self._kinds(v.value, qual)
            return out or {'Literal'}
        if isinstance(node, ast.Subscript):
            return set(self._kinds(node.value, qual))
        if isinstance(node, (ast.ListComp, ast.SetComp, ast.GeneratorExp)):
            return set(self._kinds(node.elt, qual)) | {'NoneK'}
        if isinstance(node, ast.DictComp):
            return set(self._kinds(node.value, qual)) | {'NoneK'}
        if isinstance(node, (ast.Compare, ast.UnaryOp)):
            return {'NoneK'}
        if isinstance(node, ast.BinOp):
            return {'NoneK'} if not any(isinstance(n, (ast.Name, ast.Attribute, ast.Call)) for n in ast.walk(node)) else {'Unknown'}
        return {'Unknown'}

    def _call(self, node, qual):
        d = dotted(node.func)
        if is_cwd_expr(node):
            return {'CwdDir'}
        if d in PATH_CTORS and node.args:
            if len(node.args) == 1:
                return set(self._kinds(node.args[0], qual))
            return self._join_kinds(node.args, qual)
        if d == 'map' and len(node.args) == 2 and dotted(node.args[0]) in PASS_CALLS:
            return set(self._kinds(node.args[1], qual))
        if isinstance(node.func, ast.Attribute) and not (d or '').startswith(('os.', 're.', 'struct.', 'copy.', 'sys.')):
            if node.func.attr in PATH_KEEP_METHODS and not self.attr_stores().get(node.func.attr):
                return set(self._kinds(node.func.value, qual))
            if node.func.attr == 'joinpath' and node.args:
                return self._join_kinds([node.func.value] + list(node.args), qual)
        if d == 'os.path.join' and node.args:
            return self._join_kinds(node.args, qual)
        if d in PASS_CALLS:
            if not node.args:
                return {'NoneK'}
            return set(self._kinds(node.args[0], qual))
        if d == 'os.path.dirname' and node.args:
            return self._dirname_kinds(node.args[0], qual)
        if d == 'vars' and node.args:
            return {'ObjAttrs'}
        if d in self.namedtuples():
            out = {'NoneK', 'NT:' + d}
            for a in list(node.args) + [k.value for k in node.keywords]:
                out |= self._kinds(a, qual)
            return out
        if d == 'getattr' and len(node.args) >= 2 and isinstance(node.args[1], ast.Constant) and isinstance(node.args[1].value, str):
            out = set(self.summary(('attr', node.args[1].value)))
            for a in node.args[2:]:
                out |= self._kinds(a, qual)
            return out
        if d in ('enumerate', 'zip', 'filter'):
            out = set()
            for a in (node.args[-1:] if d == 'filter' else node.args[:1] if d == 'enumerate' else node.args):
                out |= self._kinds(a, qual)
            return out
        if d in ('len', 'int', 'bool', 'float', 'ord', 'isinstance', 'os.path.getsize', 'os.path.exists', 'os.path.isdir', 'os.path.isfile',
                 'struct.calcsize', 'id', 'hash', 'abs', 'min', 'max', 'sum', 'any', 'all', 'range', 'type'):
            return {'NoneK'}
        if d and (d.startswith('re.') or d in ('input',)):
            return {'RawToken'}
        if isinstance(node.func, ast.Attribute):
            attr = node.func.attr
            if attr == 'parse_args' or attr == 'parse_known_args':
                return {'CliArgs'}
            if attr in ('format', 'format_map'):
                out = set()
                for a in list(node.args) + [k.value for k in node.keywords]:
                    out |= self._kinds(a, qual)
                return (out - {'NoneK'}) or {'Literal'}
            if attr == 'join' and node.args and not (d or '').startswith('os.'):
                return set(self._kinds(node.args[0], qual))
            if attr in CUT_METHODS and not (d or '').startswith(('os.', 'struct.', 'copy.')):
                return {'RawToken'}
            if attr in KEEP_METHODS:
                return set(self._kinds(node.func.value, qual))
            if attr in ('get', 'pop', 'setdefault') and not (d or '').startswith('os.'):
                out = set(self._kinds(node.func.value, qual))
                for a in node.args[1:]:
                    out |= self._kinds(a, qual)
                return out
            if attr in ('items', 'values', 'keys'):
                return set(self._kinds(node.func.value, qual))
        if qual is not None:
            callees = self.callees(qual, node)
            if callees:
                if d in self.facts.classes:
                    return {'Unknown'}           # a freshly built object
                out = set()
                for c in callees:
                    out |= self.summary(('ret', c, None))
                return out
        return {'Unknown'}

    def _join_kinds(self, parts, qual):
        """join(first, ...): a directory joined with a name is Resolved; otherwise the result lies wherever its first component lies."""
        if any(isinstance(a, ast.Starred) for a in parts):
            return {'Unknown'}
        out = set()
        for k in self._kinds(parts[0], qual):
            if k in DIRKINDS or k == 'Resolved':
                out.add('Resolved' if len(parts) > 1 else k)
            elif k != 'NoneK':
                out.add(k)
        return out or {'NoneK'}

    def _dirname_kinds(self, node, qual):
        out = set()
        for k in self._kinds(node, qual):
            out.add('AdjDir' if k in ('Resolved', 'UserGiven') else k)
        return out

    # -- sinks ----------------------------------------------------------------------------------------------------------------
    def sinks(self, quals):
        """[(qual, call node, sink name, path argument)] for filesystem calls in the given functions."""
        out = []
        for q in quals:
            fn = self.cg.funcs[q]
            for n in walk_fn(fn):
                if isinstance(n, ast.Call):
                    d = dotted(n.func)
                    if d in SINKS and n.args:
                        out.append((q, n, d, n.args[0]))
                    elif d in ('filter', 'map') and len(n.args) == 2 and dotted(n.args[0]) in SINKS:
                        out.append((q, n, dotted(n.args[0]), n.args[1]))       # the sink is applied to every element
                    elif isinstance(n.func, ast.Attribute) and n.func.attr in PATH_SINK_METHODS and not (d or '').startswith(('os.', 're.', 'struct.')) \
                            and not self.cg.callees(q, n):
                        out.append((q, n, '<path>.' + n.func.attr, n.func.value))
                    elif isinstance(n.func, ast.Attribute) and n.func.attr == 'open' and not n.args and not (d or '').startswith('os.') and not self.cg.callees(q, n):
                        out.append((q, n, '<path>.open', n.func.value))
        out.sort(key=lambda t: (t[1].lineno, t[1].col_offset))
        return out

    # -- aliases of a parameter object / in-place mutation -------------------------------------------------------------------
    def same_object(self, node, qual, pname, seen=None):
        """The expression may evaluate to the very object bound to parameter `pname` of `qual` (no copy in between)."""
        seen = seen if seen is not None else set()
        if id(node) in seen:
            return False
        seen.add(id(node))
        if isinstance(node, ast.Name):
            for how, v in self.reaching(qual, node):
                if how[0] == 'param' and node.id == pname:
                    return True
                if how[0] == 'expr' and self.same_object(v, qual, pname, seen):
                    return True
            return False
        if isinstance(node, ast.BoolOp):
            return any(self.same_object(v, qual, pname, seen) for v in node.values)
        if isinstance(node, ast.IfExp):
            return self.same_object(node.body, qual, pname, seen) or self.same_object(node.orelse, qual, pname, seen)
        if isinstance(node, ast.NamedExpr):
            return self.same_object(node.value, qual, pname, seen)
        return False

    def inplace_mutations(self, qual, pname):
        """AST nodes in `qual` that mutate, in place, an object that may be the one bound to parameter `pname`."""
        fn = self.fn_of(qual)
        out = []
        for n in walk_fn(fn):
            if isinstance(n, ast.Call) and isinstance(n.func, ast.Attribute) and n.func.attr in LIST_MUTATORS:
                if self.same_object(n.func.value, qual, pname):
                    out.append(n)
            elif isinstance(n, ast.AugAssign):
                # `x += [...]` extends a list in place (x is read before the statement)
                if isinstance(n.target, ast.Name):
                    probe = ast.copy_location(ast.Name(id=n.target.id, ctx=ast.Load()), n)
                    probe._parent = n
                    if self.same_object(probe, qual, pname):
                        out.append(n)
                elif isinstance(n.target, ast.Subscript) and self.same_object(n.target.value, qual, pname):
                    out.append(n)
            elif isinstance(n, (ast.Assign, ast.Delete)):
                for t in n.targets:
                    if isinstance(t, ast.Subscript) and self.same_object(t.value, qual, pname):
                        out.append(n)
        return out

    # -- absoluteness ------------------------------------------------------------------------------------------------------------
    def is_abs(self, node, qual, sources=None, _busy=None):
        """The value is definitely an absolute path, or a container whose elements all are (vacuously true for None / empty).
        `sources` collects (expression, is absolute) for every *element source* of a container (list literal elements,
        comprehension elements, arguments of append / add / insert) and for containers that could not be opened up."""
        busy = _busy if _busy is not None else set()
        key = (id(node), qual)
        if key in busy:
            return True                     # coinductive: a cycle adds nothing new
        busy.add(key)
        prev = self.__dict__.get('_abs_qual')
        self._abs_qual = qual
        try:
            return self._is_abs(node, qual, sources, busy)
        finally:
            self._abs_qual = prev
            busy.discard(key)

    def _elem(self, v, qual, sources, busy):
        ok = self.is_abs(v, qual, None, busy)
        if sources is not None:
            sources.append((v, ok, qual))
        return ok

    def _leaf(self, node, sources, ok, qual=None):
        if sources is not None:
            sources.append((node, ok, qual if qual is not None else self._abs_qual))
        return ok

    def understood_relative(self, node, qual):
        """A value that is not definitely absolute is *understood* to be possibly relative when the dataflow knows where it comes
        from: the command line / the caller, text of a source line, a relative literal."""
        if qual is None:
            return False
        ks = set(self.kinds(node, qual)) - {'NoneK'}
        return bool(ks) and ks <= {'UserGiven', 'CliArgs', 'RawToken', 'Literal', 'Dir'}

    def _is_abs(self, node, qual, sources, busy):
        rec = lambda n, q=qual: self.is_abs(n, q, sources, busy)
        if node is None or (isinstance(node, ast.Constant) and node.value is None):
            return True
        if isinstance(node, ast.Constant):
            return self._leaf(node, sources, isinstance(node.value, str) and node.value.startswith('/'))
        if isinstance(node, (ast.List, ast.Tuple, ast.Set)):
            return all([rec(e.value) if isinstance(e, ast.Starred) else self._elem(e, qual, sources, busy) for e in node.elts])
        if isinstance(node, ast.Starred):
            return rec(node.value)
        if isinstance(node, (ast.ListComp, ast.SetComp, ast.GeneratorExp)):
            return self._elem(node.elt, qual, sources, busy)
        if isinstance(node, ast.BoolOp):
            return all([rec(v) for v in node.values])
        if isinstance(node, ast.IfExp):
            return all([rec(node.body), rec(node.orelse)])
        if isinstance(node, ast.BinOp) and isinstance(node.op, ast.Add):
            return all([rec(node.left), rec(node.right)])
        if isinstance(node, ast.Call):
            d = dotted(node.func)
            if d in ('os.path.abspath', 'os.path.realpath') or is_cwd_expr(node):
                return self._leaf(node, sources, True)
            if isinstance(node.func, ast.Attribute) and node.func.attr in ('resolve', 'absolute') and not node.args and not self.attr_stores().get(node.func.attr):
                return self._leaf(node, sources, True)
            if d == 'map' and len(node.args) == 2:
                if dotted(node.args[0]) in ('os.path.abspath', 'os.path.realpath'):
                    return self._leaf(node, sources, True)
                return self._leaf(node, sources, False)
            if d in PATH_CTORS and node.args:
                probe = []
                return self._leaf(node, sources, self.is_abs(node.args[0], qual, probe, busy))
            if d == 'os.path.join' and node.args and not isinstance(node.args[0], ast.Starred):
                # join(absolute, ...) is absolute whatever follows
                probe = []
                ok = self.is_abs(node.args[0], qual, probe, busy)
                return self._leaf(node, sources, ok)
            if d in ('os.path.dirname', 'os.path.normpath', 'os.path.normcase', 'os.fspath', 'str') and node.args:
                probe = []
                ok = self.is_abs(node.args[0], qual, probe, busy)
                return self._leaf(node, sources, ok)
            if d in ('list', 'tuple', 'sorted', 'set', 'frozenset', 'reversed', 'copy.copy', 'copy.deepcopy') :
                return rec(node.args[0]) if node.args else True
            if qual is not None:
                callees = self.callees(qual, node)
                if callees and d not in self.facts.classes:
                    ok = True
                    for c in callees:
                        for n in walk_no_nested(self.fn_of(c)):
                            if isinstance(n, ast.Return) and n.value is not None:
                                ok = self.is_abs(n.value, c, sources, busy) and ok
                            elif isinstance(n, ast.Yield) and n.value is not None and not self._in_lambda(n, self.fn_of(c)):
                                ok = self._elem(n.value, c, sources, busy) and ok
                            elif isinstance(n, ast.YieldFrom) and not self._in_lambda(n, self.fn_of(c)):
                                ok = self.is_abs(n.value, c, sources, busy) and ok
                    return ok
            return self._leaf(node, sources, False)
        if isinstance(node, ast.Name):
            if qual is None:
                st = self.facts.assign_nodes.get(node.id)
                return rec(st.value, None) if st is not None else self._leaf(node, sources, False)
            ok = True
            fn = self.fn_of(qual)
            defs = self.reaching(qual, node)
            for how, v in defs:
                h = how[0]
                if h in ('expr', 'aug'):
                    ok = rec(v) and ok
                elif h == 'elem' and how[1] == 'expr':
                    ok = rec(v) and ok
                elif h == 'unpack' and not how[3]:
                    # a, b = helper(...) / a, b = x, y: the i-th component of every tuple that may arrive
                    i, n = how[1], how[2]
                    comps = []
                    if isinstance(v, (ast.Tuple, ast.List)) and len(v.elts) == n and not any(isinstance(e, ast.Starred) for e in v.elts):
                        comps.append((v.elts[i], qual))
                    elif isinstance(v, ast.Call) and dotted(v.func) not in self.facts.classes:
                        for c in self.callees(qual, v):
                            for r in walk_no_nested(self.fn_of(c)):
                                if isinstance(r, ast.Return) and r.value is not None:
                                    if isinstance(r.value, (ast.Tuple, ast.List)) and len(r.value.elts) == n and not any(isinstance(e, ast.Starred) for e in r.value.elts):
                                        comps.append((r.value.elts[i], c))
                                    else:
                                        comps.append(None)
                    if not comps or None in comps:
                        ok = self._leaf(node, sources, False)
                    else:
                        for e, cq in comps:
                            ok = self.is_abs(e, cq, sources, busy) and ok
                elif h == 'param':
                    sites = self.call_sites_of(qual)
                    if not sites or qual in self.value_refs():
                        ok = self._leaf(node, sources, False)
                    for cq, call in sites:
                        bound = self.bind_call(qual, call, cq)
                        if node.id in bound:
                            for arg in bound[node.id]:
                                ok = self.is_abs(arg, cq, sources, busy) and ok
                        else:
                            dflt = self.default_of(fn, node.id)
                            ok = (self.is_abs(dflt, qual, sources, busy) if dflt is not None else self._leaf(node, sources, False)) and ok
                elif h == 'free':
                    st = self.facts.assign_nodes.get(node.id)
                    par = self.cg.parent.get(qual)
                    if par:
                        pfn = self.fn_of(par)
                        ds = self.all_defs(pfn, node.id)
                        if not ds:
                            ok = self._leaf(node, sources, False)
                        for how2, v2 in ds:
                            ok = (self.is_abs(v2, par, sources, busy) if how2[0] in ('expr', 'aug') else self._leaf(node, sources, False)) and ok
                    elif st is not None:
                        ok = self.is_abs(st.value, None, sources, busy) and ok
                    else:
                        ok = self._leaf(node, sources, False)
                else:
                    ok = self._leaf(node, sources, False)
            if not all(how[0] == 'free' for how, _ in defs):
                for kind, v in self.growth_sites(fn, node.id):
                    ok = (self._elem(v, qual, sources, busy) if kind == 'elem' else rec(v)) and ok
            return ok
        return self._leaf(node, sources, False)

    # -- control dependence on "the input is an existing path" -----------------------------------------------------------------
    def is_exists_test(self, node, qual, _depth=0):
        """The expression is true exactly when the caller's own input names an existing file: os.path.exists/isfile(<UserGiven>),
        or a variable whose every reaching definition is such a test."""
        if _depth > 6:
            return False
        if isinstance(node, ast.Call) and dotted(node.func) in ('os.path.exists', 'os.path.isfile') and node.args:
            ks = self.kinds(node.args[0], qual) - {'NoneK'}
            return 'UserGiven' in ks
        if isinstance(node, ast.Call) and isinstance(node.func, ast.Attribute) and node.func.attr in ('exists', 'is_file') and not node.args \
                and not (dotted(node.func) or '').startswith('os.'):
            ks = self.kinds(node.func.value, qual) - {'NoneK'}
            return 'UserGiven' in ks
        if isinstance(node, ast.Name):
            defs = self.reaching(qual, node)
            return bool(defs) and all(h[0] == 'expr' and self.is_exists_test(v, qual, _depth + 1) for h, v in defs)
        return False

    def _formula(self, test, qual, depth=0):
        """Boolean formula of a test over the atom 'E' (the caller's own input names an existing file) and opaque atoms:
        ('atom', name) | ('const', bool) | ('not', f) | ('and', [f]) | ('or', [f])."""
        if isinstance(test, ast.Constant):
            return ('const', bool(test.value))
        if isinstance(test, ast.UnaryOp) and isinstance(test.op, ast.Not):
            return ('not', self._formula(test.operand, qual, depth))
        if isinstance(test, ast.BoolOp):
            return ('and' if isinstance(test.op, ast.And) else 'or', [self._formula(v, qual, depth) for v in test.values])
        if self.is_exists_test(test, qual):
            return ('atom', 'E')
        if isinstance(test, ast.Name) and qual is not None and depth < 6:
            defs = self.reaching(qual, test)
            if len(defs) == 1 and defs[0][0][0] == 'expr':
                return self._formula(defs[0][1], qual, depth + 1)
        return ('atom', unparse(test))

    def cwd_guard(self, qual, node):
        """See _cwd_guard.  `x = <cwd>` binds the value to a name: what matters is where that value is *used* (reading the working
        directory is harmless, letting it take part in the search for a file's includes is not), so the verdict is the combination
        of the verdicts of the uses this definition reaches (none: guarded; a use inside a logging call does not count)."""
        g = self._cwd_guard(qual, node)
        stmt = node
        while stmt is not None and not isinstance(stmt, ast.stmt):
            stmt = getattr(stmt, '_parent', None)
        if g == 'guarded' or not (isinstance(stmt, ast.Assign) and stmt.value is node and len(stmt.targets) == 1 and isinstance(stmt.targets[0], ast.Name)):
            return g
        x = stmt.targets[0].id
        fn = self.fn_of(qual)
        verdicts = []
        for n in walk_fn(fn):
            if isinstance(n, ast.Name) and n.id == x and isinstance(n.ctx, ast.Load):
                if not any(v is node for h, v in self.reaching(qual, n) if h[0] == 'expr'):
                    continue
                p = getattr(n, '_parent', None)
                logged = False
                while p is not None and not isinstance(p, ast.stmt):
                    if isinstance(p, ast.Call) and ((dotted(p.func) or '').split('.')[0] in ('log', 'logging', 'logger', 'warnings') or dotted(p.func) == 'print'):
                        logged = True
                    p = getattr(p, '_parent', None)
                if not logged:
                    verdicts.append(self._cwd_guard(qual, n))
        # nested functions reading x as a free variable are not followed
        for q2, par in self.cg.parent.items():
            f2 = self.fn_of(q2)
            reads = any(isinstance(m, ast.Name) and m.id == x and isinstance(m.ctx, ast.Load) for m in ast.walk(f2))
            own = x in self.params(f2) or any(isinstance(m, ast.Name) and m.id == x and isinstance(m.ctx, ast.Store) for m in ast.walk(f2))
            if par == qual and reads and not own:
                return 'unknown' if g != 'guarded' else g
        if all(v == 'guarded' for v in verdicts):
            return 'guarded'
        if 'unknown' in verdicts:
            return 'unknown'
        return g

    def _cwd_guard(self, qual, node):
        """Is `node` executed only when os.path.exists(<the caller's input>) is false (the input is a source *string*)?
        'guarded' | 'unguarded' (decided over fully understood conditions) | 'unknown' (the conditions involve opaque tests)."""
        fn = self.fn_of(qual)
        constraints = []
        child = node
        p = getattr(node, '_parent', None)
        while p is not None and p is not fn:
            if isinstance(p, ast.If):
                if any(child is x for x in p.body):
                    constraints.append((self._formula(p.test, qual), True))
                elif any(child is x for x in p.orelse):
                    constraints.append((self._formula(p.test, qual), False))
            elif isinstance(p, ast.IfExp):
                if child is p.body:
                    constraints.append((self._formula(p.test, qual), True))
                elif child is p.orelse:
                    constraints.append((self._formula(p.test, qual), False))
            elif isinstance(p, ast.BoolOp) and child is not p.values[0]:
                # `a or b`: b runs only when a is false; `a and b`: only when a is true
                idx = [i for i, x in enumerate(p.values) if x is child][0]
                for prev in p.values[:idx]:
                    constraints.append((self._formula(prev, qual), isinstance(p.op, ast.And)))
            # guard clauses: an earlier `if t: <leaves>` in the same block means t was false here (and symmetrically)
            if isinstance(child, ast.stmt):
                for field in ('body', 'orelse', 'finalbody'):
                    lst = getattr(p, field, None)
                    if isinstance(lst, list) and any(x is child for x in lst):
                        idx = [i for i, x in enumerate(lst) if x is child][0]
                        for prev in lst[:idx]:
                            if isinstance(prev, ast.If):
                                if _exits(prev.body) and not _exits(prev.orelse):
                                    constraints.append((self._formula(prev.test, qual), False))
                                elif prev.orelse and _exits(prev.orelse) and not _exits(prev.body):
                                    constraints.append((self._formula(prev.test, qual), True))
            child = p
            p = getattr(p, '_parent', None)
        # the same for the top-level block of the function
        if isinstance(child, ast.stmt) and p is fn:
            idx = [i for i, x in enumerate(fn.body) if x is child]
            for prev in fn.body[:idx[0]] if idx else []:
                if isinstance(prev, ast.If):
                    if _exits(prev.body) and not _exits(prev.orelse):
                        constraints.append((self._formula(prev.test, qual), False))
                    elif prev.orelse and _exits(prev.orelse) and not _exits(prev.body):
                        constraints.append((self._formula(prev.test, qual), True))
        # `x = <cwd>` followed by `if t: x = <something else>`: the working directory survives in x only where t was false
        stmt = node
        while stmt is not None and not isinstance(stmt, ast.stmt):
            stmt = getattr(stmt, '_parent', None)
        if isinstance(stmt, ast.Assign) and stmt.value is node and len(stmt.targets) == 1 and isinstance(stmt.targets[0], ast.Name):
            x = stmt.targets[0].id
            par = getattr(stmt, '_parent', None)
            for field in ('body', 'orelse', 'finalbody'):
                lst = getattr(par, field, None)
                if isinstance(lst, list) and any(y is stmt for y in lst):
                    after = lst[[i for i, y in enumerate(lst) if y is stmt][0] + 1:]
                    for later in after:
                        if isinstance(later, ast.If):
                            d1, m1 = self.block_defs(later.body, x)
                            d2, m2 = self.block_defs(later.orelse, x) if later.orelse else ([], False)
                            reads_x = any(isinstance(n, ast.Name) and n.id == x and isinstance(n.ctx, ast.Load) for n in ast.walk(later.test))
                            if m1 and not d2 and not reads_x and not _exits(later.body):
                                constraints.append((self._formula(later.test, qual), False))
                                break
                            if m2 and not d1 and not reads_x and not _exits(later.orelse):
                                constraints.append((self._formula(later.test, qual), True))
                                break
                        if any(isinstance(n, ast.Name) and n.id == x for n in ast.walk(later)):
                            break           # x is used (or changed in another way) first
        # the verdict 'unguarded' is only given for plain uses; inside a literal / table / lambda the evaluation order and the selection
        # of the value are not followed
        inner, q_ = node, getattr(node, '_parent', None)
        odd = False
        while q_ is not None and not isinstance(q_, ast.stmt):
            if isinstance(q_, (ast.Dict, ast.List, ast.Tuple, ast.Set, ast.Subscript, ast.Lambda, ast.ListComp, ast.SetComp, ast.DictComp, ast.GeneratorExp)):
                odd = True
            inner, q_ = q_, getattr(q_, '_parent', None)
        if not constraints:
            return 'unknown' if odd else 'unguarded'
        atoms = []

        def collect(f):
            if f[0] == 'atom' and f[1] not in atoms:
                atoms.append(f[1])
            elif f[0] == 'not':
                collect(f[1])
            elif f[0] in ('and', 'or'):
                for x in f[1]:
                    collect(x)
        for f, _ in constraints:
            collect(f)
        if len(atoms) > 10:
            return 'unknown'

        def ev(f, env):
            if f[0] == 'atom':
                return env[f[1]]
            if f[0] == 'const':
                return f[1]
            if f[0] == 'not':
                return not ev(f[1], env)
            vals = [ev(x, env) for x in f[1]]
            return all(vals) if f[0] == 'and' else any(vals)
        violated = False
        for bits in range(1 << len(atoms)):
            env = {a: bool(bits >> i & 1) for i, a in enumerate(atoms)}
            if all(ev(f, env) == v for f, v in constraints) and env.get('E', True):
                violated = True
        if not violated:
            return 'guarded'
        return 'unguarded' if set(atoms) <= {'E'} and not odd else 'unknown'
