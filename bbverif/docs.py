"""Parser for the RST simple tables of the repository's documentation (read as text)."""
import re

from .core import AnalysisError

CODE = re.compile(r':code:`([^`]*)`')


def simple_tables(text):
    """Yield (heading, header cells, rows) for every RST simple table; heading = nearest preceding section title."""
    lines = text.splitlines()
    heading = None
    i = 0
    out = []
    while i < len(lines):
        ln = lines[i]
        if i + 1 < len(lines) and re.fullmatch(r'[-=^~"]{3,}', lines[i + 1].strip()) and ln.strip() and not re.fullmatch(r'[=\s]+', ln):
            heading = ln.strip()
        if re.fullmatch(r'=+(\s+=+)+\s*', ln) or re.fullmatch(r'={3,}\s*', ln) and i + 2 < len(lines) and re.fullmatch(r'={3,}\s*', lines[i + 2]):
            spans = [(m.start(), m.end()) for m in re.finditer(r'=+', ln)]
            # header row(s) until next border
            j = i + 1
            header = []
            while j < len(lines) and not re.fullmatch(r'[=\s]+', lines[j]):
                header.append(lines[j])
                j += 1
            j += 1
            rows = []
            while j < len(lines) and not re.fullmatch(r'[=\s]+', lines[j]) and lines[j].strip():
                rows.append(lines[j])
                j += 1

            def cells(row):
                out_c = []
                for k, (a, b) in enumerate(spans):
                    end = spans[k + 1][0] if k + 1 < len(spans) else len(row)
                    out_c.append(row[a:end].strip())
                return out_c
            out.append((heading, cells(header[0]) if header else [], [cells(r) for r in rows]))
            i = j
        i += 1
    return out


def instruction_syntax(text):
    """{mnemonic: [operand names]} from every table whose first column is 'Instruction'."""
    out = {}
    sections = {}
    for heading, header, rows in simple_tables(text):
        if not header or header[0] != 'Instruction':
            continue
        for row in rows:
            m = CODE.search(row[0])
            if not m:
                continue
            parts = re.sub(r'!=(\{[^}]*\}|\w+)', '', m.group(1)).replace(',', ' ').split()
            if not parts:
                continue
            name, ops = parts[0], parts[1:]
            if heading and heading.lower().startswith('pseudo'):
                sections.setdefault('pseudo', {})[name] = (ops, [c for c in row[1:]])
            else:
                out[name] = ops
                sections.setdefault(heading, {})[name] = (ops, row[1:])
    return out, sections


def pseudo_table(text):
    """{pseudo: (operands, expansion text or None)} from the 'Pseudo Instructions' table."""
    _, sections = instruction_syntax(text)
    ps = sections.get('pseudo')
    if not ps:
        raise AnalysisError('documentation anchor vanished: pseudo-instruction table')
    out = {}
    for name, (ops, rest) in ps.items():
        exp = CODE.search(rest[0]) if rest else None
        out[name] = (ops, exp.group(1) if exp else None)
    return out


def keyword_table(text, first_header, heading_contains=None):
    """{keyword: int} from a two-column table whose first header cell is `first_header`."""
    for heading, header, rows in simple_tables(text):
        if header and header[0] == first_header and (heading_contains is None or heading_contains.lower() in (heading or '').lower()):
            out = {}
            for row in rows:
                m = CODE.search(row[0])
                if m:
                    try:
                        out[m.group(1)] = int(row[-1])
                    except ValueError:
                        out[m.group(1)] = row[-1]
            return out
    raise AnalysisError('documentation anchor vanished: table with header {!r}'.format(first_header))


def description_of(text, mnemonic):
    _, sections = instruction_syntax(text)
    for sec, d in sections.items():
        if sec != 'pseudo' and mnemonic in d:
            return ' '.join(d[mnemonic][1])
    return None
