"""C15 - a faulty source line is reported as an assembler error naming that file and line.

The check is one abstract interpretation of `assemble()` (bbverif/absint.py; nothing is executed) with `compress` False and True.
Every rule below is a statement about facts of that interpretation, never about the text or the shape of the code:

R15.1.escape   no exception other than AssemblerError leaves assemble(): explicit raises, int() of user text, struct.pack /
               calcsize with a user format or user sized values, eval() of user text (R15.3.eval).  Handlers are try/except and
               `with cm(...)` for @contextmanager generators.  Raises guarding internal invariants are not discharged by a list:
               they are simply unreachable in the interpretation (class flow: only Blobs reach resolve_blobs; constant
               disjuncts: the rule name found by the criteria search always has a construction arm).  A call f(x.F) is
               known not to raise when the same pure f(x.F) already returned normally on the path (the criteria predicates
               looked the register up before the construction arm does).  int(<token>) of the last token of an
               `include_bytes` line cannot raise when the reader itself appended that token from os.path.getsize().
R15.2.line / R15.5.items   every value that flows into an attribute that holds Line objects (`self.line = line` of Item,
               LineTokens, AssemblerError ...) is a Line; and it is the Line of the element being processed (provenance tags).
R15.5.origin   Line(file, number, text): text is an element of <source>.splitlines(), number its 1-based index in that same
               list, file the path that was opened to read <source> (a constant name when the source is the argument itself).
R15.6.render   AssemblerError keeps the line and shows line and message; Line shows file and number (dataflow of __str__).
R15.7.relabel  a handler that catches an error which already names its line does not replace it by another line.
"""
import ast

from ..core import Report, Finding, AnalysisError
from ..astutil import unparse, walk_no_nested
from ..absint import Interp, Args, av, const, NONE, INT_U, STR_U, TOP

LEVEL = 'other'
LINE, ERROR, ENTRY = 'Line', 'AssemblerError', 'assemble'


def entry_args():
    out = []
    for compress in (False, True):
        a = Args([av(('str', 'u', None))])
        user_dict = ('dict', None, av(INT_U), av(STR_U))
        a.kw = {'constants': av(NONE, user_dict), 'labels': av(NONE, user_dict), 'compress': av(const(compress)),
                'include_dirs': av(NONE, ('list', av(STR_U)))}
        out.append(a)
    return out


def is_line(a):
    return a[0] == 'obj' and a[1] == LINE


def chain_text(rec):
    return ' -> '.join('{}:{}'.format(q, getattr(n, 'lineno', '?')) for q, n in rec.chain if q != '<entry>')


# -- R15.6: which attributes of self flow into the value returned by a method (intra-procedural backward slice) ---------------
def returned_self_attrs(it, cname, fn, depth=0, selfname=None):
    """(attributes of self that flow into the value the method returns, opaque?)  following locals, other methods of self and
    module-level functions self is handed to; opaque: self is handed to something that is not followed, so more attributes may
    be shown than were found"""
    defs = {}
    for n in walk_no_nested(fn):
        if isinstance(n, ast.Assign):
            for t in n.targets:
                for nm in ast.walk(t):
                    if isinstance(nm, ast.Name):
                        defs.setdefault(nm.id, []).append(n.value)
        elif isinstance(n, ast.AugAssign) and isinstance(n.target, ast.Name):
            defs.setdefault(n.target.id, []).append(n.value)
        elif isinstance(n, (ast.For, ast.comprehension)):
            for nm in ast.walk(n.target):
                if isinstance(nm, ast.Name):
                    defs.setdefault(nm.id, []).append(n.iter)
    if selfname is None:
        selfname = fn.args.args[0].arg if fn.args.args else None
    attrs, seen, todo = set(), set(), []
    opaque = False
    for n in walk_no_nested(fn):
        if isinstance(n, ast.Return) and n.value is not None:
            todo.append(n.value)
    while todo:
        e = todo.pop()
        for n in ast.walk(e):
            if isinstance(n, ast.Attribute) and isinstance(n.value, ast.Name) and n.value.id == selfname:
                c, q = it.find_method(cname, n.attr)
                if q is not None and depth < 3:
                    sub, op2 = returned_self_attrs(it, cname, it.funcs[q], depth + 1)
                    attrs |= sub
                    opaque = opaque or op2
                else:
                    attrs.add(n.attr)
            elif isinstance(n, ast.Call):
                for i, a in enumerate(n.args):
                    if isinstance(a, ast.Name) and a.id == selfname:
                        callee = it.funcs.get(n.func.id) if isinstance(n.func, ast.Name) and n.func.id not in defs else None
                        if isinstance(callee, ast.FunctionDef) and depth < 3 and i < len(callee.args.args) and not callee.decorator_list \
                                and not any(isinstance(x, ast.Starred) for x in n.args):
                            # helper(self): what the helper returns, in terms of the attributes of its parameter
                            sub, op2 = returned_self_attrs(it, cname, callee, depth + 1, selfname=callee.args.args[i].arg)
                            attrs |= sub
                            opaque = opaque or op2
                        else:
                            opaque = True        # format(self), vars(self), a helper that is not followed
                for k in n.keywords:
                    if isinstance(k.value, ast.Name) and k.value.id == selfname:
                        opaque = True
            elif isinstance(n, ast.Name) and n.id not in seen:
                seen.add(n.id)
                todo.extend(defs.get(n.id, []))
    return attrs, opaque


def init_param_fields(it, cname):
    """{attribute: parameters of the constructor that flow into it} following locals and super().__init__(...)"""
    out = {}
    c, q = it.find_method(cname, '__init__')
    if q is None:
        return out, []
    fn = it.funcs[q]
    params = [a.arg for a in fn.args.args[1:]]
    defs = {}
    for n in walk_no_nested(fn):
        if isinstance(n, ast.Assign):
            for t in n.targets:
                if isinstance(t, ast.Name):
                    defs.setdefault(t.id, []).append(n.value)

    def sources(e, seen):
        res = set()
        for n in ast.walk(e):
            if isinstance(n, ast.Name):
                if n.id in params:
                    res.add(n.id)
                elif n.id not in seen:
                    seen.add(n.id)
                    for d in defs.get(n.id, []):
                        res |= sources(d, seen)
        return res
    for n in walk_no_nested(fn):
        if isinstance(n, ast.Assign):
            for t in n.targets:
                if isinstance(t, ast.Attribute) and isinstance(t.value, ast.Name) and t.value.id == fn.args.args[0].arg:
                    out.setdefault(t.attr, set()).update(sources(n.value, set()))
    return out, params


def base_init_text(it, cname):
    """no __str__ of its own: str(error) is the single argument handed to Exception.__init__.  -> (parameters of __init__
    that flow into that argument) or None when the call is not of that shape"""
    c, q = it.find_method(cname, '__init__')
    if q is None:
        return None
    fn = it.funcs[q]
    params = [a.arg for a in fn.args.args[1:]]
    defs = {}
    for n in walk_no_nested(fn):
        if isinstance(n, ast.Assign):
            for t in n.targets:
                if isinstance(t, ast.Name):
                    defs.setdefault(t.id, []).append(n.value)
    calls = []
    for n in walk_no_nested(fn):
        if isinstance(n, ast.Call) and isinstance(n.func, ast.Attribute) and n.func.attr == '__init__':
            recv = n.func.value
            if isinstance(recv, ast.Call) and isinstance(recv.func, ast.Name) and recv.func.id == 'super':
                calls.append(list(n.args))
            elif isinstance(recv, ast.Name) and recv.id in ('Exception', 'BaseException'):
                calls.append(list(n.args[1:]))
    if len(calls) != 1 or len(calls[0]) != 1 or isinstance(calls[0][0], ast.Starred):
        return None
    res, seen, todo = set(), set(), [calls[0][0]]
    while todo:
        e = todo.pop()
        for n in ast.walk(e):
            if isinstance(n, ast.Name):
                if n.id in params:
                    res.add(n.id)
                elif n.id not in seen:
                    seen.add(n.id)
                    todo.extend(defs.get(n.id, []))
    return res


def overwritten_after_construction(it, ev):
    """the attribute gets its value right after the object is built: `e = C(..., None); e.line = line` or `C(..., None).at(line)`
    where the method assigns the attribute unconditionally.  (The later store is checked like every other store.)"""
    site, attr = ev['site'], ev['attr']
    fn = it.funcs.get(ev['qual'])
    if fn is None or not isinstance(site, ast.Call):
        return False
    for n in ast.walk(fn):
        # C(...).method(...)
        if isinstance(n, ast.Call) and isinstance(n.func, ast.Attribute) and n.func.value is site:
            for cname in ev['cls']:
                c, q = it.find_method(cname, n.func.attr)
                m = it.funcs.get(q) if q else None
                if m is None or not m.args.args or m.decorator_list:
                    return False
                me = m.args.args[0].arg
                if not any(isinstance(st, ast.Assign) and any(isinstance(t, ast.Attribute) and isinstance(t.value, ast.Name) and t.value.id == me and t.attr == attr
                                                              for t in st.targets) for st in m.body):
                    return False
            return True
        # v = C(...); ...; v.attr = value
        for field in ('body', 'orelse', 'finalbody'):
            block = getattr(n, field, None)
            if not isinstance(block, list):
                continue
            for i, st in enumerate(block):
                if isinstance(st, ast.Assign) and st.value is site and len(st.targets) == 1 and isinstance(st.targets[0], ast.Name):
                    v = st.targets[0].id
                    for later in block[i + 1:]:
                        if isinstance(later, ast.Assign) and len(later.targets) == 1 and isinstance(later.targets[0], ast.Attribute) \
                                and isinstance(later.targets[0].value, ast.Name) and later.targets[0].value.id == v and later.targets[0].attr == attr \
                                and not any(isinstance(x, ast.Name) and x.id == v for x in ast.walk(later.value)):
                            return True
                        if any(isinstance(x, ast.Name) and x.id == v for x in ast.walk(later)):
                            return False
                    return False
    return False


def revisits_processed_element(it, rec, chain):
    """the call that lets this exception out is made on an element read back from a list this same function fills
    (`prev = new_items[-1]; f(prev.rd)`), and the function converts the same fault of `f` in a handler of its own: whether the
    element already went through that handler when it was appended is a loop-carried fact the interpretation does not have"""
    if len(chain) < 2:
        return None
    caller_q, call = chain[-2]
    fn = it.funcs.get(caller_q)
    if fn is None or not isinstance(call, ast.Call):
        return None
    if not any(q == caller_q and r.origin is rec.origin for (q, h, r, how) in it.ev_handler.values()):
        return None
    assigned, appended = {}, set()
    for n in walk_no_nested(fn):
        if isinstance(n, ast.Assign):
            for t in n.targets:
                for nm in ast.walk(t):
                    if isinstance(nm, ast.Name):
                        assigned.setdefault(nm.id, []).append(n.value if t is nm else None)
        elif isinstance(n, (ast.For, ast.comprehension)):
            for nm in ast.walk(n.target):
                if isinstance(nm, ast.Name):
                    assigned.setdefault(nm.id, []).append(None)
        elif isinstance(n, (ast.AugAssign, ast.AnnAssign, ast.NamedExpr)) and isinstance(n.target, ast.Name):
            assigned.setdefault(n.target.id, []).append(None)
        elif isinstance(n, ast.Call) and isinstance(n.func, ast.Attribute) and n.func.attr == 'append' and isinstance(n.func.value, ast.Name):
            appended.add(n.func.value.id)
    for a in list(call.args) + [k.value for k in call.keywords]:
        root = a
        while isinstance(root, ast.Attribute):
            root = root.value
        if root is a or not isinstance(root, ast.Name):
            continue
        srcs = assigned.get(root.id)
        if not srcs or root.id in {p.arg for p in fn.args.args + fn.args.kwonlyargs}:
            continue
        if all(isinstance(v, ast.Subscript) and isinstance(v.value, ast.Name) and v.value.id in appended for v in srcs):
            return '{}:{} `{}` is applied to an element read back from `{}`, which this function fills after converting the same fault: ' \
                   'whether it can still raise there is not established'.format(caller_q, call.lineno, unparse(call)[:50], srcs[0].value.id)
    return None


def mentions_origin(atom, origins):
    """does this (nested) abstract value contain text elements of one of these line lists"""
    if isinstance(atom, tuple) and len(atom) >= 2 and atom[0] == 'elem' and atom[1] in origins:
        return True
    if isinstance(atom, (tuple, frozenset, list)):
        return any(mentions_origin(x, origins) for x in atom)
    return False


def run(repo, tier):
    rep = Report('C15', LEVEL,
                 'Abstract interpretation of assemble() (compress False / True) over classes, callables (closures, partial bindings, '
                 'dispatch tables, functions passed to helpers), exceptions in flight with the handlers they cross (try/except and '
                 '@contextmanager generators used in `with`), provenance tags of Line-carrying objects, user text / user sized integers, '
                 'and path facts (constant refinement, token-list shape, calls that already returned normally).  No exception other '
                 'than AssemblerError may leave assemble(); every value stored into a Line-holding attribute is the Line of the element '
                 'being processed; Line objects are created with the path being read and the 1-based index of the physical line; a handler '
                 'never replaces the line of an error that already has one; the error renders line and message.')
    rep.assumptions = ['the integer returned by a mnemonic binding (a module-level partial / entry of the INSTRUCTIONS table) fits its instruction width: theorem of C01 / C02',
                       'the reader (raw prefix of the line) and the parser (first token) select the same `include_bytes` lines']
    rep.trusted_base = ['CPython ast', 'bbverif.absint (abstract semantics of the Python subset used by asm.py, models of the standard library functions it calls)']
    rep.not_decided = ['exceptions Python raises implicitly on malformed arity or syntax (tuple unpacking, tokens[3] IndexError, KeyError of a table lookup keyed by a value read back from an item field (a lookup keyed by a raw user token is judged), '
                       'UnicodeDecodeError on a trailing backslash, ZeroDivisionError for align 0): where the code has a handler for them its body is '
                       'analysed, elsewhere they are not judged',
                       'duplicate label definitions are not refused at all, so the premise "when a program is refused" is never met for that class',
                       '__str__ / __repr__ reached through string formatting are not followed',
                       'the reader recognises `include_bytes` lines by their raw prefix and the parser by their first token: the argument that the '
                       'size token is always the reader\'s own integer relies on both selecting the same lines']
    it = Interp(repo.asm, source_text=repo.text.get('bronzebeard/asm.py'))
    for anchor in (ENTRY,):
        if anchor not in it.funcs:
            raise AnalysisError('anchor vanished: {}'.format(anchor))
    for anchor in (LINE, ERROR):
        if anchor not in it.classes:
            raise AnalysisError('anchor vanished: class {}'.format(anchor))
    try:
        results = it.run(ENTRY, entry_args)
    except AnalysisError as stopped:
        # the interpretation stopped at code it does not understand.  What it had established by then still stands: an error /
        # item that was built from understood code without the Line of its source line is a violation, not a no-verdict
        holds = {(id(ev['node']), ev['attr']) for ev in it.ev_store.values() if any(is_line(a) for a in ev['val'])}
        if any(id(ev['site']) in it.approx_sites and (id(ev['node']), ev['attr']) in holds and any(not is_line(a) for a in ev['val']) for ev in it.ev_store.values()):
            raise           # values of unknown shape were stored into Line-holding attributes: what is read back proves nothing
        for ev in sorted(it.ev_store.values(), key=lambda e: (getattr(e['site'], 'lineno', 0), e['attr'])):
            if (id(ev['node']), ev['attr']) not in holds:
                continue
            bad = sorted({a for a in ev['val'] if not is_line(a)}, key=str)
            if not bad or not all(a == NONE or a[0] in ('str', 'c', 'tok') for a in bad) or overwritten_after_construction(it, ev):
                continue
            is_err = any(it.is_exception_class(c) for c in ev['cls'])
            names = '/'.join(sorted(ev['cls']))
            what = ', '.join(sorted({'None' if a == NONE else 'text' for a in bad}))
            msg = ('this assembler error does not carry the Line of the faulty source line (its `{}` may be: {})' if is_err else
                   '{} is built without the Line of the source line it derives from (its `{{}}` may be: {{}})'.format(names)).format(ev['attr'], what)
            rep.fail(Finding('R15.2.line' if is_err else 'R15.5.items', ev['qual'], ev['site'], msg, line=getattr(ev['site'], 'lineno', None)),
                     instance='{} {} {}'.format(ev['qual'], names, unparse(ev['site'])[:60]))
        if not rep.findings:
            raise
        rep.analysed['interpretation stopped'] = str(stopped)[:200]
        return rep
    rep.count('functions reached from assemble', len(it.reached))
    for (ret, excs), arm in zip(results, ('compress=False', 'compress=True')):
        if not ret:
            raise AnalysisError('assemble({}) never returns in the interpretation: nothing was analysed'.format(arm))
    # ---- R15.1 / R15.3: what leaves assemble ----------------------------------------------------------------------------------
    escaping = {}
    for (ret, excs), arm in zip(results, ('compress=False', 'compress=True')):
        for rec in excs:
            if it.is_subclass(rec.cls, ERROR):
                continue
            k = (rec.cls, id(rec.origin))
            cur = escaping.get(k)
            if cur is None or (cur.uncertain and not rec.uncertain) or (cur.uncertain == rec.uncertain and len(rec.chain) < len(cur.chain)):
                escaping[k] = rec
    undecided = []
    for (exc, _), rec in sorted(escaping.items(), key=lambda t: (t[0][0], getattr(t[1].origin, 'lineno', 0))):
        chain = [c for c in rec.chain if c[0] != '<entry>']
        q_origin = chain[-1][0]
        if rec.uncertain:
            undecided.append('{}:{} whether `{}` can raise {} depends on a value the analysis does not know'.format(q_origin, getattr(rec.origin, 'lineno', '?'), unparse(rec.origin)[:50], exc))
            continue
        if isinstance(rec.origin, ast.Raise) and q_origin in it.funcs and any(id(n) in it.unrefined_type_tests for n in walk_no_nested(it.funcs[q_origin])):
            # an explicit raise in a function that tests types in a way the interpretation cannot follow: whether the raise is
            # reachable is not known
            undecided.append('{}:{} whether `{}` is reachable depends on a type test the analysis does not follow'.format(
                q_origin, rec.origin.lineno, unparse(rec.origin)[:50]))
            continue
        again = revisits_processed_element(it, rec, chain)
        if again:
            undecided.append(again)
            continue
        entry = chain[1][0] if len(chain) > 1 else chain[0][0]
        text = chain_text(rec)
        is_eval = isinstance(rec.origin, ast.Call) and isinstance(rec.origin.func, ast.Name) and rec.origin.func.id == 'eval'
        rule = 'R15.3.eval' if is_eval else 'R15.1.escape'
        what = 'python exceptions from evaluating a user expression can leak (no catch-all converting handler around eval)' if is_eval else \
            '{} raised here leaves assemble() without being converted into an AssemblerError carrying the source line'.format(exc)
        rep.fail(Finding(rule, '{} via {}'.format(q_origin, entry), rec.origin, '{}; call chain: {}'.format(what, text),
                         line=getattr(rec.origin, 'lineno', None), detail={'chain': text}), instance='{} {} via {}'.format(exc, q_origin, entry))
    # positive evidence: origins reached and the handlers that convert them
    origins = {k: v for k, v in it.ev_origin.items() if not it.is_subclass(v[2], ERROR)}
    rep.analysed['exception origins reached'] = len(origins)
    conv = {}
    for (hid, rkey), (q, h, rec, how) in it.ev_handler.items():
        if it.is_subclass(rec.cls, ERROR) or rec.implicit:
            continue
        conv.setdefault((id(rec.origin), hid), (q, h, rec))
    for (oid, hid), (q, h, rec) in sorted(conv.items(), key=lambda t: (t[1][0], getattr(t[1][2].origin, 'lineno', 0))):
        if (rec.cls, oid) not in escaping:
            oq = rec.chain[-1][0]
            rep.ok('R15.1.escape', '{} from {}:{} is caught in {}'.format(rec.cls, oq, getattr(rec.origin, 'lineno', '?'), q))
    rep.analysed['conversions seen'] = len(conv)
    for k, v in sorted(it.ev_discharge.items(), key=lambda t: getattr(t[1][1], 'lineno', 0)):
        q, node, why = v[0], v[1], v[2]
        if why == 'dominated':
            rep.ok('R15.1.dominated', '{}: {} was already evaluated without raising on every path to this call'.format(q, unparse(node)[:80]))
        else:
            rep.ok('R15.1.size-token', '{}: {} reads the size token the reader appended from os.path.getsize() ({} lines)'.format(q, unparse(node)[:60], '/'.join(v[3])))
    unreached_raises = 0
    for q in sorted(it.reached):
        fn = it.funcs[q]
        if isinstance(fn, ast.Lambda):
            continue
        for n in walk_no_nested(fn):
            if isinstance(n, ast.Raise) and id(n) not in it.reached_nodes:
                unreached_raises += 1
                rep.ok('R15.1.dead', '{}: `{}` is unreachable in the interpretation'.format(q, unparse(n)[:70]))
    # ---- R15.2 / R15.5.items: values flowing into Line-holding attributes ---------------------------------------------------------
    line_nodes = set()
    for ev in it.ev_store.values():
        if any(is_line(a) for a in ev['val']):
            line_nodes.add((id(ev['node']), ev['attr']))
    n_checked = n_ae = 0
    polluted = False
    line_findings = []
    for ev in sorted(it.ev_store.values(), key=lambda e: (getattr(e['site'], 'lineno', 0), e['attr'])):
        if (id(ev['node']), ev['attr']) not in line_nodes:
            continue
        is_err = any(it.is_exception_class(c) for c in ev['cls'])
        n_checked += 1
        n_ae += 1 if is_err else 0
        bad = sorted({a for a in ev['val'] if not is_line(a)}, key=str)
        rule = 'R15.2.line' if is_err else 'R15.5.items'
        names = '/'.join(sorted(ev['cls']))
        site = ev['site']
        if bad and id(site) in it.approx_sites:
            undecided.append('{}:{} the arguments of {} come from a * / ** expansion whose shape the analysis does not know'.format(ev['qual'], getattr(site, 'lineno', '?'), unparse(site)[:50]))
            polluted = True
            continue
        if bad and overwritten_after_construction(it, ev):
            rep.ok(rule, '{}: {} gets its `{}` right after it is built ({})'.format(ev['qual'], names, ev['attr'], unparse(site)[:60]), nontrivial=False)
            continue
        if bad:
            what = ', '.join(sorted({'None' if a == NONE else ('text' if a[0] in ('str', 'c', 'tok') else a[0]) for a in bad}))
            msg = ('this assembler error does not carry the Line of the faulty source line (its `{}` may be: {})' if is_err else
                   '{} is built without the Line of the source line it derives from (its `{{}}` may be: {{}})'.format(names)).format(ev['attr'], what)
            line_findings.append((Finding(rule, ev['qual'], site, msg, line=getattr(site, 'lineno', None)), '{} {} {}'.format(ev['qual'], names, unparse(site)[:60])))
            continue
        lost = [a for a in ev['val'] if a[2] in ('*', '?')]
        if lost:
            undecided.append('{}:{} {} (which line the {} carries is not established)'.format(ev['qual'], getattr(site, 'lineno', '?'), unparse(site)[:50], names))
            continue
        rep.ok(rule, '{}: {} carries the line of the element being processed ({})'.format(ev['qual'], names, unparse(site)[:60]), nontrivial=False)
    for f_, inst in line_findings:
        if polluted:
            # values of unknown shape were stored into Line-holding attributes: what is read back from them proves nothing
            undecided.append('{}:{} {}'.format(f_.construct, f_.line, f_.stmt[:50]))
        else:
            rep.fail(f_, instance=inst)
    rep.analysed['Line-holding attribute stores checked'] = n_checked
    rep.analysed['AssemblerError constructions'] = n_ae
    # ---- R15.5.origin -----------------------------------------------------------------------------------------------------------
    n_lines = 0
    for nid, evs in it.ev_line.items():
        for (q, node, args) in evs:
            n_lines += 1
            vals = list(args.pos) + [frozenset()] * 3
            c, iq = it.find_method(LINE, '__init__')
            pnames = [a.arg for a in it.funcs[iq].args.args[1:]] if iq else []
            for i, pn in enumerate(pnames[:3]):
                if pn in args.kw:
                    vals[i] = args.kw[pn]
            files, numbers, texts = vals[0], vals[1], vals[2]
            origins_ = set()
            plain = moved = False
            for a in texts:
                if a[0] == 'str' and isinstance(a[2], tuple) and a[2][0] == 'elem':
                    origins_.add(a[2][1])
                    moved = moved or len(a[2]) > 2      # taken from a filtered / shifted copy of the lines
                else:
                    plain = True
            c_, iq_ = it.find_method(LINE, '__init__')
            sym_f = args.syms.get(0, args.syms.get(pnames[0] if pnames else None))
            sym_n0 = args.syms.get(1, args.syms.get(pnames[1] if len(pnames) > 1 else None))
            lfields_, lparams_ = init_param_fields(it, LINE)
            if isinstance(sym_f, tuple) and isinstance(sym_n0, tuple) and sym_f[0] == 'fld' and sym_n0[0] == 'fld' and sym_f[1] == sym_n0[1] \
                    and len(lparams_) > 1 and lparams_[0] in lfields_.get(sym_f[2], ()) and lparams_[1] in lfields_.get(sym_n0[2], ()):
                # a Line rebuilt from the file and number of one existing Line (its text may be rewritten): same place
                rep.ok('R15.5.origin', '{}: Line rebuilt with the file and number of the line it replaces'.format(q), nontrivial=False)
                continue
            if plain or not origins_:
                one_line = all(a[0] == 'c' and a[2] == 1 for a in numbers) and all(a[0] == 'c' for a in files)
                if one_line and not origins_:
                    rep.ok('R15.5.origin', '{}: a one-line source is line 1 of a constant name'.format(q), nontrivial=False)
                else:
                    undecided.append('{}:{} the text of this Line is not an element of <source>.splitlines()'.format(q, node.lineno))
                continue
            wrong = None
            # the number may also be a counter with a known offset from the position the text was read at (rows[i] ... i + 1)
            sym_n = args.syms.get(1, args.syms.get(pnames[1] if len(pnames) > 1 else None))
            sym_t = args.syms.get(2, args.syms.get(pnames[2] if len(pnames) > 2 else None))
            by_counter = None
            if isinstance(sym_n, tuple) and sym_n[0] == 'ctr' and isinstance(sym_t, tuple) and sym_t[0] == 'at' and sym_n[1] == sym_t[1]:
                by_counter = sym_n[2] - sym_t[2]
            for a in numbers:
                if by_counter is not None and a[0] != 'idx':
                    if by_counter != 1:
                        wrong = 'the line number is the position of the text counted from {} (must be 1-based)'.format(by_counter)
                    continue
                if a[0] == 'idx':
                    if a[1] is None:
                        undecided.append('{}:{} enumerate() start is not a known constant'.format(q, node.lineno))
                    elif a[1] != 1:
                        wrong = 'the line number is the index counted from {} (must be 1-based)'.format(a[1])
                    elif set(x for x in (a[2] or ())) != origins_:
                        if not moved and (not a[2] or any(mentions_origin(x, origins_) for x in a[2])):
                            # a sequence made from the source lines in a way that is not followed (a copy would be fine)
                            undecided.append('{}:{} which sequence the line number counts is not established'.format(q, node.lineno))
                        else:
                            wrong = 'the line number counts the elements of another sequence than the physical lines the text is taken from'
                else:
                    undecided.append('{}:{} the line number is not an enumerate() index'.format(q, node.lineno))
            allowed = set()
            const_ok = False
            for L in origins_:
                src = L[1]
                if isinstance(src, tuple) and src[0] == 'read':
                    allowed.add(('str', 'u', src[1]))
                elif isinstance(src, tuple) and src[0] == 'p':
                    const_ok = True
                else:
                    undecided.append('{}:{} where the text being split comes from is not established'.format(q, node.lineno))
            for a in files:
                if a in allowed or (const_ok and a[0] == 'c' and a[1] == 'str'):
                    continue
                if a[0] == 'str' and a[2] is None:
                    undecided.append('{}:{} where the file name of this Line comes from is not established'.format(q, node.lineno))
                elif a[0] in ('str', 'c'):
                    wrong = wrong or 'the file recorded is not the path that was opened to read this source'
                else:
                    undecided.append('{}:{} the file of this Line is not understood'.format(q, node.lineno))
            rep.check(wrong is None, 'R15.5.origin', '{}: Line(path of the file being read, 1-based index, raw text) per physical line'.format(q),
                      lambda node=node, wrong=wrong, q=q: Finding('R15.5.origin', q, node, 'source lines are not recorded with the path of the file being read and their 1-based '
                                                                 'line number: ' + wrong, line=node.lineno))
    rep.analysed['Line constructions'] = n_lines
    if not n_lines:
        rep.fail(Finding('R15.5.origin', ENTRY, it.funcs[ENTRY], 'no Line is created per source line', line=it.funcs[ENTRY].lineno))
    # ---- R15.7 -----------------------------------------------------------------------------------------------------------------
    for (hid, oid), (q, h, new, old) in sorted(it.ev_relabel.items(), key=lambda t: (t[1][0], getattr(t[1][2].origin, 'lineno', 0))):
        oq = old.chain[-1][0]
        if new.atom[2] in ('*', '?') or old.atom[2] in ('*', '?'):
            undecided.append('{}:{} whether this handler keeps the line of the AssemblerError it catches is not established'.format(q, getattr(new.origin, 'lineno', '?')))
            continue
        rep.fail(Finding('R15.7.relabel', q, new.origin,
                         'this handler also catches AssemblerError (e.g. the one raised at {}:{}) and replaces it by a new error carrying another line: a fault in an included '
                         'file / deeper construct is reported at the wrong file and line'.format(oq, getattr(old.origin, 'lineno', '?')),
                         line=getattr(new.origin, 'lineno', None)), instance='{} handler at line of {}'.format(q, unparse(h.type) if getattr(h, 'type', None) is not None else 'bare'))
    if not any(new.atom[2] not in ('*', '?') and old.atom[2] not in ('*', '?') for (_, _, new, old) in it.ev_relabel.values()):
        rep.ok('R15.7.relabel', 'no handler re-labels an error that already carries its line')
    # ---- R15.6 rendering --------------------------------------------------------------------------------------------------------
    err_fields = {ev['attr'] for ev in it.ev_store.values() if ERROR in ev['cls'] and (id(ev['node']), ev['attr']) in line_nodes}
    ae = it.classes[ERROR]
    ln = it.classes[LINE]
    keeps = bool(err_fields)
    rep.check(keeps, 'R15.6.render', 'AssemblerError keeps the line it is given',
              lambda: Finding('R15.6.render', ERROR + '.__init__', ae.node, 'the error does not store its line argument', line=ae.node.lineno), nontrivial=False)
    c, sq = it.find_method(ERROR, '__str__')
    shown, opaque = returned_self_attrs(it, ERROR, it.funcs[sq]) if sq else (set(), False)
    fields, params = init_param_fields(it, ERROR) or ({}, [])
    msg_fields = {f for f, ps in fields.items() if params and params[0] in ps}
    # the property is about the line: how the message is spelled out (self.message, self.args[0], super().__str__()) is not judged
    s_ok = sq is not None and bool(shown & err_fields)
    if sq is None:
        # no __str__ of its own: Exception.__str__ shows the one argument handed to the base constructor
        shown_params = base_init_text(it, ERROR)
        line_params = {p_ for f, ps in fields.items() if f in err_fields for p_ in ps}
        if shown_params is None:
            undecided.append('{} has no __str__ and what it hands to Exception.__init__ is not understood'.format(ERROR))
            s_ok = True
        else:
            s_ok = bool(shown_params & line_params)
    if not s_ok and opaque:
        undecided.append('{}.__str__ hands self to code that is not followed: what it shows is not established'.format(ERROR))
        s_ok = True
    rep.check(s_ok, 'R15.6.render', 'AssemblerError.__str__ shows the line and the message',
              lambda: Finding('R15.6.render', ERROR + '.__str__', it.funcs[sq] if sq else ae.node, 'the error text does not include the source line', line=ae.node.lineno))
    c, lq = it.find_method(LINE, '__str__')
    lshown, lopaque = returned_self_attrs(it, LINE, it.funcs[lq]) if lq else (set(), False)
    lfields, lparams = init_param_fields(it, LINE) or ({}, [])
    need = []
    for i in (0, 1):
        if i < len(lparams):
            need.append({f for f, ps in lfields.items() if lparams[i] in ps})
    l_ok = lq is not None and len(need) == 2 and all(n and (lshown & n) for n in need)
    if not l_ok and lopaque:
        undecided.append('{}.__str__ hands self to code that is not followed: what it shows is not established'.format(LINE))
        l_ok = True
    rep.check(l_ok, 'R15.6.render', 'Line.__str__ shows file and line number',
              lambda: Finding('R15.6.render', LINE + '.__str__', it.funcs[lq] if lq else ln.node, 'a Line does not render its file and number', line=ln.node.lineno))
    # ---- coverage of the interpretation (a vacuous pass is analysis-broken) -----------------------------------------------------
    total = visited = 0
    for q in it.reached:
        fn = it.funcs[q]
        if isinstance(fn, ast.Lambda):
            continue
        for n in walk_no_nested(fn):
            if isinstance(n, ast.stmt) and not isinstance(n, (ast.FunctionDef, ast.ClassDef)):
                total += 1
                visited += 1 if id(n) in it.reached_nodes else 0
    rep.analysed['statements of reached functions'] = total
    rep.analysed['statements interpreted'] = visited
    rep.analysed['percent of reached statements interpreted'] = (100 * visited) // max(total, 1)
    # what the mnemonic table binds must have been called: partial(...) targets, closures, or objects with __call__
    enc = set()
    n_bindings = 0
    table = it.module.store.vars.get('INSTRUCTIONS')
    for a in (table or ()):
        if a[0] == 'kdict':
            for _, v in a[1]:
                for b in v:
                    n_bindings += 1
                    f = b[1] if b[0] == 'partial' else b
                    if f[0] in ('fn', 'clo'):
                        enc.add(f[1])
                    elif f[0] == 'obj' and f[1] in it.classes:
                        c_, q_ = it.find_method(f[1], '__call__')
                        if q_ is not None:
                            enc.add(q_)
    rep.analysed['mnemonic bindings'] = n_bindings
    rep.analysed['functions bound by mnemonics'] = len(enc)
    rep.analysed['functions bound by mnemonics reached'] = len(enc & it.reached)
    rep.analysed['item / token / error constructions reached'] = len(it.ev_construct)
    rep.sample({'conversions': ['{} from {}:{} in {}'.format(r.cls, r.chain[-1][0], getattr(r.origin, 'lineno', '?'), q) for (q, h, r) in list(conv.values())[:12]]})
    for nid, (q, node, callee) in sorted(it.arity_mismatch.items(), key=lambda t: getattr(t[1][1], 'lineno', 0)):
        if not any(k[1] == nid for k in it.call_edges):
            undecided.append('{}:{} no callee of `{}` accepts the arguments as the analysis sees them'.format(q, getattr(node, 'lineno', '?'), unparse(node)[:50]))
    if undecided and not rep.findings:
        raise AnalysisError('not established: ' + '; '.join(sorted(set(undecided))[:4]))
    if enc and len(enc & it.reached) < len(enc):
        if not rep.findings:
            raise AnalysisError('encoders bound in INSTRUCTIONS are not reached from assemble(): {}'.format(sorted(enc - it.reached)[:5]))
    rep.floor('functions reached from assemble', 100)
    rep.floor('exception origins reached', 8)
    rep.floor('conversions seen', 5)
    rep.floor('AssemblerError constructions', 5)
    rep.floor('Line-holding attribute stores checked', 60)
    rep.floor('mnemonic bindings', 40)
    rep.floor('functions bound by mnemonics', 1)
    rep.floor('percent of reached statements interpreted', 90)
    return rep
