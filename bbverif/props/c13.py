"""C13 - documented spelling variants of the same program assemble to identical bytes (structural clauses)."""
from ..core import Report, Finding, AnalysisError
from ..facts import Facts
from .. import encprops, lexrules

LEVEL = 'other'


def check_base_offset(rep, facts):
    have = facts.sets.get('BASE_OFFSET_INSTRUCTIONS')
    if have is None:
        raise AnalysisError('anchor vanished: BASE_OFFSET_INSTRUCTIONS')
    want = {'jalr', 'lb', 'lh', 'lw', 'lbu', 'lhu', 'sb', 'sh', 'sw', 'c.lw', 'c.sw'}
    node = facts.assign_nodes['BASE_OFFSET_INSTRUCTIONS']
    present = set(facts.instructions())
    for m in sorted(want & present):
        rep.check(m in have, 'R13.2.base-offset', '`{} reg, imm(reg)` is accepted'.format(m),
                  lambda m=m: Finding('R13.2.base-offset', 'BASE_OFFSET_INSTRUCTIONS', 'missing ' + m, '{} is a base+offset instruction but its `imm(reg)` spelling is not recognised'.format(m), line=node.lineno))
    extra = sorted(have - want)
    rep.check(not extra, 'R13.2.base-offset', 'only base+offset instructions take the imm(reg) spelling',
              lambda: Finding('R13.2.base-offset', 'BASE_OFFSET_INSTRUCTIONS', 'extra', '{} are given the imm(reg) spelling although they have no base register + offset form'.format(extra), line=node.lineno), nontrivial=False)


def shared_engine_rules(rep, repo, facts):
    doc = repo.text['docs/instruction_reference.rst']
    encprops.check_wiring(rep, facts, 'R13.2.wiring', False, doc)
    encprops.check_wiring(rep, facts, 'R13.2.wiring', True, doc)
    # R13.6 decisions must not depend on how a register is spelled: predicates compare register *numbers*
    from ..comprel import CompRel
    rel = CompRel(facts)
    for fac, field in rel.raw_compares:
        node = rel.factories[fac][2]
        rep.fail(Finding('R13.6.normalised', 'transform_compressible.' + fac, node,
                         'the compression predicate {} compares the register operand `{}` as written instead of its number (lookup_register): `addi a0, x10, 1` and `addi a0, a0, 1` '
                         'name the same registers but are compressed differently, so bytes and labels depend on the spelling'.format(fac, field), line=node.lineno),
                 instance=fac + ' ' + str(field))
    if not rel.raw_compares:
        rep.ok('R13.6.normalised', 'all {} compression predicates compare register numbers, not spellings'.format(len(rel.factories)))


def run(repo, tier):
    facts = Facts(repo.asm)
    rep = Report('C13', LEVEL,
                 'Structural clauses of spelling invariance: the REGISTERS table maps number, numeric string, xN and every ABI alias of '
                 'register N to N (and nothing else); in each parse branch that accepts both, `imm(reg)` and `reg, imm` deliver the same '
                 'roles to the same constructor parameters (token-provenance dataflow) and every load / store / jalr takes both spellings; the '
                 'characters consumed between tokens (regex AST of the split pattern plus replacements made before it) are exactly whitespace '
                 'and commas; on the dataflow from the line text to the returned token list (followed through locals, helpers, precompiled '
                 'patterns, partition / re.sub / replace / strip, comprehensions, filter(), accumulator loops) the comment is removed before the '
                 'split, empty tokens are dropped and leading / trailing whitespace never yields a token; every Line is numbered by its position '
                 'in the unfiltered list of physical lines; every token line handed to parse_item on the way from assemble is known to have '
                 'tokens; lookup_register keys the table with int(operand, 0) where that succeeds and the operand itself otherwise.')
    rep.trusted_base = ['CPython ast and re._parser', 'bbverif.wiring token provenance', 'bbverif.lexrules abstract values']
    rep.not_decided = ['equality of whole binaries under arbitrary combinations of rewrites, in particular the interaction of the special-cased string / error lexing '
                       'with indentation and comments', 'integers spelled in forms only eval or only int(., 0) accepts']
    encprops.check_registers(rep, facts, 'R13.1.registers')
    check_base_offset(rep, facts)
    # the front end, decided on the dataflow of the line text / token lists / line objects / register operand (lexrules)
    lexrules.check_lexer(rep, facts)
    skips_blank = lexrules.check_reader(rep, facts)
    lexrules.check_handover(rep, facts, skips_blank)
    lexrules.check_register_numbers(rep, facts)
    try:
        shared_engine_rules(rep, repo, facts)
    except AnalysisError as e:
        # the shared encoder / compression engines cannot follow the tree: that leaves R13.2.wiring / R13.6 undecided, but it must
        # not mask a violation that the rules above have already established (same discipline as the deferred instance floors)
        if not rep.findings:
            raise
        rep.note('R13.2.wiring / R13.6 not decided ({}); the violations found by the other rules stand on their own'.format(str(e)[:160]))
    rep.floor('register spellings checked', 129)
    rep.floor('parse paths analysed', 30)
    # semantic floors of the front-end rules: at least one path of each kind was positively understood
    rep.floor('lexer paths analysed', 1)
    rep.floor('Line constructions analysed', 1)
    rep.floor('parse_item hand-overs analysed', 1)
    rep.floor('register table lookups analysed', 1)
    return rep
