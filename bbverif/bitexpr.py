"""Expression evaluation of the bit-provenance interpreter (values are pure functions of the original operands)."""
import ast

from .astutil import fold, NotConstant, unparse, dotted
from .bitcells import (Unsupported, Param, View, Bits, CU32, ModVal, XorVal, NegMask, Maybe, TableVal, Opaque, FuncValue, TOP,
                       PCell, INF, Record, RecordType, ClassValue, Obj, BoundMethod, TableRef, LetterTerms, PartialValue)

CONSTS = (int, bool, str, type(None))
STR_METHODS = {'lower', 'upper', 'strip', 'lstrip', 'rstrip', 'startswith', 'endswith', 'replace', 'casefold', 'title'}
BUILTIN_NAMES = {'sum', 'int', 'divmod', 'type', 'isinstance', 'len', 'min', 'max', 'abs', 'bool', 'tuple', 'list', 'c_uint32',
                 'str', 'range', 'dict', 'sorted', 'reversed', 'enumerate', 'zip'}


def is_pow2(n):
    return isinstance(n, int) and not isinstance(n, bool) and n > 0 and n & (n - 1) == 0


def norm_const(v):
    if isinstance(v, tuple):
        return [norm_const(x) for x in v]
    if isinstance(v, list):
        return [norm_const(x) for x in v]
    return v


class ExprMixin:
    # -- operand sources -------------------------------------------------------------------------
    def ensure_src(self, st, src):
        if src not in st.cells:
            if src[0] != 'imm':
                raise Unsupported('internal: operand source {} used before its lookup'.format(src))
            st.cells[src] = [PCell(-INF, INF)]

    def as_int_view(self, v, st, node):
        """Use a value as an integer operand."""
        if isinstance(v, Param):
            src = ('imm', v.name)
            self.ensure_src(st, src)
            return View(src)
        if isinstance(v, Maybe):
            if st.lookup.get(v.view.src) == 'hit':
                return v.view
            if isinstance(v.default, int) and not isinstance(v.default, bool):
                self.problem('operand {}: a spelling that is not a key of the register table is not refused but encoded as {}'.format(
                    v.view.src[1], v.default))
                return v.view
            if isinstance(v.default, Param):
                # the operand as written goes on where it is no key: a string ends in a TypeError, a number outside the table
                # (add 40, x1, x2) is encoded as it stands
                self.problem('operand {}: a spelling that is not a key of the register table is not refused: the operand as '
                             'written is encoded'.format(v.view.src[1]))
                return v.view
            if v.default is None:
                # None in integer arithmetic is a TypeError: the spellings that are no key end here
                self.raises.append({'node': node, 'fn': self.chain()})
                st.lookup[v.view.src] = 'hit'
                return v.view
            raise Unsupported('possibly-missing table entry used as an integer at {}'.format(unparse(node)))
        if isinstance(v, ModVal):
            return self.mod_as_bits(v, st, node)
        if isinstance(v, View):
            self.ensure_src(st, v.src)
        return v

    def problem(self, msg):
        if msg not in self.problems:
            self.problems.append(msg)

    # -- names ------------------------------------------------------------------------------------------
    def lookup_name(self, name, st, node=None):
        if name in st.env:
            v = st.env[name]
            if v is TOP:
                raise Unsupported('variable {!r} has different abstract values on joined paths'.format(name))
            if isinstance(v, Maybe) and st.lookup.get(v.view.src) == 'hit':
                return v.view
            return v
        if name in ('True', 'False', 'None'):
            return {'True': True, 'False': False, 'None': None}[name]
        return self.module_value(name)

    def module_value(self, name):
        mm = self.model
        facts = self.facts
        if name in mm.values:
            return mm.values[name]
        if name in mm.busy:
            raise Unsupported('module-level name {!r} is defined in terms of itself'.format(name))
        if mm.bind_count.get(name, 0) == 0:
            raise Unsupported('unbound name {!r} in {}'.format(name, self.fn_stack[-1] if self.fn_stack else '?'))
        if name in facts.funcs:
            if not mm.stable(name):
                raise Unsupported('function {!r} is bound more than once at module level'.format(name))
            v = FuncValue(facts.funcs[name])
            mm.values[name] = v
            return v
        if name in mm.global_decl:
            raise Unsupported('module-level name {!r} is rebound by a function (global statement)'.format(name))
        if name in mm.attr_store_bases:
            raise Unsupported('attributes of the module-level name {!r} are assigned at run time'.format(name))
        if name in facts.classes:
            if not mm.stable(name):
                raise Unsupported('class {!r} is bound more than once at module level'.format(name))
            v = self.class_value(facts.classes[name].node)
            mm.values[name] = v
            return v
        if mm.written_by_functions(name) and not (name in facts.tables and mm.table_mode(name) == 'extended'):
            raise Unsupported('module-level name {!r} is modified by a function'.format(name))
        if name in facts.tables and name in facts.consts and mm.stable(name):
            v = TableRef(name)
            mm.values[name] = v
            return v
        if name in facts.consts and mm.stable(name):
            v = norm_const(facts.consts[name])
            mm.values[name] = v
            return v
        if not mm.stable(name):
            raise Unsupported('module-level name {!r} is bound {} times: its value at call time is not folded'.format(
                name, mm.bind_count.get(name)))
        st_node = facts.assign_nodes.get(name)
        if st_node is None or not isinstance(st_node, ast.Assign):
            raise Unsupported('module-level name {!r} is not a plain assignment'.format(name))
        mm.busy.add(name)
        try:
            v = self.eval_module_expr(st_node.value, name)
        finally:
            mm.busy.discard(name)
        mm.values[name] = v
        return v

    def eval_module_expr(self, expr, name):
        """Value of a module-level initialiser, evaluated by this interpreter on constants only (nothing of the analysed
        module is imported or run)."""
        from .bitstate import State
        sub = self.__class__(self.facts)
        sub.fn_stack = ['<module:{}>'.format(name)]
        st = State()
        v = sub.ev(expr, st)
        if st.dead:
            raise Unsupported('initialiser of {!r} always raises'.format(name))
        sub.freeze(v, st)
        if st.cells or sub.masks or not self.is_static(v):
            raise Unsupported('initialiser of {!r} is not a constant'.format(name))
        if isinstance(v, FuncValue) and v.label is None:
            v.label = name
        return v

    def record_class(self, cdef):
        """class X(NamedTuple) / @dataclass class X with annotated fields only -> RecordType"""
        bases = [dotted(b) for b in cdef.bases]
        decos = [dotted(d.func if isinstance(d, ast.Call) else d) for d in cdef.decorator_list]
        is_nt = any(b in ('NamedTuple', 'typing.NamedTuple') for b in bases) and len(bases) == 1 and not decos
        is_dc = (not bases or bases == ['object']) and len(decos) == 1 and decos[0] in ('dataclass', 'dataclasses.dataclass')
        if not (is_nt or is_dc):
            raise Unsupported('class {} is not a plain record (NamedTuple / dataclass)'.format(cdef.name))
        fields, defaults = [], {}
        for s in cdef.body:
            if isinstance(s, ast.Expr) and isinstance(s.value, ast.Constant):
                continue
            if isinstance(s, ast.AnnAssign) and isinstance(s.target, ast.Name):
                fields.append(s.target.id)
                if s.value is not None:
                    defaults[s.target.id] = self.default_value(s.value, cdef)
                continue
            if isinstance(s, ast.Assign) and len(s.targets) == 1 and isinstance(s.targets[0], ast.Name):
                # the loader rewrites `x: T = v` to `x = v`
                fields.append(s.targets[0].id)
                defaults[s.targets[0].id] = self.default_value(s.value, cdef)
                continue
            if isinstance(s, ast.Pass):
                # the loader rewrites a bare `x: T` to `pass`: the field names are gone
                raise Unsupported('record class {}: field declarations without defaults are not visible to the analysis'.format(cdef.name))
            if isinstance(s, ast.FunctionDef) and not (s.name.startswith('__') and s.name.endswith('__')):
                continue        # plain methods do not change construction or field access
            raise Unsupported('class {} has members beyond annotated fields'.format(cdef.name))
        return RecordType(cdef.name, fields, defaults, is_nt)

    def plain(self, v):
        """a table used as an ordinary dict value (iteration, len, copies): only when no function writes to it"""
        if isinstance(v, TableRef):
            table, mode = self.table(v.name)
            if mode != 'closed':
                raise Unsupported('table {} grows at run time and is used as a whole'.format(v.name))
            return norm_const(dict(table))
        return v

    def is_static(self, v):
        if isinstance(v, CONSTS) or isinstance(v, (Opaque, FuncValue, RecordType, TableRef)):
            return True
        if isinstance(v, Record):
            return all(self.is_static(x) for x in v.values.values())
        if isinstance(v, ClassValue):
            return True
        if isinstance(v, PartialValue):
            return self.is_static(v.func) and all(self.is_static(x) for x in v.kwargs.values())
        if isinstance(v, Obj):
            if v.frozen is None:
                return False
            if not hasattr(v, '_static'):
                v._static = True        # cycles: assume, then verify
                v._static = all(self.is_static(x) for x in v.frozen.values())
            return v._static
        if isinstance(v, BoundMethod):
            return self.is_static(v.obj)
        if isinstance(v, list):
            return all(self.is_static(x) for x in v)
        if isinstance(v, dict):
            return all(self.is_static(x) for x in v.values())
        if isinstance(v, (set, frozenset, range)):
            return True
        return False

    # -- expression evaluation ---------------------------------------------------------------------
    def ev(self, node, st):
        if isinstance(node, ast.Constant):
            return node.value
        if isinstance(node, (ast.Name, ast.Attribute)):
            opv = self.operator_value(node, st)
            if opv is not None:
                return opv
        if isinstance(node, ast.Name):
            return self.lookup_name(node.id, st, node)
        if isinstance(node, (ast.List, ast.Tuple)):
            out = []
            for e in node.elts:
                if isinstance(e, ast.Starred):
                    v = self.ev(e.value, st)
                    if not isinstance(v, list):
                        raise Unsupported('starred value is not a folded sequence: {}'.format(unparse(e)))
                    out.extend(v)
                else:
                    out.append(self.ev(e, st))
                if st.dead:
                    return None
            return out
        if isinstance(node, ast.Dict):
            out = {}
            for k, v in zip(node.keys, node.values):
                if k is None:
                    d = self.ev(v, st)
                    if not isinstance(d, dict):
                        raise Unsupported('dict unpacking of a non-dict: {}'.format(unparse(node)))
                    out.update(d)
                else:
                    kk = self.ev(k, st)
                    if not isinstance(kk, (int, str)):
                        raise Unsupported('dict key is not a constant: {}'.format(unparse(k)))
                    out[kk] = self.ev(v, st)
            return out
        if isinstance(node, ast.JoinedStr):
            return Opaque('f-string')
        if isinstance(node, ast.GeneratorExp):
            # a generator is consumed once: folded to a list only where it is handed straight to its consumer
            parent = getattr(node, '_parent', None)
            once = (isinstance(parent, ast.Call) and any(a is node for a in parent.args)) \
                or (isinstance(parent, ast.Assign) and parent.value is node and all(isinstance(t, (ast.Tuple, ast.List)) for t in parent.targets)) \
                or (isinstance(parent, (ast.For, ast.comprehension)) and parent.iter is node) \
                or (isinstance(parent, ast.Starred) and isinstance(getattr(parent, '_parent', None), ast.Call))
            if not once:
                raise Unsupported('generator expression that is not the direct argument of a call: {}'.format(unparse(node)))
        if isinstance(node, (ast.ListComp, ast.GeneratorExp)):
            return self.comprehension(node, st)
        if isinstance(node, ast.DictComp):
            pair = ast.copy_location(ast.Tuple(elts=[node.key, node.value], ctx=ast.Load()), node)
            fake = ast.copy_location(ast.ListComp(elt=pair, generators=node.generators), node)
            out = {}
            for k, v in self.comprehension(fake, st) or []:
                if not isinstance(k, (int, str)):
                    raise Unsupported('dict key is not a constant: {}'.format(unparse(node.key)))
                out[k] = v
            return out
        if isinstance(node, ast.UnaryOp):
            if isinstance(node.op, ast.Not):
                return self.truth_value(node, st)
            v = self.ev(node.operand, st)
            if isinstance(v, (int, bool)):
                return fold(ast.UnaryOp(op=node.op, operand=ast.Constant(value=v)))
            if isinstance(node.op, ast.UAdd):
                return self.as_int_view(v, st, node)
            raise Unsupported('unary {} on abstract value: {}'.format(type(node.op).__name__, unparse(node)))
        if isinstance(node, ast.BoolOp):
            return self.boolop_value(node, st)
        if isinstance(node, ast.BinOp):
            a = self.ev(node.left, st)
            if st.dead:
                return None
            b = self.ev(node.right, st)
            if st.dead:
                return None
            return self.binop(node, a, b, st)
        if isinstance(node, ast.IfExp):
            return self.ifexp(node, st)
        if isinstance(node, ast.Lambda):
            self.check_no_rebinding(node, 'lambda')
            return FuncValue(node, st.env, 'lambda')
        if isinstance(node, ast.Call):
            return self.call(node, st)
        if isinstance(node, ast.Attribute):
            base = self.ev(node.value, st)
            if isinstance(base, CU32) and node.attr == 'value':
                return self.trunc32(base.v, st, node)
            if isinstance(base, Record) and node.attr in base.values:
                return base.values[node.attr]
            if isinstance(base, Obj) or type(base).__name__ == 'Super':
                v = self.get_attr(base, node.attr, st, node)
                if isinstance(v, TableRef) and node.attr in self.model.attr_mutations:
                    raise Unsupported('attribute {} holds table {} and is written through elsewhere'.format(node.attr, v.name))
                return v
            raise Unsupported('attribute .{} on abstract value'.format(node.attr))
        if isinstance(node, ast.Subscript):
            return self.subscript(node, st)
        if isinstance(node, ast.Compare):
            return self.truth_value(node, st)
        raise Unsupported('expression form {}: {}'.format(type(node).__name__, unparse(node)))

    def comprehension(self, node, st):
        """[elt for targets in <folded sequence> if <decided test> ...] unrolled"""
        saved = dict(st.env)
        out = []
        letters = []

        def rec(i):
            if st.dead:
                return
            if i == len(node.generators):
                out.append(self.ev(node.elt, st))
                return
            g = node.generators[i]
            if g.is_async:
                raise Unsupported('async comprehension')
            it = self.plain(self.ev(g.iter, st))
            if isinstance(it, dict):
                it = list(it.keys())
            if isinstance(it, range) and len(it) <= 4096:
                it = list(it)
            if isinstance(it, Opaque) and self.spelling_of(it) is not None and len(node.generators) == 1 and not g.ifs \
                    and isinstance(g.target, ast.Name):
                # the letters of an operand's spelling, known to come from a fixed alphabet: tabulate the element per letter
                base, distinct = self.spelling_of(it)
                alpha = [f[2] for f in st.facts if f[0] == 'letters' and f[1] == base]
                if len(alpha) == 1:
                    mapping = {}
                    for letter in alpha[0]:
                        st.env[g.target.id] = letter
                        mapping[letter] = self.ev(node.elt, st)
                        if st.dead:
                            return
                    letters.append(LetterTerms(base[1], mapping, distinct))
                    return
            if not isinstance(it, list):
                raise Unsupported('comprehension over something that is not a folded sequence: {}'.format(unparse(node)))
            for elem in it:
                self.bind_target(g.target, elem, st, node)
                if all(self.truth_value(c, st) for c in g.ifs):
                    rec(i + 1)
        rec(0)
        bound = set(st.env) - set(saved)
        for k in bound:
            del st.env[k]
        for k, v in saved.items():
            st.env[k] = v
        if letters and not st.dead:
            return letters[0]
        return None if st.dead else out

    def spelling_of(self, v):
        """(derived spelling, letters distinct?) for Opaque values that stand for the characters of an operand's spelling"""
        if not isinstance(v, Opaque) or not isinstance(v.desc, tuple):
            return None
        if v.desc[0] == 'letterseq':
            return v.desc[1], v.desc[2]
        if len(v.desc) == 2 and v.desc[0] in ('lower', 'upper', 'strip', 'casefold', 'lstrip', 'rstrip'):
            return v.desc, False
        return None

    def check_no_rebinding(self, fnode, name):
        """a nested function / lambda sees its free variables as they are now: refuse when the enclosing function rebinds one
        of them after this point"""
        if not self.def_stack:
            return
        free = {n.id for n in ast.walk(fnode) if isinstance(n, ast.Name) and isinstance(n.ctx, ast.Load)}
        inner = {id(m) for m in ast.walk(fnode)}
        for n in ast.walk(self.def_stack[-1]):
            if isinstance(n, ast.Name) and isinstance(n.ctx, ast.Store) and n.id in free and id(n) not in inner \
                    and (n.lineno, n.col_offset) > (fnode.lineno, fnode.col_offset):
                raise Unsupported('{} is rebound after the nested function {} that reads it was defined'.format(n.id, name))

    def truth_value(self, test, st):
        """a test used as a value: only when it is decided"""
        t, f, _ = self.split(test, st.clone())
        if t is not None and f is None:
            return True
        if f is not None and t is None:
            return False
        raise Unsupported('undecided test used as a value: {}'.format(unparse(test)))

    def py_truth(self, v):
        """Python truthiness of a folded value, or None"""
        if isinstance(v, CONSTS) or isinstance(v, (list, dict, set, frozenset)):
            return bool(v)
        if isinstance(v, (FuncValue, ClassValue, BoundMethod, Obj, RecordType)):
            return True
        if isinstance(v, TableRef):
            return bool(self.facts.tables[v.name])
        return None

    def boolop_value(self, node, st):
        is_or = isinstance(node.op, ast.Or)
        last = None
        for e in node.values:
            last = self.ev(e, st)
            if st.dead:
                return None
            t = self.py_truth(last)
            if t is None:
                raise Unsupported('boolean operator on abstract value outside a test: {}'.format(unparse(node)))
            if t == is_or:
                return last
        return last

    def subscript(self, node, st):
        base = self.ev(node.value, st)
        if st.dead:
            return None
        if isinstance(base, TableRef):
            key = self.ev(node.slice, st)
            return self.table_subscript(base.name, key, st, node)
        if isinstance(base, Obj):
            m = self.find_member(base.cls.name, '__getitem__')
            if m is None or m[0] != 'func' or m[1].decorator_list or isinstance(node.slice, ast.Slice):
                raise Unsupported('subscript of an instance of {}'.format(base.cls.name))
            return self.call_def(m[1], '{}.__getitem__'.format(m[2]), [base, self.ev(node.slice, st)], {}, st)
        idx = self.ev(node.slice, st) if not isinstance(node.slice, ast.Slice) else None
        if isinstance(base, dict) and isinstance(idx, (str, int)):
            if idx not in base:
                raise Unsupported('key {!r} missing in folded dict'.format(idx))
            return base[idx]
        if isinstance(base, Record) and base.rtype.is_tuple:
            base = base.as_list()
        if isinstance(base, list) and base and all(isinstance(x, int) and not isinstance(x, bool) and x >= 0 for x in base) \
                and isinstance(idx, (View, Bits, Param, ModVal)) or type(idx).__name__ == 'Lin' and isinstance(base, list):
            return self.table_of_constants(base, idx, st, node)
        if isinstance(base, list) and isinstance(idx, int) and not isinstance(idx, bool):
            if not -len(base) <= idx < len(base):
                raise Unsupported('index {} outside folded sequence'.format(idx))
            return base[idx]
        if isinstance(base, list) and isinstance(node.slice, ast.Slice):
            parts = [None if p is None else self.ev(p, st) for p in (node.slice.lower, node.slice.upper, node.slice.step)]
            if all(p is None or (isinstance(p, int) and not isinstance(p, bool)) for p in parts):
                return base[slice(*parts)]
        raise Unsupported('subscript on abstract value: {}'.format(unparse(node)))

    def table_of_constants(self, table, idx, st, node):
        """TABLE[i] for a fully constant table of non-negative integers and a bounded abstract index: every output bit is
        tabulated over the index bits; it must be a constant or one of the index bits (its provenance), else no verdict."""
        ib = self.to_bits(idx, st, node)
        if not all(isinstance(x, int) and not isinstance(x, bool) and x >= 0 for x in table):
            raise Unsupported('table of non-integer constants indexed by an abstract value: {}'.format(unparse(node)))
        syms = []
        for b in ib.bits:
            if isinstance(b, tuple) and b[0] != 'overlap' and b not in syms:
                syms.append(b)
            elif isinstance(b, tuple) and b[0] == 'overlap':
                raise Unsupported('table indexed by overlapping fields: {}'.format(unparse(node)))
        if len(syms) > 12:
            raise Unsupported('table indexed by more than 12 free bits: {}'.format(unparse(node)))
        rows = []
        for assign in range(1 << len(syms)):
            val = {s: (assign >> k) & 1 for k, s in enumerate(syms)}
            i = 0
            for pos, b in enumerate(ib.bits):
                bit = b if b in (0, 1) else val[b]
                i |= bit << pos
            if i >= len(table):
                raise Unsupported('index {} may exceed the table of {} entries: {}'.format(i, len(table), unparse(node)))
            rows.append((val, table[i]))
        width = max(x.bit_length() for _, x in rows) if rows else 0
        out = []
        for o in range(width):
            col = [(x >> o) & 1 for _, x in rows]
            if all(c == col[0] for c in col):
                out.append(col[0])
                continue
            src = [s for s in syms if all(val[s] == c for (val, _), c in zip(rows, col))]
            if len(src) != 1:
                raise Unsupported('bit {} of the table entry is not one bit of the index: {}'.format(o, unparse(node)))
            out.append(src[0])
        return Bits(out, None, ib.tags)

    def trunc32(self, v, st, node):
        if isinstance(v, bool):
            v = int(v)
        if isinstance(v, int):
            return v & 0xffffffff
        v = self.as_int_view(v, st, node)
        if isinstance(v, View):
            return View(v.src, v.ch, v.add, v.shift, 32 if v.trunc is None else min(v.trunc, 32))
        if isinstance(v, Bits):
            return v.derive(v.bits[:32])
        if type(v).__name__ == 'Lin':
            from .bitlin import Lin
            return Lin(v.terms, v.const, 32 if v.trunc is None else min(v.trunc, 32))
        raise Unsupported('c_uint32 of {}'.format(v))

    def ifexp(self, node, st):
        t, f, exact = self.split(node.test, st)
        if t is None and f is None:
            st.dead = True
            return None
        if f is None:
            st.become(t)
            return self.ev(node.body, st)
        if t is None:
            st.become(f)
            return self.ev(node.orelse, st)
        vt = self.ev(node.body, t)
        vf = self.ev(node.orelse, f)
        outs = []
        if not t.dead:
            t.env['<ifexp>'] = vt
            outs.append(t)
        if not f.dead:
            f.env['<ifexp>'] = vf
            outs.append(f)
        if not outs:
            st.dead = True
            return None
        j = outs[0] if len(outs) == 1 else self.join(outs[0], outs[1])
        v = j.env.pop('<ifexp>')
        st.become(j)
        if v is TOP:
            raise Unsupported('conditional expression with different abstract values: {}'.format(unparse(node)))
        return v

    def coerce(self, v, st, node, caught=None):
        """int(x, base=0): the integer the operand spells.  `caught` = exception classes handled around the call (None: the
        call is not protected).  Returns (value, raised) where raised means the conversion raised (value is then x)."""
        def covers(exc):
            return caught is not None and (caught == 'all' or exc in caught)
        if isinstance(v, Maybe):
            if st.lookup.get(v.view.src) != 'hit' and v.default is None:
                raise Unsupported('int() of a possibly-missing table entry at {}'.format(unparse(node)))
            v = self.as_int_view(v, st, node)
        if isinstance(v, (bool, int)) or isinstance(v, (View, Bits)) or type(v).__name__ == 'Lin':
            # int(<int>, base=0) is a TypeError
            if covers('TypeError'):
                return v, True
            return None, 'dead'
        if isinstance(v, str):
            try:
                return int(v, 0), False
            except ValueError:
                if covers('ValueError'):
                    return v, True
                return None, 'dead'
        if isinstance(v, Param):
            self.coerced.add(v.name)
            if caught is None:
                if ('notint', v.name) in st.facts:
                    return v, False
                raise Unsupported('int({}, base=0) outside a type test / try: an int operand would raise TypeError'.format(v.name))
            if covers('TypeError') and covers('ValueError'):
                return v, False
            if covers('ValueError') and ('notint', v.name) in st.facts:
                return v, False
            raise Unsupported('int({}, base=0) protected only against {}'.format(v.name, sorted(caught)))
        raise Unsupported('integer coercion of {}'.format(v))

    # -- binary operators ----------------------------------------------------------------------------
    def binop(self, node, a, b, st):
        op = type(node.op)
        if isinstance(a, (int, bool)) and isinstance(b, (int, bool)):
            try:
                return fold(ast.BinOp(left=ast.Constant(value=a), op=node.op, right=ast.Constant(value=b)))
            except NotConstant as e:
                raise Unsupported('cannot fold {}: {}'.format(unparse(node), e))
        if isinstance(a, str) and op is ast.Mod:
            return Opaque('%-format')
        if isinstance(a, (str, list)) and type(a) == type(b) and op is ast.Add:
            return a + b
        if isinstance(a, (str, list)) and isinstance(b, int) and not isinstance(b, bool) and op is ast.Mult and 0 <= b <= 64:
            return a * b
        if isinstance(a, Opaque) or isinstance(b, Opaque):
            if op in (ast.Add, ast.Mod) and (isinstance(a, (str, Opaque))):
                return Opaque('string expression')
            raise Unsupported('arithmetic on an opaque value: {}'.format(unparse(node)))
        r = self.lin_binop(node, a, b, st)
        if r is not None:
            return r
        # the (x ^ s) - s half of a sign extension
        if op is ast.Sub and isinstance(a, XorVal):
            return self.sext_xor(a, b, st, node)
        if isinstance(a, XorVal) or isinstance(b, XorVal):
            raise Unsupported('exclusive-or outside the sign-extension idiom: {}'.format(unparse(node)))
        if op is ast.Mod:
            if not (isinstance(b, int) and not isinstance(b, bool) and b > 0):
                raise Unsupported('modulo by a non-constant: {}'.format(unparse(node)))
            if isinstance(a, ModVal):
                if is_pow2(a.k) and is_pow2(b) and b <= a.k:
                    return ModVal(a.x, b)
                a = self.mod_as_bits(a, st, node)
            a = a if isinstance(a, Param) else self.as_int_view(a, st, node)
            if isinstance(a, Bits) and is_pow2(b):
                return a.derive(a.bits[:b.bit_length() - 1])
            if isinstance(a, (Param, View)):
                return ModVal(a, b)
            raise Unsupported('modulo of {}'.format(unparse(node)))
        a = self.as_int_view(a, st, node)
        b = self.as_int_view(b, st, node)
        if op is ast.FloorDiv and is_pow2(b):
            return self.binop_shift(node, a, b.bit_length() - 1, st, right=True)
        if op is ast.Mult and (is_pow2(b) or is_pow2(a)):
            if is_pow2(a):
                a, b = b, a
            return self.binop_shift(node, a, b.bit_length() - 1, st, right=False)
        if op is ast.Sub and isinstance(a, Bits) and isinstance(b, Bits) and a.bits and b.bits:
            # (x & (2**(k-1) - 1)) - (x & 2**(k-1)): sign extension of the low k bits of one operand
            k = len(b.bits)
            top = b.bits[-1]
            if (isinstance(top, tuple) and top[0] in st.cells and all(x == 0 for x in b.bits[:-1]) and top[1] == k - 1
                    and len(a.bits) == k - 1 and all(x == (top[0], j) for j, x in enumerate(a.bits))):
                self.retract(a, b)
                return self.sext(top[0], k, st, node)
        if op is ast.Add and (isinstance(a, Bits) or isinstance(b, Bits)) and isinstance(a, (Bits, int, View)) \
                and isinstance(b, (Bits, int, View)) and not (isinstance(a, int) and a < 0) and not (isinstance(b, int) and b < 0):
            ab, bb = self.to_bits(a, st, node), self.to_bits(b, st, node)
            if all(x == 0 or y == 0 for x, y in zip(ab.bits, bb.bits)):
                # no carries: the sum of bit-disjoint fields is their union
                fake = ast.copy_location(ast.BinOp(left=node.left, op=ast.BitOr(), right=node.right), node)
                return self.binop(fake, ab, bb, st)
        if op in (ast.Add, ast.Sub):
            if isinstance(a, View) and isinstance(b, int) and a.shift == 0 and a.trunc is None:
                return View(a.src, a.ch, a.add + (b if op is ast.Add else -b), 0, None)
            if op is ast.Add and isinstance(b, View) and isinstance(a, int) and b.shift == 0 and b.trunc is None:
                return View(b.src, b.ch, b.add + a, 0, None)
            if isinstance(a, Bits) and a.is_const() and isinstance(b, int):
                return a.const() + b if op is ast.Add else a.const() - b
            if op is ast.Sub and isinstance(a, Bits) and isinstance(b, int) and not isinstance(b, bool) and b >= 0 \
                    and all(i < len(a.bits) and a.bits[i] == 1 for i in range(b.bit_length()) if (b >> i) & 1):
                # every bit subtracted is a constant 1 of the value: no borrow, those bits are cleared
                return a.derive([0 if (b >> i) & 1 else x for i, x in enumerate(a.bits)], keep_origin=False)
            raise Unsupported('arithmetic {} outside operand +/- constant'.format(unparse(node)))
        if op is ast.RShift:
            if not isinstance(b, int) or b < 0:
                raise Unsupported('shift by abstract amount: {}'.format(unparse(node)))
            return self.binop_shift(node, a, b, st, right=True)
        if op is ast.LShift:
            if isinstance(a, int) and isinstance(b, (View, Bits)):
                raise Unsupported('constant shifted by abstract amount: {}'.format(unparse(node)))
            if not isinstance(b, int) or b < 0 or b > 64:
                raise Unsupported('shift by abstract amount: {}'.format(unparse(node)))
            return self.binop_shift(node, a, b, st, right=False)
        if op is ast.BitAnd:
            if isinstance(b, (View, Bits)) and isinstance(a, int):
                a, b = b, a
            if isinstance(b, int):
                if b < 0:
                    if isinstance(a, View) and a.trunc is None:
                        return NegMask(a, ~b)
                    if isinstance(a, Bits):
                        return a.derive([bit if (b >> i) & 1 else 0 for i, bit in enumerate(a.bits)])
                    raise Unsupported('negative mask: {}'.format(unparse(node)))
                if isinstance(a, View):
                    return self.mask_view(a, b, st, node)
                if isinstance(a, Bits):
                    return a.derive([bit if (b >> i) & 1 else 0 for i, bit in enumerate(a.bits)])
            raise Unsupported('bit-and of two abstract values: {}'.format(unparse(node)))
        if op is ast.BitOr:
            ab, bb = self.to_bits(a, st, node), self.to_bits(b, st, node)
            n = max(len(ab.bits), len(bb.bits))
            out = []
            for i in range(n):
                x = ab.bits[i] if i < len(ab.bits) else 0
                y = bb.bits[i] if i < len(bb.bits) else 0
                if x == 0:
                    out.append(y)
                elif y == 0 or x == y:
                    out.append(x)
                elif x == 1 or y == 1:
                    out.append(1)
                    self.overlaps.append((i, x, y, node))
                else:
                    self.overlaps.append((i, x, y, node))
                    out.append(('overlap', (x, y)))
            return Bits(out, None, ab.tags | bb.tags)
        if op is ast.BitXor:
            if isinstance(b, Bits) and isinstance(a, int):
                a, b = b, a
            if isinstance(a, Bits) and isinstance(b, int) and b >= 0:
                if a.is_const():
                    return a.const() ^ b
                if all(x == 0 or not (b >> i) & 1 for i, x in enumerate(a.bits)):
                    return self.binop(ast.copy_location(ast.BinOp(left=node.left, op=ast.BitOr(), right=node.right), node), a, b, st)
                return XorVal(a, b)
            if isinstance(a, (Bits, View)) and isinstance(b, (Bits, View)):
                ab, bb = self.to_bits(a, st, node), self.to_bits(b, st, node)
                if all(x == 0 or y == 0 for x, y in zip(ab.bits, bb.bits)):
                    return self.binop(ast.copy_location(ast.BinOp(left=node.left, op=ast.BitOr(), right=node.right), node), ab, bb, st)
        raise Unsupported('operator {} on abstract values: {}'.format(op.__name__, unparse(node)))

    def binop_shift(self, node, a, b, st, right):
        if right:
            if isinstance(a, View):
                if a.trunc is not None:
                    tb = self.view_to_bits_trunc(a, st, node)
                    return tb.derive(tb.bits[b:])
                return View(a.src, a.ch, a.add, a.shift + b, None)
            if isinstance(a, Bits):
                return a.derive(a.bits[b:])
            if isinstance(a, int):
                return a >> b
            raise Unsupported('right shift of {}'.format(unparse(node)))
        if isinstance(a, int):
            return a << b
        if isinstance(a, View) and a.trunc is None and a.shift <= 0:
            lo, hi = self.view_range(a, st)
            if lo < 0 or hi >= INF:
                # (x << b) of a signed operand: stays a view until a mask cuts the field out
                return View(a.src, a.ch, a.add, a.shift - b, None)
        ab = self.to_bits(a, st, node)
        return ab.derive([0] * b + list(ab.bits), keep_origin=False)

    def retract(self, *vals):
        """mask events whose results were recombined into a sign extension are not truncations"""
        dead = [id(v.origin) for v in vals if isinstance(v, Bits) and v.origin is not None]
        self.masks = [m for m in self.masks if id(m) not in dead]

    def sext_xor(self, a, b, st, node):
        bits, c = a.bits, a.c
        k = c.bit_length()
        if not (isinstance(b, int) and b == c and is_pow2(c) and len(bits.bits) <= k and bits.bits):
            raise Unsupported('exclusive-or outside the sign-extension idiom: {}'.format(unparse(node)))
        srcs = {x[0] for x in bits.bits if isinstance(x, tuple)}
        if len(bits.bits) == k and len(srcs) == 1 and all(x == (list(srcs)[0], j) for j, x in enumerate(bits.bits)) \
                and list(srcs)[0] in st.cells:
            self.retract(bits)
            return self.sext(list(srcs)[0], k, st, node)
        raise Unsupported('sign extension of a value that is not the low bits of one operand: {}'.format(unparse(node)))

    def sext(self, src, k, st, node):
        """signed k-bit truncation of the ORIGINAL operand value (its low k bits were just extracted): a new adjustment
        channel, cell by cell (each 2**k period becomes its own cell)."""
        P = 1 << k
        half = P >> 1
        ch = self.new_channel()
        out = []
        for c in st.cells[src]:
            lo_c = c.lo if c.lo > -INF else None
            hi_c = c.hi if c.hi < INF else None
            if lo_c is None and hi_c is None:
                n_lo, n_hi = -2, 2
            elif lo_c is None:
                n_hi = (hi_c + half) // P
                n_lo = n_hi - 3
            elif hi_c is None:
                n_lo = (lo_c + half) // P
                n_hi = n_lo + 3
            else:
                n_lo, n_hi = (lo_c + half) // P, (hi_c + half) // P
                if n_hi - n_lo > 64:
                    n_hi = n_lo + 64
                    st.imprecise = True
            if lo_c is None or hi_c is None:
                st.imprecise = True          # further periods exist; the enumerated ones are exact
            for n in range(n_lo, n_hi + 1):
                nc = c.sub(n * P - half, n * P + half - 1)
                if nc is not None:
                    nc.d[ch] = -n * P
                    out.append(nc)
        st.cells[src] = out
        return View(src, ch)

    # -- views as bits -------------------------------------------------------------------------------------
    def view_range(self, v, st):
        """Range of a view's value."""
        if v.trunc is not None:
            return 0, (1 << v.trunc) - 1
        cells = st.cells[v.src]
        if not cells:
            return 0, -1
        lo = min(c.lo + c.off(v.ch, v.add) if c.lo > -INF else -INF for c in cells)
        hi = max(c.hi + c.off(v.ch, v.add) if c.hi < INF else INF for c in cells)
        if v.shift < 0:
            return (-INF if lo <= -INF else lo << -v.shift), (INF if hi >= INF else hi << -v.shift)
        return (-INF if lo <= -INF else lo >> v.shift), (INF if hi >= INF else hi >> v.shift)

    def bit_source(self, v, st, top_bit, node):
        """Source whose two's-complement bits 0..top_bit equal those of the view's value before shifting.
        bit i of (orig + adj) == bit i of orig for i <= top_bit when adj % 2**(top_bit+1) == 0 on every cell;
        otherwise, if every cell carries the same adjustment d, the bits are those of the distinct quantity orig + d."""
        totals = {c.off(v.ch, v.add) for c in st.cells[v.src]}
        if all(t % (1 << (top_bit + 1)) == 0 for t in totals):
            return v.src
        if len(totals) == 1:
            d = totals.pop()
            return (v.src[0], '{}{:+d}'.format(v.src[1], d))
        raise Unsupported('bits of an operand taken after differing non-aligned adjustments {} at {}'.format(
            sorted(totals), unparse(node)))

    def eff_channel(self, v, st):
        """the channel whose per-cell delta is the total adjustment of the view (channel + constant)"""
        if v.add == 0:
            ch = v.ch
        else:
            ch = self.new_channel()
            for c in st.cells[v.src]:
                c.d[ch] = c.off(v.ch, v.add)
        return ch

    def mask_view(self, v, mask, st, node):
        self.ensure_src(st, v.src)
        sh = v.shift
        if v.trunc is not None:
            mask &= (1 << v.trunc) - 1
        nbits = mask.bit_length()
        src = self.bit_source(v, st, nbits - 1 + sh, node) if nbits and nbits - 1 + sh >= 0 else v.src
        bits = [((src, i + sh) if (mask >> i) & 1 and i + sh >= 0 else 0) for i in range(nbits)]
        ev = {'src': v.src, 'node': node, 'mask': mask, 'shift': sh, 'ch': self.eff_channel(v, st), 'cells': [],
              'fn': self.fn_stack[-1] if self.fn_stack else '?'}
        self.masks.append(ev)
        return Bits(bits, ev, frozenset([(v.src, ev['ch'])]))

    def view_to_bits_trunc(self, v, st, node):
        return self.mask_view(View(v.src, v.ch, v.add, v.shift, None), (1 << v.trunc) - 1, st, node)

    def mod_as_bits(self, mv, st, node):
        if not is_pow2(mv.k):
            raise Unsupported('remainder modulo {} used as a value: {}'.format(mv.k, unparse(node)))
        x = self.as_int_view(mv.x, st, node)
        if isinstance(x, Bits):
            return x.derive(x.bits[:mv.k.bit_length() - 1])
        return self.mask_view(x, mv.k - 1, st, node)

    def to_bits(self, v, st, node):
        if isinstance(v, bool):
            v = int(v)
        if isinstance(v, int):
            return Bits.of_int(v)
        if isinstance(v, Bits):
            return v
        v = self.as_int_view(v, st, node)
        if isinstance(v, Bits):
            return v
        if type(v).__name__ == 'Lin':
            return self.lin_bits(v, None, st, node)
        if isinstance(v, View):
            if v.trunc is not None:
                return self.view_to_bits_trunc(v, st, node)
            lo, hi = self.view_range(v, st)
            if hi < lo:
                return Bits([])
            if lo < 0 or hi >= INF:
                raise Unsupported('operand with range [{}, {}] placed into a bit field without a mask: {}'.format(
                    '-inf' if lo <= -INF else lo, '+inf' if hi >= INF else hi, unparse(node)))
            w = hi.bit_length()
            sh = v.shift
            src = self.bit_source(v, st, w - 1 + sh, node) if w and w - 1 + sh >= 0 else v.src
            ch = self.eff_channel(v, st)
            return Bits([((src, i + sh) if i + sh >= 0 else 0) for i in range(w)], None, frozenset([(v.src, ch)]))
        raise Unsupported('value {} used as bits at {}'.format(v, unparse(node)))
