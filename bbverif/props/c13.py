"""C13 - documented spelling variants of the same program assemble to identical bytes (structural clauses)."""
import ast

from ..core import Report, Finding, AnalysisError
from ..facts import Facts
from .. import encprops, lexrules, tablefold

LEVEL = 'other'


def check_base_offset(rep, facts):
    tablefold.settle(facts, 'BASE_OFFSET_INSTRUCTIONS')     # members added after the literal (.add, |=, .update)
    have = facts.sets.get('BASE_OFFSET_INSTRUCTIONS')
    if have is None:
        raise AnalysisError('anchor vanished: BASE_OFFSET_INSTRUCTIONS')
    want = {'jalr', 'lb', 'lh', 'lw', 'lbu', 'lhu', 'sb', 'sh', 'sw', 'c.lw', 'c.sw'}
    node = facts.assign_nodes['BASE_OFFSET_INSTRUCTIONS']
    present = set(facts.instructions())
    for m in sorted(want & present):
        rep.check(m in have, 'R13.2.base-offset', '`{} reg, imm(reg)` is accepted'.format(m),
                  lambda m=m: Finding('R13.2.base-offset', 'BASE_OFFSET_INSTRUCTIONS', 'missing ' + m, '{} is a base+offset instruction but its `imm(reg)` spelling is not recognised'.format(m), line=node.lineno))
    # an entry that is no mnemonic of any table can never be consulted for a line that parses: dead, not a spelling
    dead = sorted(have - want - present)
    if dead:
        rep.note('BASE_OFFSET_INSTRUCTIONS holds {} which are no mnemonics of the instruction tables (never consulted)'.format(dead))
    extra = sorted((have - want) & present)
    rep.check(not extra, 'R13.2.base-offset', 'only base+offset instructions take the imm(reg) spelling',
              lambda: Finding('R13.2.base-offset', 'BASE_OFFSET_INSTRUCTIONS', 'extra', '{} are given the imm(reg) spelling although they have no base register + offset form'.format(extra), line=node.lineno), nontrivial=False)


def calls_through_values(fn, facts):
    """Calls in `fn` whose callee is a value (a local / loop variable, a table entry, the result of a call) rather than a
    module-level function, class or builtin: the token-provenance engine does not see through them."""
    local = lexrules.assigned_names(fn.body) | {a.arg for a in fn.args.posonlyargs + fn.args.args + fn.args.kwonlyargs}
    out = []
    for n in ast.walk(fn):
        if not isinstance(n, ast.Call):
            continue
        f = n.func
        if isinstance(f, ast.Name) and f.id in local and f.id not in facts.funcs and f.id not in facts.classes:
            out.append(n)
        elif isinstance(f, (ast.Subscript, ast.Call)):
            out.append(n)
    return out


def absorb(rep, scratch):
    for rule, instance, ok in scratch.obligations:
        if ok:
            rep.ok(rule, instance, (rule, instance) in scratch._nontrivial)
    for f in scratch.findings:
        rep.fail(f)
    for o in scratch.obligations:
        if not o[2] and o not in rep.obligations:
            rep.obligations.append(o)
    rep._nontrivial |= scratch._nontrivial
    for k, v in scratch.analysed.items():
        rep.count(k, v)
    for x in scratch.samples:
        rep.sample(x)
    for x in scratch.notes:
        rep.note(x)


def shared_engine_rules(rep, repo, facts):
    doc = repo.text['docs/instruction_reference.rst']
    scratch = Report(rep.prop, rep.level, '')
    encprops.check_wiring(scratch, facts, 'R13.2.wiring', False, doc)
    encprops.check_wiring(scratch, facts, 'R13.2.wiring', True, doc)
    if scratch.findings:
        # a wiring finding is only a verdict about a parser the token-provenance engine has followed completely: a parse_item that
        # hands over through values (dispatch table, parser callables) is outside it (the engine is shared; worked around here)
        pi = facts.funcs.get('parse_item')
        indirect = calls_through_values(pi, facts) if pi is not None else []
        if indirect:
            raise AnalysisError('parse_item dispatches through values (`{}`): the token-provenance rules R13.2.wiring do not follow '
                                'it ({} would-be findings discarded)'.format(ast.unparse(indirect[0])[:60], len(scratch.findings)))
    absorb(rep, scratch)
    # R13.6 decisions must not depend on how a register is spelled: predicates compare register *numbers*
    from ..comprel import CompRel
    rel = CompRel(facts)
    for fac, field in rel.raw_compares:
        node = rel.factories[fac][2]
        rep.fail(Finding('R13.6.normalised', 'transform_compressible.' + fac, node,
                         'the compression predicate {} compares the register operand `{}` as written instead of its number (lookup_register): `addi a0, x10, 1` and `addi a0, a0, 1` '
                         'name the same registers but are compressed differently, so bytes and labels depend on the spelling'.format(fac, field), line=node.lineno),
                 instance=fac + ' ' + str(field))
    if not rel.raw_compares:
        rep.ok('R13.6.normalised', 'all {} compression predicates compare register numbers, not spellings'.format(len(rel.factories)))


NUMERIC_SPELLINGS = ['0', '7', '42', '-1', '+5', '0x1c', '0x1C', '0X1C', '0X1c', '-0xC', '-0Xc', '0b101', '0B101', '-0b11', '0o17', '0O17', '1_000', '0x_ff',
                     '00', '0x', '0b', '0b2', '0o8', '12a', 'abc', '', 'x1', '1.5', '--1', '0xg']


def numeric_literal_helpers(facts):
    """The functions that tell numbers from names for the parser: `is_int` if the module has it, and every one-argument predicate
    that decides, in a function reachable from parse_item, whether an operand is packaged as `[x]` (a number) or as
    `[<modifier>, x]` (a reference) - under whatever name."""
    import ast as _ast
    out = []
    if 'is_int' in facts.funcs:
        out.append('is_int')
    for fname in lexrules.reachable_functions(facts, 'parse_item'):
        for node in _ast.walk(facts.funcs[fname]):
            if not isinstance(node, _ast.If):
                continue
            for c in _ast.walk(node.test):
                if (isinstance(c, _ast.Call) and isinstance(c.func, _ast.Name) and c.func.id in facts.funcs and len(c.args) == 1 and not c.keywords
                        and isinstance(c.args[0], _ast.Name) and c.func.id not in out):
                    x = c.args[0].id
                    sides = [node.body, node.orelse]
                    packaged = [any(isinstance(n, _ast.List) and any(isinstance(e, _ast.Name) and e.id == x for e in n.elts)
                                    for st in side for n in _ast.walk(st)) for side in sides]
                    if not (all(packaged) and len(facts.funcs[c.func.id].args.args) == 1 and node.test is c):
                        continue
                    # the side taken when the predicate holds packages the operand alone (`[x]`: a number), the other side with a
                    # modifier in front (`[m, x]`: a reference); the reverse reading is a `this is a name` predicate, not this helper
                    def sizes(side):
                        return {len(n.elts) for st in side for n in _ast.walk(st)
                                if isinstance(n, _ast.List) and any(isinstance(e, _ast.Name) and e.id == x for e in n.elts)}
                    if sizes(node.body) == {1} and all(k > 1 for k in sizes(node.orelse)):
                        out.append(c.func.id)
    return out


def check_numeric_literal_test(rep, facts):
    """R13.7: the helper that tells numbers from names (`is_int`, used for branch / jump targets and shift amounts) accepts every
    spelling of an integer that int(text, 0) accepts - upper- and lower-case radix prefixes and digits alike - and nothing else.
    Decided when it *is* int(text, 0) under a try, or a regular expression constant whose language (as it is applied) is compared with
    that of int(text, 0) (intlang); anything else is not understood.  No helper found at all is no verdict, not a pass."""
    helpers = numeric_literal_helpers(facts)
    if not helpers:
        raise AnalysisError('anchor vanished: no helper that tells numbers from names (is_int, or a predicate deciding between `[x]` and `[modifier, x]` '
                            'for an operand of parse_item) was found')
    for h in helpers:
        check_one_numeric_literal_test(rep, facts, h)


def match_polarity(fn, call):
    """How the result of the pattern match decides the helper's answer: True (a match means `is a number`), False (inverted), None
    (not followed)."""
    import ast as _ast
    pos = True
    cur, par = call, getattr(call, '_parent', None)
    while par is not None and not isinstance(par, _ast.stmt):
        if isinstance(par, _ast.Compare) and len(par.ops) == 1 and par.left is cur and isinstance(par.comparators[0], _ast.Constant) and par.comparators[0].value is None:
            if isinstance(par.ops[0], (_ast.Is, _ast.Eq)):
                pos = not pos
            elif not isinstance(par.ops[0], (_ast.IsNot, _ast.NotEq)):
                return None
        elif isinstance(par, _ast.UnaryOp) and isinstance(par.op, _ast.Not):
            pos = not pos
        elif isinstance(par, _ast.Call) and isinstance(par.func, _ast.Name) and par.func.id == 'bool' and len(par.args) == 1:
            pass
        else:
            return None
        cur, par = par, getattr(par, '_parent', None)
    if isinstance(par, _ast.Return) and par.value is cur:
        return pos

    def const_return(stmts):
        body = [st for st in stmts if not isinstance(st, _ast.Pass)]
        if len(body) == 1 and isinstance(body[0], _ast.Return) and isinstance(body[0].value, _ast.Constant) and isinstance(body[0].value.value, bool):
            return body[0].value.value
        return None
    if isinstance(par, _ast.If) and par.test is cur and getattr(par, '_parent', None) is fn:
        then = const_return(par.body)
        rest = par.orelse or fn.body[fn.body.index(par) + 1:]
        other = const_return(rest)
        if then is None or other is None or then == other:
            return None
        return pos if then else not pos
    return None


def check_one_numeric_literal_test(rep, facts, helper):
    import re as _re
    import ast as _ast
    fn = facts.funcs[helper]
    from ..astutil import dotted, unparse, fold, NotConstant
    params = [a.arg for a in fn.args.args]
    calls = [n for n in _ast.walk(fn) if isinstance(n, _ast.Call)]
    ints = [c for c in calls if dotted(c.func) == 'int' and c.args and isinstance(c.args[0], _ast.Name) and c.args[0].id in params]
    rep.count('numeric-literal tests analysed')
    if ints:
        for c in ints:
            base = c.args[1] if len(c.args) > 1 else next((k.value for k in c.keywords if k.arg == 'base'), None)
            if base is None:
                value = 10
            else:
                try:
                    value = fold(base, facts.consts)       # a literal or a named module constant
                except NotConstant:
                    raise AnalysisError('{}: the base of {} is not a constant the rules can fold'.format(helper, unparse(c)))
            ok = value == 0 and not isinstance(value, bool)
            rep.check(ok, 'R13.7.numeric-literals', '{} decides with int(text, 0)'.format(helper),
                      lambda c=c: Finding('R13.7.numeric-literals', helper, c, 'numbers are recognised with {}: hexadecimal / binary / octal spellings are not integers to it, so `beq t0, zero, 0x1c` is read as a label'.format(unparse(c)), line=c.lineno))
        in_try = all(any(isinstance(p, _ast.Try) for p in parents_of_node(c)) for c in ints)
        if not in_try:
            raise AnalysisError('{}: int(text, 0) is not under a try (failure mode not understood)'.format(helper))
        return
    # regular expression form
    pat = None
    flags = 0
    for c in calls:
        d = dotted(c.func)
        node = None
        if d in ('re.match', 're.fullmatch', 're.search') and len(c.args) >= 2:
            node, how = c.args[0], d.split('.')[1]
            fl = c.args[2] if len(c.args) > 2 else next((k.value for k in c.keywords if k.arg == 'flags'), None)
        elif isinstance(c.func, _ast.Attribute) and c.func.attr in ('match', 'fullmatch', 'search') and isinstance(c.func.value, _ast.Name) \
                and c.func.value.id in facts.assign_nodes:
            comp = facts.assign_nodes[c.func.value.id].value
            if isinstance(comp, _ast.Call) and dotted(comp.func) == 're.compile' and comp.args:
                node, how = comp.args[0], c.func.attr
                fl = comp.args[1] if len(comp.args) > 1 else next((k.value for k in comp.keywords if k.arg == 'flags'), None)
        if node is not None and isinstance(node, _ast.Constant) and isinstance(node.value, str):
            pat = (node.value, how, c)
            if fl is not None:
                names = {n.attr for n in _ast.walk(fl) if isinstance(n, _ast.Attribute)} | {n.id for n in _ast.walk(fl) if isinstance(n, _ast.Name)}
                if names & {'IGNORECASE', 'I'}:
                    flags |= _re.IGNORECASE
                if names - {'IGNORECASE', 'I', 're'}:
                    raise AnalysisError(helper + ': regular expression flags {} not understood'.format(sorted(names)))
    if pat is None:
        raise AnalysisError('{} decides neither with int(text, 0) nor with a regular expression constant (not understood)'.format(helper))
    polarity = match_polarity(fn, pat[2])
    if polarity is not True:
        raise AnalysisError('{}: how the result of `{}` decides the answer is {} (only `a match means: a number` is followed)'.format(
            helper, unparse(pat[2])[:60], 'inverted' if polarity is False else 'not understood'))
    # decided: the language of the pattern (as it is applied) against the language of int(text, 0), as automata (intlang)
    from .. import intlang
    try:
        verdict = intlang.decide(pat[0], pat[1], flags)
    except intlang.Unsupported as e:
        verdict = None
        unsupported = str(e)
    if verdict is not None:
        if not verdict['all']:
            rep.ok('R13.7.numeric-literals', 'the pattern {!r} ({}) accepts exactly the texts int(text, 0) accepts'.format(pat[0], pat[1]))
            return
        w = verdict['tokens']
        if not w:
            other = verdict['all']
            rep.ok('R13.7.numeric-literals', 'the pattern {!r} ({}) accepts exactly the whitespace-free texts int(text, 0) accepts'.format(pat[0], pat[1]))
            rep.assumptions.append('R13.7: is_int is compared with int(text, 0) on texts without whitespace and without non-ASCII decimal digits (tokens are split off at '
                                   'whitespace by the lexer; a number spelled with non-ASCII digits is refused by the expression evaluator either way); outside that '
                                   'domain they differ, e.g. on {}'.format(', '.join('{!r}'.format(v) for v in other.values())))
            return
        parts = []
        if 'missed' in w:
            parts.append('rejects {!r}, which int(text, 0) accepts'.format(w['missed']))
        if 'extra' in w:
            parts.append('accepts {!r}, which int(text, 0) rejects'.format(w['extra']))
        rep.fail(Finding('R13.7.numeric-literals', helper, pat[2],
                         'the pattern {!r} {}: the same number spelled that way is treated differently (shortest witnesses of the difference of the two '
                         'languages)'.format(pat[0], ' and '.join(parts)), line=pat[2].lineno), instance='numeric literal spellings')
        return
    # outside the regular subset the automaton construction covers: the sample comparison remains (a difference is a finding, agreement no proof)
    rx = _re.compile(pat[0], flags)
    wrong = []
    for s_ in NUMERIC_SPELLINGS:
        try:
            int(s_, 0)
            want = True
        except ValueError:
            want = False
        got = getattr(rx, pat[1])(s_) is not None
        if got != want:
            wrong.append((s_, want))
    if wrong:
        s_, want = wrong[0]
        rep.fail(Finding('R13.7.numeric-literals', helper, pat[2],
                         'the pattern {!r} {} {!r}, which int(text, 0) {}: the same number spelled that way is treated differently ({} such spellings in the sample)'.format(
                             pat[0], 'rejects' if want else 'accepts', s_, 'accepts' if want else 'rejects', len(wrong)), line=pat[2].lineno), instance='numeric literal spellings')
        return
    raise AnalysisError(helper + ' uses the pattern {!r} ({}): it agrees with int(text, 0) on the sample spellings, equivalence not established'.format(pat[0], unsupported))


def parents_of_node(node):
    p = getattr(node, '_parent', None)
    while p is not None:
        yield p
        p = getattr(p, '_parent', None)


def run(repo, tier):
    facts = Facts(repo.asm)
    rep = Report('C13', LEVEL,
                 'Structural clauses of spelling invariance: the REGISTERS table maps number, numeric string, xN and every ABI alias of '
                 'register N to N (and nothing else); in each parse branch that accepts both, `imm(reg)` and `reg, imm` deliver the same '
                 'roles to the same constructor parameters (token-provenance dataflow) and every load / store / jalr takes both spellings; the '
                 'characters consumed between tokens (regex AST of the split pattern plus replacements made before it) are exactly whitespace '
                 'and commas; on the dataflow from the line text to the returned token list (followed through locals, helpers, precompiled '
                 'patterns, partition / re.sub / replace / strip, comprehensions, filter(), accumulator loops) the comment is removed before the '
                 'split, empty tokens are dropped and leading / trailing whitespace never yields a token; every Line is numbered by its position '
                 'in the unfiltered list of physical lines; every token line handed to parse_item on the way from assemble is known to have '
                 'tokens; lookup_register keys the table with int(operand, 0) where that succeeds and the operand itself otherwise.')
    rep.trusted_base = ['CPython ast and re._parser', 'bbverif.wiring token provenance', 'bbverif.lexrules abstract values']
    rep.not_decided = ['equality of whole binaries under arbitrary combinations of rewrites, in particular the interaction of the special-cased string / error lexing '
                       'with indentation and comments', 'integers spelled in forms only eval or only int(., 0) accepts']
    def step(rule, *args):
        """One rule.  What it does not understand is a no-verdict for the whole check - reported at the end of the run, so that it
        cannot mask a violation that another rule establishes (Report.undecided)."""
        try:
            return rule(*args)
        except AnalysisError as e:
            rep.undecided(str(e))
            return None

    step(encprops.check_registers, rep, facts, 'R13.1.registers')
    step(check_base_offset, rep, facts)
    # the front end, decided on the dataflow of the line text / token lists / line objects / register operand (lexrules)
    lexer = step(lexrules.check_lexer, rep, facts)
    reader = step(lexrules.check_reader, rep, facts)
    step(lexrules.check_handover, rep, facts, bool(reader))
    if lexer is not None and reader is not None:
        step(lexrules.check_line_ends, rep, reader, lexer)
    step(lambda: lexrules.check_operand_spelling(rep, facts, numeric_literal_helpers(facts)))

    def summaries_say():
        from ..encsum import register_spellings_normalised
        try:
            return register_spellings_normalised(facts)[0]
        except AnalysisError:
            return None

    def register_numbers():
        try:
            lexrules.check_register_numbers(rep, facts, summaries_say)
        except AnalysisError:
            # the lookup is not written inside lookup_register itself (a helper class / method): ask the interprocedural encoder
            # interpreter whether every register operand is converted with int(., 0) before the table lookup
            from ..encsum import register_spellings_normalised
            verdict, bad = register_spellings_normalised(facts)
            if verdict is None:
                raise
            rep.count('register table lookups analysed')
            rep.check(verdict, 'R13.1.registers', 'numeric register spellings in any base go through int(., 0) (encoder summaries)',
                      lambda: Finding('R13.1.registers', 'lookup_register', 'register lookup', 'register operands of {} reach the register table without int(., 0): hex / binary register numbers are not recognised'.format(
                          sorted({m for m, p in bad})[:6]), line=facts.funcs['lookup_register'].lineno if 'lookup_register' in facts.funcs else 1), nontrivial=False)
    step(register_numbers)
    step(check_numeric_literal_test, rep, facts)
    step(shared_engine_rules, rep, repo, facts)
    rep.floor('register spellings checked', 129)
    rep.floor('parse paths analysed', 30)
    # semantic floors of the front-end rules: at least one path of each kind was positively understood
    rep.floor('lexer paths analysed', 1)
    rep.floor('Line constructions analysed', 1)
    rep.floor('parse_item hand-overs analysed', 1)
    rep.floor('register table lookups analysed', 1)
    return rep
