"""Self-test variants of the white-box audit of C01 / C02 / C06 / C07 (round 7): sites of the program model (facts), the %hi / %lo
evaluation rule, the rebuild invariant, the text front end and the pack rule that the earlier twins did not exercise.  Each PRESERVING
edit raised a false alarm (or passed vacuously) before the rule it probes was made three-valued / the construct was supported; the
BREAKING twin next to it is the same construct with the property really broken.  Same format as variants.py."""

A = 'bronzebeard/asm.py'
ENC = ['C01', 'C02', 'C06', 'C07']

# ---- anchors -----------------------------------------------------------------------------------------------------------------------
_TABLES = ("R_TYPE I_TYPE IE_TYPE S_TYPE B_TYPE U_TYPE J_TYPE FENCE A_TYPE AL_TYPE CR_TYPE CRJ_TYPE CRE_TYPE CI_TYPE CIA_TYPE CIN_TYPE "
           "CSS_TYPE CIW_TYPE CL_TYPE CS_TYPE CA_TYPE CB_TYPE CJ_TYPE").split()
UPDATES = "INSTRUCTIONS = {}\n" + "".join("INSTRUCTIONS.update(%s_INSTRUCTIONS)\n" % t for t in _TABLES)


def update_loop(tables=_TABLES):
    return [(A, UPDATES, "INSTRUCTIONS = {}\nfor _table in (" + ", ".join(t + "_INSTRUCTIONS" for t in tables) + "):\n    INSTRUCTIONS.update(_table)\n")]


def dict_splat(tables=_TABLES):
    return [(A, UPDATES, "INSTRUCTIONS = {" + ", ".join("**" + t + "_INSTRUCTIONS" for t in tables) + "}\n")]


ADD_ENTRY = "    'add':        ADD,\n"
U_TABLE = "U_TYPE_INSTRUCTIONS = {\n    'lui':        LUI,\n    'auipc':      AUIPC,\n}"
C_LUI = "C_LUI      = partial(ciu_type, opcode=0b01, funct3=0b011, cs=[RegRdRs1NotZero, RegRdRs1NotTwo, ImmNotZero])"
AFTER_REGISTERS = "\n\n# low-level funcs just return"

HI_EVAL = "        value = self.expr.eval(position, env, line)\n        return relocate_hi(value)\n"
LO_EVAL = "        value = self.expr.eval(position, env, line)\n        return relocate_lo(value)\n"
HI_HEAD = "class Hi(Expr):\n\n    def __init__(self, expr):\n        self.expr = expr\n"
LO_HEAD = "class Lo(Expr):\n\n    def __init__(self, expr):\n        self.expr = expr\n"


def eval_base_class(fn='relocate_hi'):
    """eval() shared in a base class, the relocation a method of the subclass"""
    return [(A, HI_HEAD, "class Relocation(Expr):\n\n    def __init__(self, expr):\n        self.expr = expr\n\n    def eval(self, position, env, line):\n"
                         "        return self.relocate(self.expr.eval(position, env, line))\n\n\nclass Hi(Relocation):\n\n    def __init__(self, expr):\n        super().__init__(expr)\n"),
            (A, "    def eval(self, position, env, line):\n" + HI_EVAL, "    def relocate(self, value):\n        return " + fn + "(value)\n")]


def attr_rename(inner='self.inner'):
    """the wrapped expression kept under another attribute name, in both Hi and Lo (stable_immediate reads it from outside)"""
    out = []
    for head, ev, fmt in ((HI_HEAD, HI_EVAL, '%hi'), (LO_HEAD, LO_EVAL, '%lo')):
        new_head = head.replace('self.expr = expr', 'self.inner = expr')
        out += [(A, head, new_head),
                (A, ev, ev.replace('self.expr.eval', inner + '.eval')),
                (A, "        s = '" + fmt + "({})'\n        s = s.format(self.expr)", "        s = '" + fmt + "({})'\n        s = s.format(self.inner)"),
                (A, new_head + "\n    def __repr__(self):\n        s = '{}({!r})'\n        s = s.format(type(self).__name__, self.expr)",
                 new_head + "\n    def __repr__(self):\n        s = '{}({!r})'\n        s = s.format(type(self).__name__, self.inner)")]
    return out + [(A, "        plain = imm.expr if isinstance(imm, (Hi, Lo)) else imm", "        plain = imm.inner if isinstance(imm, (Hi, Lo)) else imm")]


def reloc_alias(lo='relocate_lo'):
    return [(A, "def constraint_not(field, value):", "hi20 = relocate_hi\nlo12 = " + lo + "\n\n\ndef constraint_not(field, value):"),
            (A, "        return relocate_lo(value)", "        return lo12(value)")]


R_INIT = ("    def __init__(self, line, name, rd, rs1, rs2):\n        super().__init__(line)\n        self.name = name\n        self.rd = rd\n        self.rs1 = rs1\n"
          "        self.rs2 = rs2\n\n    def __repr__(self):\n        s = '{}({!r}, rd={!r}, rs1={!r}, rs2={!r})'")
U_INIT = ("    def __init__(self, line, name, rd, imm):\n        super().__init__(line)\n        self.name = name\n        self.rd = rd\n        self.imm = imm\n\n"
          "    def __repr__(self):\n        s = '{}({!r}, rd={!r}, imm={!r})'\n        s = s.format(type(self).__name__, self.name, self.rd, self.imm)\n        return s\n\n"
          "    def __str__(self):\n        s = '{} {}, {}'\n        s = s.format(self.name, self.rd, self.imm)\n        return s\n\n    def args(self):\n        return [self.rd, self.imm]\n\n\n"
          "class JTypeInstruction")
S_ARM = ("        if tokens[3] == '(':\n            name, rs2, offset, _, rs1, _ = tokens\n            imm = [offset]\n        else:\n            name, rs1, rs2, *imm = tokens\n"
         "        name = name.lower()\n        imm = parse_immediate(imm, line)\n        return STypeInstruction")
ENC_ARMS = ("            if isinstance(item, ATypeInstruction) or isinstance(item, ALTypeInstruction):\n                *args, aq, rl = item.args()\n"
            "                code = encode_func(*args, aq=aq, rl=rl)\n            else:\n                args = item.args()\n                code = encode_func(*args)\n")
FMT = "        if isinstance(item, CompressedInstruction):\n            fmt = '<H'\n        else:\n            fmt = '<I'\n"
U_DEF = "def u_type(rd, imm, *, opcode):"
U_WINDOW = "    if imm >= 0x80000 and imm <= 0xfffff:\n        imm = imm - 2**20\n    if imm < -0x80000"
CI_TAIL = ("    # validate constraints\n    for c in cs or []:\n        c(rd_rs1=rd_rs1, imm=imm)\n\n    imm = c_uint32(imm).value & 0b111111\n\n    imm_5 = (imm >> 5) & 0b1\n"
           "    imm_4_0 = imm & 0b11111\n\n    code = 0\n    code |= opcode\n    code |= imm_4_0 << 2\n    code |= rd_rs1 << 7\n    code |= imm_5 << 12\n    code |= funct3 << 13\n\n"
           "    return code\n\n\n# CI variation\n# c.addi16sp")


def cs_after_mask(mask='0b111111'):
    return [(A, CI_TAIL, CI_TAIL.replace("    # validate constraints\n    for c in cs or []:\n        c(rd_rs1=rd_rs1, imm=imm)\n\n    imm = c_uint32(imm).value & 0b111111\n",
                                         "    imm = c_uint32(imm).value & " + mask + "\n\n    # validate constraints\n    for c in cs or []:\n        c(rd_rs1=rd_rs1, imm=imm)\n"))]


def utype_renamed(hi='0x7ffff'):
    return [(A, U_DEF, "def upper_type(rd, imm, *, opcode):"), (A, "partial(u_type, ", "partial(upper_type, ", 'all'),
            (A, "    if imm < -0x80000 or imm > 0x7ffff:\n        raise ValueError('20-bit immediate must", "    if imm < -0x80000 or imm > " + hi + ":\n        raise ValueError('20-bit immediate must")]


def kwonly_flag(default='True'):
    return [(A, U_DEF, "def u_type(rd, imm, *, opcode, allow_unsigned=" + default + "):"),
            (A, U_WINDOW, "    if allow_unsigned and imm >= 0x80000 and imm <= 0xfffff:\n        imm = imm - 2**20\n    if imm < -0x80000")]


LI_GUARD = "            if value >= (-2**11) and value <= (2**11 - 1):\n                inst = ITypeInstruction(item.line, 'addi', rd=rd, rs1='x0', imm=Lo(imm))\n"
PSEUDO_DEF = "def transform_pseudo_instructions(items, constants, labels):\n"
HI_BODY = "    if imm & 0x800:\n        imm += 2**12\n    return sign_extend((imm >> 12) & 0x000fffff, 20)"
LO_BODY = "    return sign_extend(imm & 0x00000fff, 12)\n"
J_DEF = "def j_type(rd, imm, *, opcode):\n    rd = lookup_register(rd)\n"


def li_guard(test):
    return [(A, LI_GUARD, LI_GUARD.replace("if value >= (-2**11) and value <= (2**11 - 1):", test))]


def li_named_bounds(hi='2**11 - 1'):
    return li_guard("if value >= IMM12_MIN and value <= IMM12_MAX:") + [(A, PSEUDO_DEF, "IMM12_MIN = -2**11\nIMM12_MAX = " + hi + "\n\n\n" + PSEUDO_DEF)]


def jtype_renamed(hi='0x0fffff'):
    return [(A, J_DEF, "def j_type(rd, offset, *, opcode):\n    imm = offset\n    rd = lookup_register(rd)\n"),
            (A, "    if imm < -0x100000 or imm > 0x0fffff:", "    if imm < -0x100000 or imm > " + hi + ":")]


PRESERVING = [
    # -- module-level tables built by something else than the literal + T.update(OTHER) form ------------------------------------------
    ('p7-instr-update-loop', None, update_loop()),
    ('p7-instr-dict-splat', ENC + ['C03', 'C04', 'C13'], dict_splat()),
    ('p7-table-inline-partial', ENC + ['C04', 'C13'], [(A, ADD_ENTRY, "    'add':        partial(r_type, opcode=0b0110011, funct3=0b000, funct7=0b0000000),\n")]),
    ('p7-table-dict-call', ENC + ['C13'], [(A, U_TABLE, "U_TYPE_INSTRUCTIONS = dict(lui=LUI, auipc=AUIPC)")]),
    ('p7-cs-named-list', ENC + ['C04'], [(A, C_LUI, "C_LUI_CONSTRAINTS = [RegRdRs1NotZero, RegRdRs1NotTwo, ImmNotZero]\nC_LUI      = partial(ciu_type, opcode=0b01, funct3=0b011, cs=C_LUI_CONSTRAINTS)")]),
    ('p7-reg-update-literal', ENC + ['C13'], [(A, "'zero': 0,", ""), (A, "INSTRUCTIONS = {}\n", "REGISTERS.update({'zero': 0})\nINSTRUCTIONS = {}\n")]),
    ('p7-reg-setitem', ENC + ['C13'], [(A, "'zero': 0,", ""), (A, AFTER_REGISTERS, "\nREGISTERS['zero'] = 0\n" + AFTER_REGISTERS)]),
    ('p7-reg-setdefault-loop', ENC + ['C13'], [(A, AFTER_REGISTERS, "\nfor _n in range(32):\n    REGISTERS.setdefault('x{}'.format(_n), _n)\n" + AFTER_REGISTERS)]),
    # -- Hi.eval / Lo.eval: the rule is stated over the returned value, not over one spelling ------------------------------------------
    ('p7-eval-result-local', ['C07'], [(A, HI_EVAL, "        value = self.expr.eval(position, env, line)\n        result = relocate_hi(value)\n        return result\n")]),
    ('p7-eval-keyword', ['C07'], [(A, LO_EVAL, "        value = self.expr.eval(position, env, line=line)\n        return relocate_lo(value)\n")]),
    ('p7-eval-inner-local', ['C07'], [(A, LO_EVAL, "        inner = self.expr\n        value = inner.eval(position, env, line)\n        return relocate_lo(value)\n")]),
    ('p7-eval-base-class', ['C07', 'C11'], eval_base_class()),
    ('p7-eval-attr-rename', ['C04', 'C07', 'C12'], attr_rename()),
    ('p7-reloc-alias', ['C07'], reloc_alias()),
    # -- R7.fits names the consumers by the ISA format, not by the name of the encoder function ----------------------------------------
    ('p7-utype-renamed', ENC, utype_renamed()),
    # -- rebuild invariant: what matters is which parameter each attribute is stored from, and that storing is idempotent -------------
    ('p7-init-param-rename', ['C01', 'C11'], [(A, R_INIT, R_INIT.replace("line, name, rd, rs1, rs2):", "line, mnemonic, rd, rs1, rs2):").replace("self.name = name", "self.name = mnemonic"))]),
    ('p7-init-name-lower', ['C01', 'C11'], [(A, R_INIT, R_INIT.replace("self.name = name", "self.name = name.lower()"))]),
    ('p7-init-base-call', ['C01', 'C11'], [(A, U_INIT, U_INIT.replace("        super().__init__(line)\n", "        Instruction.__init__(self, line)\n"))]),
    # -- the imm(reg) form decided through a named flag ----------------------------------------------------------------------------------
    ('p7-parse-paren-flag', ['C01', 'C02', 'C13'], [(A, S_ARM, S_ARM.replace("        if tokens[3] == '(':", "        base_offset_form = tokens[3] == '('\n        if base_offset_form:"), 0)]),
    # -- pack rule: conditions on the item that are decided by its class ----------------------------------------------------------------
    ('p7-pack-hasattr', ['C01', 'C02'], [(A, ENC_ARMS, ENC_ARMS.replace("isinstance(item, ATypeInstruction) or isinstance(item, ALTypeInstruction)", "hasattr(item, 'aq')"))]),
    ('p7-pack-size-compare', ['C01', 'C02'], [(A, FMT, "        fmt = '<H' if item.size() == 2 else '<I'\n")]),
    # -- an option with a default that nobody passes is not an operand -----------------------------------------------------------------
    ('p7-enc-kwonly-flag', ENC, kwonly_flag()),
    # -- accepted sets are compared as sets (constraints applied to the already masked field give 31 singleton cells) ------------------
    ('p7-cs-after-mask', ENC + ['C04', 'C12'], cs_after_mask()),
]

PRESERVING += [
    # -- the 12-bit guard in front of a lone %lo read as an interval whatever its spelling; a guard that is not read is no verdict --------
    ('p7-li-range-membership', ['C03', 'C05', 'C07'], li_guard("if value in range(-2048, 2048):")),
    ('p7-li-named-bounds', ['C03', 'C05', 'C07'], li_named_bounds()),
    # -- the immediate operand of the consumer is found by its ISA role, not by the name `imm` -----------------------------------------
    ('p7-jtype-param-renamed', ['C01', 'C03', 'C06', 'C07'], jtype_renamed()),
    # -- %hi / %lo arithmetic: comparisons of a single bit, floor division and modulo by powers of two ----------------------------------
    ('p7-hi-bit-ne-zero', ['C07'], [(A, "    if imm & 0x800:\n", "    if imm & 0x800 != 0:\n")]),
    ('p7-hi-bit-eq-mask', ['C07'], [(A, "    if imm & 0x800:\n", "    if imm & 0x800 == 0x800:\n")]),
    ('p7-hi-bit-bool', ['C07'], [(A, "    if imm & 0x800:\n", "    if bool(imm & 0x800):\n")]),
    ('p7-hi-floordiv', ['C07'], [(A, "    return sign_extend((imm >> 12) & 0x000fffff, 20)", "    return sign_extend((imm // 4096) & 0x000fffff, 20)")]),
    ('p7-lo-modulo', ['C07'], [(A, LO_BODY, "    return sign_extend(imm % 4096, 12)\n")]),
]

BREAKING = [
    ('c7-li-range-membership-wide', ['C07'], li_guard("if value in range(-2048, 2050):")),
    ('c7-li-named-bounds-wide', ['C07'], li_named_bounds('2**11 + 1')),
    ('c7-jtype-param-renamed-tight', ['C07'], jtype_renamed('0x0ffff0')),
    ('c7-hi-bit-eq-zero', ['C07'], [(A, "    if imm & 0x800:\n", "    if (imm & 0x800) == 0:\n")]),
    ('c7-hi-floordiv-2048', ['C07'], [(A, "    return sign_extend((imm >> 12) & 0x000fffff, 20)", "    return sign_extend((imm // 2048) & 0x000fffff, 20)")]),
    ('c7-lo-modulo-2048', ['C07'], [(A, LO_BODY, "    return sign_extend(imm % 2048, 12)\n")]),
    ('c7-instr-update-loop-omits', ['C02'], update_loop([t for t in _TABLES if t != 'CJ_TYPE'])),
    ('c7-instr-dict-splat-omits', ['C01'], dict_splat([t for t in _TABLES if t != 'J_TYPE'])),
    ('c7-table-inline-partial-funct7', ['C01'], [(A, ADD_ENTRY, "    'add':        partial(r_type, opcode=0b0110011, funct3=0b000, funct7=0b0100000),\n")]),
    ('c7-table-dict-call-swapped', ['C01'], [(A, U_TABLE, "U_TYPE_INSTRUCTIONS = dict(lui=AUIPC, auipc=LUI)")]),
    ('c7-cs-named-list-short', ['C02', 'C06'], [(A, C_LUI, "C_LUI_CONSTRAINTS = [RegRdRs1NotZero, RegRdRs1NotTwo]\nC_LUI      = partial(ciu_type, opcode=0b01, funct3=0b011, cs=C_LUI_CONSTRAINTS)")]),
    ('c7-reg-update-literal-wrong', ['C01', 'C06'], [(A, "'zero': 0,", ""), (A, "INSTRUCTIONS = {}\n", "REGISTERS.update({'zero': 1})\nINSTRUCTIONS = {}\n")]),
    ('c7-reg-setitem-wrong', ['C01', 'C06'], [(A, "'zero': 0,", ""), (A, AFTER_REGISTERS, "\nREGISTERS['zero'] = 1\n" + AFTER_REGISTERS)]),
    ('c7-reg-loop-extra-spelling', ['C01', 'C06'], [(A, AFTER_REGISTERS, "\nfor _n in range(32):\n    REGISTERS.setdefault('r{}'.format(_n), _n)\n" + AFTER_REGISTERS)]),
    ('c7-eval-no-relocation', ['C07'], [(A, HI_EVAL, "        value = self.expr.eval(position, env, line)\n        result = relocate_hi(value)\n        return value\n")]),
    ('c7-eval-keyword-position', ['C07'], [(A, LO_EVAL, "        value = self.expr.eval(position + 4, env, line=line)\n        return relocate_lo(value)\n")]),
    ('c7-eval-base-class-swapped', ['C07'], eval_base_class('relocate_lo')),
    ('c7-reloc-alias-swapped', ['C07'], reloc_alias('relocate_hi')),
    ('c7-utype-renamed-tight', ['C07', 'C06'], utype_renamed('0x7fffe')),
    # super().__init__ moved behind the attribute stores: vars(item) lists `line` last, the positional rebuild permutes every field
    ('c7-init-base-call-last', ['C01'], [(A, U_INIT, U_INIT.replace("        super().__init__(line)\n        self.name = name\n        self.rd = rd\n        self.imm = imm\n",
                                                                    "        self.name = name\n        self.rd = rd\n        self.imm = imm\n        Instruction.__init__(self, line)\n"))]),
    ('c7-init-param-rename-swapped', ['C01'], [(A, R_INIT, R_INIT.replace("line, name, rd, rs1, rs2):", "line, mnemonic, rd, rs2, rs1):").replace("self.name = name", "self.name = mnemonic"))]),
    ('c7-parse-paren-flag-swapped', ['C01'], [(A, S_ARM, S_ARM.replace("        if tokens[3] == '(':\n            name, rs2, offset, _, rs1, _ = tokens", "        base_offset_form = tokens[3] == '('\n        if base_offset_form:\n            name, rs1, offset, _, rs2, _ = tokens"), 0)]),
    ('c7-pack-hasattr-wrong-attribute', ['C01'], [(A, ENC_ARMS, ENC_ARMS.replace("isinstance(item, ATypeInstruction) or isinstance(item, ALTypeInstruction)", "hasattr(item, 'rs2')"))]),
    ('c7-pack-hasattr-kw-swap', ['C01'], [(A, ENC_ARMS, ENC_ARMS.replace("isinstance(item, ATypeInstruction) or isinstance(item, ALTypeInstruction)", "hasattr(item, 'aq')").replace("aq=aq, rl=rl", "aq=rl, rl=aq"))]),
    ('c7-pack-size-compare-inverted', ['C01', 'C02'], [(A, FMT, "        fmt = '<H' if item.size() == 4 else '<I'\n")]),
    ('c7-enc-kwonly-flag-off', ['C06'], kwonly_flag('False')),
    ('c7-cs-after-short-mask', ['C02', 'C06'], cs_after_mask('0b11111')),
]

# ---- args() spelled as a tuple / through a local / as a concatenation; expression nodes built directly; chained assignment -----------
U_ARGS = "        return [self.rd, self.imm]\n\n\nclass JTypeInstruction"
A_ARGS = "        return [self.rd, self.rs1, self.rs2, self.aq, self.rl]\n"
B_ARM = ("        if is_int(reference):\n            imm = [reference]\n        else:\n            # behavior is \"offset\" for branches to labels\n"
         "            imm = ['%offset', reference]\n        imm = parse_immediate(imm, line)\n        return BTypeInstruction(line, name, rs1, rs2, imm)\n")
ORDERING = ("        if len(ordering) == 0:\n            aq, rl = 0, 0\n        elif len(ordering) == 2:\n            aq, rl = ordering\n        else:\n"
            "            raise AssemblerError('invalid syntax for atomic instruction', line)\n        return ATypeInstruction(line, name, rd, rs1, rs2, aq, rl)\n")


def b_arm_direct(token='reference'):
    return [(A, B_ARM, "        if is_int(reference):\n            imm = Arithmetic(reference)\n        else:\n            # behavior is \"offset\" for branches to labels\n"
                       "            imm = Offset(" + token + ")\n        return BTypeInstruction(line, name, rs1, rs2, imm)\n")]


def ordering_indexed(first='aq', second='rl'):
    return [(A, ORDERING, ORDERING.replace("            aq, rl = 0, 0\n", "            aq = rl = 0\n").replace(
        "            aq, rl = ordering\n", "            " + first + " = ordering[0]\n            " + second + " = ordering[1]\n"))]


PRESERVING += [
    ('p7-args-tuple', ['C01', 'C11', 'C13'], [(A, U_ARGS, U_ARGS.replace("[self.rd, self.imm]", "(self.rd, self.imm)"))]),
    ('p7-args-local', ['C01', 'C11'], [(A, U_ARGS, U_ARGS.replace("return [self.rd, self.imm]", "operands = [self.rd, self.imm]\n        return operands"))]),
    ('p7-args-concatenation', ['C01', 'C11'], [(A, A_ARGS, "        return [self.rd, self.rs1, self.rs2] + [self.aq, self.rl]\n")]),
    ('p7-parse-expression-nodes-direct', ['C01', 'C03', 'C11', 'C13'], b_arm_direct()),
    ('p7-parse-ordering-chained-assign', ['C01', 'C13'], ordering_indexed()),
]
BREAKING += [
    ('c7-args-tuple-order', ['C01'], [(A, U_ARGS, U_ARGS.replace("[self.rd, self.imm]", "(self.imm, self.rd)"))]),
    ('c7-args-concatenation-order', ['C01'], [(A, A_ARGS, "        return [self.rd, self.rs1, self.rs2] + [self.rl, self.aq]\n")]),
    ('c7-parse-expression-node-wrong-token', ['C01'], b_arm_direct('rs2')),
    ('c7-parse-ordering-index-swapped', ['C01'], ordering_indexed('rl', 'aq')),
]

# ---- arithmetic outside the linear-form fragment: a counterexample on the sample inputs is a finding, agreement is no verdict ------------
PRESERVING += [
    # Hi.eval with the relocation inlined (rounding shift): proved by the linear forms through the semantic fallback of R7.eval
    ('p7-eval-inlined-rounding', ['C07'], [(A, HI_EVAL, "        value = self.expr.eval(position, env, line)\n        return sign_extend(((value + 0x800) >> 12) & 0x000fffff, 20)\n")]),
]
BREAKING += [
    # seeded C07r3m2: the rounding constant one short
    ('c7-eval-inlined-rounding-short', ['C07'], [(A, HI_EVAL, "        value = self.expr.eval(position, env, line)\n        return sign_extend(((value + 0x7ff) >> 12) & 0x000fffff, 20)\n")]),
    ('c7-lo-add-sub-off-by-one', ['C07'], [(A, LO_BODY, "    return ((imm + 0x800) & 0xfff) - 0x7ff\n")]),
    ('c7-sext-modulo-wrong-bias', ['C07'], [(A, "    return (value & (sign_bit - 1)) - (value & sign_bit)\n", "    return (value + sign_bit) % (2 * sign_bit) - sign_bit + (value & 1)\n")]),
]

# ---- a range guard against a module-level range constant, also where the guarded value is a composite bit field (fence -> i_type) ------
I_GUARD = "def i_type(rd, rs1, imm, *, opcode, funct3):\n    rd = lookup_register(rd)\n    rs1 = lookup_register(rs1)\n\n    if imm < -0x800 or imm > 0x7ff:\n"


def range_constant(stop='0x800'):
    return [(A, I_GUARD, I_GUARD.replace("    if imm < -0x800 or imm > 0x7ff:\n", "    if imm not in IMM12:\n")),
            (A, "def r_type(rd, rs1, rs2, *, opcode, funct3, funct7):", "IMM12 = range(-0x800, " + stop + ")\n\n\ndef r_type(rd, rs1, rs2, *, opcode, funct3, funct7):")]


PRESERVING += [('p7-guard-range-constant', ENC, range_constant())]
BREAKING += [('c7-guard-range-constant-wide', ['C01', 'C06'], range_constant('0x801'))]

# ---- R.registers checks the table the register operands are looked up in (read off the encoder summaries), whatever its name ------------
REG_LOOKUP = "        reg = REGISTERS[reg]\n"
PRESERVING += [
    ('p7-reg-table-renamed', ['C01', 'C02', 'C06', 'C13'], [(A, "REGISTERS = {\n    # ints", "REGISTER_NUMBERS = {\n    # ints"), (A, REG_LOOKUP, "        reg = REGISTER_NUMBERS[reg]\n")]),
    ('p7-reg-second-table', ['C01', 'C06', 'C13'], [(A, AFTER_REGISTERS, "\n\nREGISTER_TABLE = dict(REGISTERS)\n" + AFTER_REGISTERS), (A, REG_LOOKUP, "        reg = REGISTER_TABLE[reg]\n")]),
]
BREAKING += [
    # the table that is consulted gains a spelling, the one called REGISTERS does not (was: a silent pass)
    ('c7-reg-second-table-extra', ['C01', 'C06'], [(A, AFTER_REGISTERS, "\n\nREGISTER_TABLE = dict(REGISTERS)\nREGISTER_TABLE['r0'] = 0\n" + AFTER_REGISTERS),
                                                    (A, REG_LOOKUP, "        reg = REGISTER_TABLE[reg]\n")]),
]

# ---- R7.parse: the operand of Hi / Lo by keyword; a modifier test the token flow does not read is no verdict ----------------------------
HI_RET = "        return Hi(parse_immediate(imm, line))\n"
PIMM_HEAD = "    head = imm[0].lower()\n    if head == '%position':"
PRESERVING += [
    ('p7-pimm-keyword-operand', ['C07', 'C11'], [(A, HI_RET, "        return Hi(expr=parse_immediate(imm, line))\n")]),
    ('p7-pimm-unbound-lower', ['C07', 'C11'], [(A, PIMM_HEAD, "    head = str.lower(imm[0])\n    if head == '%position':")]),
]
BREAKING += [
    ('c7-pimm-keyword-operand-lo', ['C07'], [(A, HI_RET, "        return Lo(expr=parse_immediate(imm, line))\n")]),
    ('c7-pimm-unbound-lower-swapped', ['C07'], [(A, PIMM_HEAD, "    head = str.lower(imm[0])\n    if head == '%position':"), (A, HI_RET, "        return Lo(parse_immediate(imm, line))\n")]),
]
UNDECIDED_LATE = [
    # the mnemonic derived from the first token in a way the token flow does not read (was: "mnemonic table ... is never consulted", x 23)
    ('u7-parse-head-casefold', ['C01', 'C02'], [(A, "    head = tokens[0].lower()\n\n    # labels", "    head = tokens[0].casefold()\n\n    # labels")]),
    # the modifier recognised by a test the token flow does not read (was: "%hi is parsed into Lo", "%lo is parsed into Hi")
    ('u7-pimm-head-upper', ['C07'], [(A, PIMM_HEAD, "    head = imm[0].upper().lower()\n    if head == '%position':")]),
]

# ---- the register the %hi half is written to and the one the %lo half is added to are compared by number, not by spelling -------------
JALR_CALL = "                inst = ITypeInstruction(item.line, 'jalr', rd='x1', rs1='x1', imm=Lo(imm), is_auipc_jump=True)\n"
PRESERVING += [('p7-call-register-alias', ['C03', 'C05', 'C07'], [(A, JALR_CALL, JALR_CALL.replace("rd='x1', rs1='x1'", "rd='ra', rs1='ra'"))])]
BREAKING += [('c7-call-register-alias-other', ['C07'], [(A, JALR_CALL, JALR_CALL.replace("rd='x1', rs1='x1'", "rd='ra', rs1='t1'"))])]

# ---- round 8 leftovers: both halves from one helper returning a namedtuple; the compressed format looked up once; keywords only -------
RELOC_OLD = ("def relocate_hi(imm):\n    if imm & 0x800:\n        imm += 2**12\n    return sign_extend((imm >> 12) & 0x000fffff, 20)\n\n\n"
             "def relocate_lo(imm):\n    return sign_extend(imm & 0x00000fff, 12)\n")


def shared_record(ret='HiLo(hi, lo)', lo_field='.lo'):
    return [(A, "from collections import ChainMap\n", "from collections import ChainMap, namedtuple\n"),
            (A, RELOC_OLD, "HiLo = namedtuple('HiLo', ['hi', 'lo'])\n\n\ndef relocate(imm):\n    upper = imm\n    if upper & 0x800:\n        upper += 2**12\n"
                           "    hi = sign_extend((upper >> 12) & 0x000fffff, 20)\n    lo = sign_extend(imm & 0x00000fff, 12)\n    return " + ret + "\n\n\n"
                           "def relocate_hi(imm):\n    return relocate(imm).hi\n\n\ndef relocate_lo(imm):\n    return relocate(imm)" + lo_field + "\n")]


_C_FORMATS = ['cr', 'crj', 'cre', 'ci', 'cia', 'cin', 'css', 'ciw', 'cl', 'cs', 'ca', 'cb', 'cj']


def format_lookup(swap=None):
    """parse_item's 13 `head in C?_TYPE_INSTRUCTIONS` tests become one lookup in a mnemonic -> format table built at import time"""
    rows = []
    for f in _C_FORMATS:
        t = f
        if swap and f in swap:
            t = swap[0] if f == swap[1] else swap[1]
        rows.append("        ('{}', {}_TYPE_INSTRUCTIONS),\n".format(f, t.upper()))
    table = ("COMPRESSED_FORMATS = {\n    mnemonic: fmt\n    for fmt, mnemonics in reversed([\n" + "".join(rows) + "    ])\n    for mnemonic in mnemonics\n}\n\n\n")
    edits = [(A, "def parse_item(line_tokens):\n", table + "def parse_item(line_tokens):\n"),
             (A, "    head = tokens[0].lower()\n\n    # labels", "    head = tokens[0].lower()\n    compressed_format = COMPRESSED_FORMATS.get(head)\n\n    # labels")]
    for f in _C_FORMATS:
        edits.append((A, "    elif head in {}_TYPE_INSTRUCTIONS:\n".format(f.upper()), "    elif compressed_format == '{}':\n".format(f)))
    return edits


def eval_keywords(hi_args='position=position, env=env, line=line'):
    return [(A, HI_EVAL, HI_EVAL.replace('self.expr.eval(position, env, line)', 'self.expr.eval(' + hi_args + ')')),
            (A, LO_EVAL, LO_EVAL.replace('self.expr.eval(position, env, line)', 'self.expr.eval(line=line, env=env, position=position)'))]


PRESERVING += [
    ('p8-reloc-shared-record', ['C03', 'C05', 'C07'], shared_record()),
    ('p8-reloc-shared-record-index', ['C07'], shared_record(lo_field='[1]')),
    ('p8-parse-format-lookup', None, format_lookup()),
    ('p8-eval-keywords-only', ['C07', 'C11'], eval_keywords()),
]
BREAKING += [
    ('c8-reloc-shared-record-swapped', ['C07'], shared_record(ret='HiLo(lo, hi)')),
    ('c8-reloc-shared-record-index', ['C07'], shared_record(lo_field='[0]')),
    ('c8-parse-format-lookup-swapped', ['C02'], format_lookup(swap=('cl', 'cs'))),
    ('c8-eval-keywords-position', ['C07'], eval_keywords('position=position - 4, env=env, line=line')),
]

# ---- the guard of the near jump written with an assignment expression (pathwalk binds the name; an opaque guard is no verdict) ---------
JAL_GUARD = "            value = c_int32(value).value  # signed imm\n            if value >= (-2**20) and value <= (2**20 - 1):\n"


def walrus_guard(hi='(2**20 - 1)'):
    return [(A, JAL_GUARD, "            if (value := c_int32(value).value) >= (-2**20) and value <= " + hi + ":\n", 1)]


PRESERVING += [
    ('p8-jump-guard-walrus', ['C03', 'C05', 'C07'], walrus_guard()),
    # the key bound by an assignment expression is the item's own mnemonic (was: a finding, then no verdict)
    ('p8-pack-walrus-key', ['C01', 'C02'], [(A, "        encode_func = INSTRUCTIONS[item.name]\n", "        encode_func = INSTRUCTIONS[(mnemonic := item.name)]\n")]),
]
BREAKING += [('c8-jump-guard-walrus-wide', ['C07'], walrus_guard('(2**20 + 1)'))]

# ---- a no-verdict in one rule group must not mask a violation another group establishes (Report.undecided / encprops.attempt) ----------
R_TYPE_FN = ("def r_type(rd, rs1, rs2, *, opcode, funct3, funct7):\n    rd = lookup_register(rd)\n    rs1 = lookup_register(rs1)\n    rs2 = lookup_register(rs2)\n\n"
             "    code = 0\n    code |= opcode\n    code |= rd << 7\n    code |= funct3 << 12\n    code |= rs1 << 15\n    code |= rs2 << 20\n    code |= funct7 << 25\n\n    return code\n")
R_TYPE_WHILE = ("def r_type(rd, rs1, rs2, *, opcode, funct3, funct7):\n    fields = [(opcode, 0), (lookup_register(rd), 7), (funct3, 12), (lookup_register(rs1), 15), "
                "(lookup_register(rs2), 20), (funct7, 25)]\n    code = 0\n    while fields:\n        value, shift = fields.pop()\n        code |= value << shift\n    return code\n")
UNSUPPORTED_ENCODER = [(A, R_TYPE_FN, R_TYPE_WHILE)]           # behaviour-preserving, outside the interpreter's fragment (a `while` loop)
ITYPE_MASK = ("    imm = c_uint32(imm).value & 0b111111111111\n\n    code = 0\n    code |= opcode\n    code |= rd << 7\n    code |= funct3 << 12\n    code |= rs1 << 15\n"
              "    code |= imm << 20\n\n    return code\n\n\n# i-type variation")

BREAKING += [
    ('c7-masked-wiring-behind-unsupported-encoder', ['C01'], UNSUPPORTED_ENCODER + [(A, "        return [self.rs1, self.rs2, self.imm]\n\n\nclass BTypeInstruction", "        return [self.rs2, self.rs1, self.imm]\n\n\nclass BTypeInstruction")]),
    ('c7-masked-layout-behind-unsupported-encoder', ['C01', 'C06', 'C07'], UNSUPPORTED_ENCODER + [(A, ITYPE_MASK, ITYPE_MASK.replace('0b111111111111', '0b11111111111'))]),
    ('c7-masked-carry-behind-unsupported-encoder', ['C07'], UNSUPPORTED_ENCODER + [(A, "        imm += 2**12\n", "        imm += 2**13\n")]),
    ('c7-masked-eval-behind-unsupported-arithmetic', ['C07'], [(A, "    return (value & (sign_bit - 1)) - (value & sign_bit)\n", "    return (value + sign_bit) % (2 * sign_bit) - sign_bit\n"),
                                                               (A, "        return relocate_hi(value)\n", "        return relocate_lo(value)\n")]),
    ('c7-pack-key-other-attribute', ['C01'], [(A, "        encode_func = INSTRUCTIONS[item.name]\n", "        encode_func = INSTRUCTIONS[item.line]\n")]),
]

UNDECIDED = [
    # tables filled by a function called at import time: the folded content is not the run-time content (was: every mnemonic / the
    # alias "missing")
    ('u7-instr-register-helper', ['C01', 'C02'], [(A, UPDATES, "INSTRUCTIONS = {}\n\n\ndef register_instructions(table):\n    INSTRUCTIONS.update(table)\n\n\n"
                                                   + "".join("register_instructions(%s_INSTRUCTIONS)\n" % t for t in _TABLES))]),
    ('u7-reg-function-built', ['C01', 'C06'], [(A, "'zero': 0,", ""), (A, AFTER_REGISTERS, "\n\ndef _add_aliases():\n    REGISTERS['zero'] = 0\n\n\n_add_aliases()\n" + AFTER_REGISTERS)]),
    # correct spellings outside the fragment: the sample agrees, nothing is proved
    ('u7-lo-add-sub', ['C07'], [(A, LO_BODY, "    return ((imm + 0x800) & 0xfff) - 0x800\n")]),
    ('u7-sext-modulo', ['C07'], [(A, "    return (value & (sign_bit - 1)) - (value & sign_bit)\n", "    return (value + sign_bit) % (2 * sign_bit) - sign_bit\n")]),
    # the unsupported encoder alone: no verdict (the twins above add a real violation to it)
    ('u7-unsupported-encoder-alone', ['C01', 'C06'], UNSUPPORTED_ENCODER),
    # the encoder looked up with a key the walk does not follow (was: "not looked up by the item's own mnemonic")
    ('u7-pack-converted-key', ['C01'], [(A, "        encode_func = INSTRUCTIONS[item.name]\n", "        encode_func = INSTRUCTIONS[str(item.name)]\n")]),
    # the imm(reg) form recognised by a test the token flow does not model: no verdict on the routing (was: the paren branch judged
    # as the plain form, "source operand 4 is handed to encoder parameter 1")
    ('u7-parse-paren-membership', ['C01'], [(A, S_ARM, S_ARM.replace("if tokens[3] == '(':", "if '(' in tokens[3:4]:"), 0)]),
    # args() hands over a property: the route of the operand is not followed (was: a silent pass through the "default value" arm)
    ('u7-args-property', ['C01'], [(A, "        return [self.rd, self.imm]\n\n\nclass JTypeInstruction", "        return [self.rd, self.immediate]\n\n    @property\n    def immediate(self):\n        return self.imm\n\n\nclass JTypeInstruction")]),
    # attributes stored by a setattr loop: the class model does not follow it (was: "positional rebuild would permute fields")
    ('u7-init-setattr-loop', ['C01'], [(A, U_INIT, U_INIT.replace("        self.name = name\n        self.rd = rd\n        self.imm = imm\n", "        for attr, value in (('name', name), ('rd', rd), ('imm', imm)):\n            setattr(self, attr, value)\n"))]),
    # a table written by a statement the program model does not fold (was: every ABI alias "missing")
    ('u7-reg-while-fill', ['C01', 'C06'], [(A, AFTER_REGISTERS, "\n_n = 0\nwhile _n < 32:\n    REGISTERS['x%d' % _n] = _n\n    _n += 1\n" + AFTER_REGISTERS)]),
]
UNDECIDED += UNDECIDED_LATE
