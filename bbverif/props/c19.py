"""C19 - DFU refuses oversize firmware untouched and never reports a failed flash as done."""
import ast

from ..core import Report, Finding, AnalysisError
from ..facts import Facts
from ..astutil import unparse
from ..pathwalk import show, is_const, C
from ..poly import Poly, to_poly, normalise_gt
from .. import dfurules as D
from ..immsites import contains, find_all

LEVEL = 'other'
FILE = 'bronzebeard/dfu.py'


def canon_sym(v):
    v = D.strip(v) if isinstance(v, tuple) and v and v[0] == 'res' and False else v
    return v


def guard_poly(test):
    """Normalise the size guard  len(firmware) > page_size * page_count  as P > 0 over canonical symbols."""
    def rename(v):
        s = D.strip(v)
        if s[0] == 'call' and s[1] == 'len' and len(s[2]) == 1:
            return ('LEN',)
        if v[0] == 'res':
            return ('sym', v[1])
        if v[0] == 'name':
            return ('sym', v[1])
        return v
    return normalise_gt(test, rename)


def run(repo, tier):
    facts = Facts(repo.dfu, FILE)
    rep = Report('C19', LEVEL,
                 'Paths of dfu.cli_main are enumerated symbolically (no USB, nothing executed).  (1) The size guard, normalised as a '
                 'polynomial inequality len(firmware) - page_size*page_count > 0 -> SystemExit, lies before every DNLOAD / CLRSTATUS '
                 'request on every path.  (2) Checked-then-ignored: wherever the code tests the polled status against STATUS_OK, the '
                 'bad-status edge must leave through SystemExit / sys.exit with a non-zero, non-empty argument and never reach the normal '
                 'end; (3) the status polled after every erase and every data download flows into such a test.')
    rep.trusted_base = ['CPython ast', 'bbverif.pathwalk', 'DFU 1.1 request numbers (oracle)']
    rep.not_decided = ['device errors that surface only as USB stalls (pyusb exceptions abort with a traceback)',
                       'errors during SET_ADDRESS (its status is overwritten by the next poll)']
    helpers = D.Helpers(facts)
    rep.count('request helpers classified', len(helpers.kind))
    fn, paths = D.main_paths(facts)
    rep.count('paths through cli_main', len(paths))
    consts = facts.consts
    svars = D.status_vars(fn, helpers)

    def rename(v):
        return ('sym', v[1]) if v[0] in ('name', 'res') else v

    def want_for(p):
        ps = p.env.get('page_size', ('name', 'page_size'))
        pc = p.env.get('page_count', ('name', 'page_count'))
        return Poly({(('LEN',),): 1}) - to_poly(ps, rename) * to_poly(pc, rename)
    n_req = 0
    guard_seen = False
    for p in paths:
        evs = D.protocol_events(p, helpers)
        want = want_for(p)
        guarded = False
        last_dn = None          # (kind, idx) of the last ERASE / DATA request whose status has not been tested yet
        polled_after = False
        last_poll_loop = None
        last_poll = None        # symbolic result of the most recent GETSTATUS on this path
        last_poll_node = None
        in_loop_polls = {}      # while node -> names rebound from a poll inside that loop
        for kind, idx, node, args, fname, raw in evs:
            if kind == 'COND':
                test, pol = args
                g = guard_poly(test)
                if g is not None and ('LEN',) in {s for k in g.terms for s in k}:
                    # the continuing branch is the one where the guard is false
                    if pol is False and g == want:
                        guarded = True
                        guard_seen = True
                    elif pol is False:
                        rep.fail(Finding('R19.1.guard', 'cli_main', node,
                                         'the firmware size guard refuses when {} > 0; the flash holds page_size*page_count bytes, so it must refuse exactly when '
                                         'len(firmware) - page_size*page_count > 0'.format(g), file=FILE, line=node.lineno), instance='guard form')
                        guarded = True
                st = D.status_test(test, consts, helpers, svars)
                if st is not None and last_poll is not None:
                    # R19.3 freshness: the tested status must be the one returned by the most recent poll
                    tested = st[1]
                    fresh = True
                    if tested[0] == 'unpack':
                        src = tested[1]
                        fresh = src[0] == 'res' and last_poll_node is not None and src[2] == last_poll_node.lineno
                    elif tested[0] == 'havoc':
                        fresh = last_poll_node is not None and tested[2] == 'while@{}'.format(getattr(last_poll_loop, 'lineno', -1))
                    rep.check(fresh, 'R19.3.fresh-status', 'the status compared with STATUS_OK is the one of the last GETSTATUS before the test',
                              lambda node=node, tested=tested: Finding('R19.3.fresh-status', 'cli_main', node,
                                                                       'the status tested here ({}) is not the one returned by the most recent GETSTATUS on this path: the polling loop refreshes the '
                                                                       'state but not the status, so an error reported while the device was settling is missed'.format(show(tested)),
                                                                       file=FILE, line=node.lineno))
                if st is not None:
                    bad = (st[0] == 'bad') == pol
                    if last_dn is not None and polled_after:
                        last_dn = None
                    if bad:
                        # from here the path must end in a failing exit, with no further request
                        rest = [e for e in evs if e[1] > idx]
                        more = [e for e in rest if e[0] in ('ERASE', 'DATA', 'SETADDR', 'CLR')]
                        exits = [e for e in rest if e[0] in ('RAISE', 'EXIT')]
                        good_exit = False
                        if exits and p.end in ('raise',) or (exits and exits[-1][0] == 'EXIT'):
                            e = exits[-1]
                            val = e[3]
                            arg = None
                            if e[0] == 'RAISE' and val[0] in ('call', 'new') and val[1] == 'SystemExit':
                                arg = val[2][0] if val[2] else C(None)
                            elif e[0] == 'EXIT':
                                arg = val[0] if val else C(None)
                            if arg is not None:
                                if is_const(arg):
                                    good_exit = bool(arg[1]) and arg[1] is not True or (isinstance(arg[1], str) and len(arg[1]) > 0)
                                else:
                                    good_exit = True
                        ok = good_exit and not more
                        prev = [e[0] for e in evs if e[1] < idx and e[0] in ('ERASE', 'DATA', 'SETADDR')]
                        after = prev[-1] if prev else 'start'
                        rep.check(ok, 'R19.2.checked-then-ignored', 'bad status after {} ends the run with a failing exit'.format(after),
                                  lambda node=node, more=more, after=after: Finding('R19.2.checked-then-ignored', 'cli_main:after-' + after, node,
                                                                       'the code tests the device status against STATUS_OK but on the bad-status edge the run {}: a failed flash is reported as done'.format(
                                                                           'keeps sending requests' if more else 'continues to the normal end (exit status 0)'),
                                                                       file=FILE, line=node.lineno))
            elif kind in ('ERASE', 'DATA', 'SETADDR', 'CLR'):
                n_req += 1
                rep.check(guarded, 'R19.1.dominates', '{} request ({}) is preceded by the size guard'.format(kind, fname),
                          lambda node=node, kind=kind: Finding('R19.1.dominates', 'cli_main', node,
                                                               'a {} request can be sent before the firmware size has been checked against the flash size'.format(kind),
                                                               file=FILE, line=node.lineno), nontrivial=False)
                if last_dn is not None:
                    k0, n0 = last_dn
                    rep.fail(Finding('R19.3.status-tested', 'cli_main', n0,
                                     'the status polled after this {} request is never compared with STATUS_OK before the next request: a device error goes unnoticed'.format(k0),
                                     file=FILE, line=n0.lineno), instance='{} at {}'.format(k0, n0.lineno))
                    last_dn = None
                if kind in ('ERASE', 'DATA'):
                    last_dn = (kind, node)
                    polled_after = False
            elif kind == 'POLL':
                last_poll = raw
                last_poll_node = node
                # is this poll inside a while loop body?  (its statement's ancestors)
                last_poll_loop = None
                anc = getattr(node, '_parent', None)
                while anc is not None:
                    if isinstance(anc, ast.While):
                        last_poll_loop = anc
                        break
                    anc = getattr(anc, '_parent', None)
                if last_dn is not None:
                    polled_after = True
        if last_dn is not None and p.end != 'raise':
            k0, n0 = last_dn
            rep.fail(Finding('R19.3.status-tested', 'cli_main', n0,
                             'the status polled after this {} request is never compared with STATUS_OK: a device error goes unnoticed'.format(k0),
                             file=FILE, line=n0.lineno), instance='{} at {}'.format(k0, n0.lineno))
        elif any(e[0] in ('ERASE', 'DATA') for e in evs):
            rep.ok('R19.3.status-tested', 'every erase / data request has its status tested on every path')
    rep.analysed['requests on paths'] = n_req
    if not guard_seen:
        rep.fail(Finding('R19.1.guard', 'cli_main', 'size guard', 'no test of the firmware length against page_size*page_count precedes the requests', file=FILE, line=fn.lineno))
    else:
        rep.ok('R19.1.guard', 'guard normalises to len(firmware) - page_size*page_count > 0 -> refuse')
    # the guard's refusing branch exits non-zero
    for p in paths:
        for t, pol, node in p.conds:
            g = guard_poly(t)
            if g is not None and g == want_for(p) and pol is True:
                ok = p.end == 'raise' and p.events[-1][1][0] in ('call', 'new') and p.events[-1][1][1] == 'SystemExit' \
                    and p.events[-1][1][2] and not (is_const(p.events[-1][1][2][0]) and not p.events[-1][1][2][0][1])
                sent = [e for e in D.protocol_events(p, helpers) if e[0] in ('ERASE', 'DATA', 'SETADDR', 'CLR')]
                rep.check(ok and not sent, 'R19.1.refuse', 'oversize firmware: SystemExit with a message, nothing sent',
                          lambda node=node: Finding('R19.1.refuse', 'cli_main', node, 'oversize firmware is not refused with a failing exit before any request', file=FILE, line=node.lineno),
                          nontrivial=False)
    rep.sample({'helpers': helpers.kind})
    rep.floor('request helpers classified', 5)
    rep.floor('paths through cli_main', 20)
    rep.floor('requests on paths', 10)
    return rep
