"""C18 - a completed DFU run leaves the device flash equal to the firmware image (host-side protocol obligations)."""
import ast

from ..core import Report, Finding, AnalysisError
from ..facts import Facts
from ..astutil import unparse, dotted, fold, NotConstant
from ..pathwalk import Walker, PathState, show, is_const, C
from ..poly import Poly, to_poly
from .. import dfurules as D, oracle
from ..immsites import contains, find_all, function_paths
from .c19 import guard_poly

LEVEL = 'other'
FILE = 'bronzebeard/dfu.py'


def F(rule, construct, stmt, msg, line=None):
    return Finding(rule, construct, stmt, msg, file=FILE, line=line if line is not None else getattr(stmt, 'lineno', None))


def check_constants(rep, facts, helpers):
    consts = facts.consts
    line = 1
    for group in ('requests', 'states', 'status', 'dfuse', 'usb'):
        for name, val in oracle.DFU[group].items():
            have = consts.get(name)
            rep.check(have == val, 'R18.1.constants', '{} == {}'.format(name, val),
                      lambda name=name, val=val, have=have: F('R18.1.constants', name, name, '{} is {} but the DFU / DfuSe specification says {}'.format(name, have, val),
                                                              line=facts.assign_nodes[name].lineno if name in facts.assign_nodes else 1), nontrivial=False)
    states = [consts.get(n) for n in oracle.DFU['states']]
    rep.check(len(set(states)) == len(states), 'R18.1.constants', 'state numbers pairwise distinct',
              lambda: F('R18.1.constants', 'STATE_*', 'distinct', 'two DFU states share a number', line=1))
    want_kinds = {'POLL': 1, 'CLR': 1, 'ERASE': 1, 'SETADDR': 1, 'DATA': 1}
    have = {}
    for fn, k in helpers.kind.items():
        have[k] = have.get(k, 0) + 1
    for k in want_kinds:
        rep.check(have.get(k, 0) >= 1, 'R18.1.helpers', 'a helper sends {}'.format(k),
                  lambda k=k: F('R18.1.helpers', 'dfu helpers', k, 'no request helper sends {} (request numbers / DfuSe command bytes changed?)'.format(k), line=1))
    for fn, d in helpers.detail.items():
        k = helpers.kind[fn]
        node = helpers.calls[fn]
        want_rt = oracle.DFU['bmRequestType_in'] if k == 'POLL' else oracle.DFU['bmRequestType_out']
        rep.check(d['bmRequestType'] == want_rt, 'R18.1.request-type', '{}: bmRequestType 0x{:02x}'.format(fn, want_rt),
                  lambda fn=fn, d=d, want_rt=want_rt, node=node: F('R18.1.request-type', fn, node,
                                                                   'bmRequestType is {} but a class/interface {} request is 0x{:02x}'.format(d['bmRequestType'], 'IN' if want_rt & 0x80 else 'OUT', want_rt)))
        if k == 'POLL':
            rep.check(d['data_const'] == oracle.DFU['getstatus_len'], 'R18.1.getstatus-len', 'GETSTATUS asks for 6 bytes',
                      lambda node=node, d=d: F('R18.1.getstatus-len', fn, node, 'GETSTATUS reads {} bytes; the status block is 6 bytes'.format(d['data_const'])))
        if k in ('ERASE', 'SETADDR'):
            fmt = d['pack'][0] if d['pack'] else None
            rep.check(fmt == '<BI' and d['wValue'] == 0, 'R18.1.dfuse-command', '{}: wValue 0, payload <BI (command byte + LE 32-bit address)'.format(fn),
                      lambda node=node, fmt=fmt, d=d: F('R18.1.dfuse-command', fn, node,
                                                        'DfuSe command is sent with wValue={} and payload format {!r}; commands travel in block 0 as command byte + little-endian 32-bit address'.format(d['wValue'], fmt)))
            # the address parameter is what gets packed
            f = facts.funcs[fn]
            params = [a.arg for a in f.args.args]
            rep.check(d['pack'] and len(d['pack'][3]) == 1 and d['pack'][3][0] in params[1:], 'R18.1.dfuse-command', '{}: packs its address parameter'.format(fn),
                      lambda node=node: F('R18.1.dfuse-command', fn, node, 'the DfuSe command does not carry the address it was given'))
        if k == 'DATA':
            f = facts.funcs[fn]
            params = [a.arg for a in f.args.args]
            rep.check(d['wValue'] == oracle.DFU['download_wvalue'], 'R18.1.block-number', 'data download uses wValue 2 (address pointer + 0)',
                      lambda node=node, d=d: F('R18.1.block-number', fn, node,
                                               'data is downloaded with wValue={}; DfuSe writes at pointer + (wValue - 2) * wLength, and 0 / 1 are reserved for commands'.format(d['wValue'])))
            rep.check(d['data'] in params[1:], 'R18.1.block-number', 'data download sends the chunk it was given',
                      lambda node=node: F('R18.1.block-number', fn, node, 'the download helper does not send its data parameter'))


def check_poll(rep, facts, helpers):
    """R18.2: dfu_get_status sleeps bwPollTimeout (3 little-endian bytes, ms) before returning (bStatus, bState)."""
    polls = [n for n, k in helpers.kind.items() if k == 'POLL']
    for name in polls:
        fn = facts.funcs[name]
        paths = function_paths(facts, fn)
        rets = [p for p in paths if p.end == 'return']
        if not rets:
            raise AnalysisError('{} has no return path'.format(name))
        for p in rets:
            ret = [e for e in p.events if e[0] == 'return'][-1]
            sleeps = [(i, e) for i, e in enumerate(p.events) if e[0] == 'expr' and e[1][0] == 'call' and e[1][1] == 'time.sleep']
            rep.check(len(sleeps) >= 1, 'R18.2.sleep', '{}: time.sleep on the path to return'.format(name),
                      lambda: F('R18.2.sleep', name, ret[2], 'the requested poll delay is not waited for before the next request'))
            if not sleeps:
                continue
            arg = sleeps[0][1][1][2][0]
            # find the struct.unpack result and its format
            unp = find_all(arg, lambda t: t[0] == 'unpack')
            srcs = {u[1] for u in unp}
            fmt = None
            src = None
            for s_ in srcs:
                if s_[0] == 'call' and s_[1] == 'struct.unpack' and is_const(s_[2][0]):
                    fmt, src = s_[2][0][1], s_
            rep.check(fmt == '<BBBBBB', 'R18.2.layout', 'status block unpacked as six bytes',
                      lambda: F('R18.2.layout', name, sleeps[0][1][2], 'the GETSTATUS reply is unpacked as {!r} instead of six single bytes'.format(fmt)))
            if fmt != '<BBBBBB':
                continue
            # arg * 1000 == b1 | b2 << 8 | b3 << 16
            ms = None
            if arg[0] == 'bin' and arg[1] == '/' and arg[3] == C(1000):
                ms = arg[2]
            elif arg[0] == 'bin' and arg[1] == '*' and is_const(arg[3]) and arg[3][1] in (0.001,):
                ms = arg[2]
            weights = byte_weights(ms, src) if ms is not None else None
            rep.check(weights == {1: 1, 2: 256, 3: 65536}, 'R18.2.delay', 'slept seconds * 1000 == byte1 | byte2 << 8 | byte3 << 16',
                      lambda: F('R18.2.delay', name, sleeps[0][1][2],
                                'the sleep is not bwPollTimeout (bytes 1..3 of the reply, little endian, milliseconds): weights {} / divisor {}'.format(weights, show(arg)[:60])))
            rv = ret[1]
            good = rv[0] == 'tuple' and len(rv[1]) == 2 and rv[1][0] == ('unpack', src, '0', 6) and rv[1][1] == ('unpack', src, '4', 6)
            rep.check(good, 'R18.2.result', 'returns (bStatus = byte 0, bState = byte 4)',
                      lambda: F('R18.2.result', name, ret[2], 'the helper does not return (byte 0, byte 4) of the reply as (status, state)'))
            ridx = [i for i, e in enumerate(p.events) if e[0] == 'return'][-1]
            rep.check(sleeps[0][0] < ridx, 'R18.2.sleep', 'sleep precedes the return', lambda: F('R18.2.sleep', name, ret[2], 'sleep after return'), nontrivial=False)


def byte_weights(v, src):
    """{byte index: weight} of an expression built from | + << over bytes of one unpack source; None if other."""
    if v[0] == 'unpack' and v[1] == src:
        return {int(v[2]): 1}
    if v[0] == 'bin' and v[1] in ('|', '+'):
        a, b = byte_weights(v[2], src), byte_weights(v[3], src)
        if a is None or b is None or set(a) & set(b):
            return None
        a.update(b)
        return a
    if v[0] == 'bin' and v[1] == '<<' and is_const(v[3]):
        a = byte_weights(v[2], src)
        return None if a is None else {k: w << v[3][1] for k, w in a.items()}
    if v[0] == 'bin' and v[1] == '*' and is_const(v[3]):
        a = byte_weights(v[2], src)
        return None if a is None else {k: w * v[3][1] for k, w in a.items()}
    return None


def loop_continues_on(facts, wnode, state_values):
    """Set of state numbers for which the while condition holds, when the condition only compares one variable with constants."""
    names = {n.id for n in ast.walk(wnode.test) if isinstance(n, ast.Name) and n.id not in facts.consts}
    if len(names) != 1:
        return None, None
    var = names.pop()
    out = set()
    for s in state_values:
        env = dict(facts.consts)
        env[var] = s
        try:
            out.add(s) if eval_test(wnode.test, env) else None
        except NotConstant:
            return None, var
    return out, var


def eval_test(node, env):
    if isinstance(node, ast.BoolOp):
        vals = [eval_test(v, env) for v in node.values]
        return all(vals) if isinstance(node.op, ast.And) else any(vals)
    if isinstance(node, ast.UnaryOp) and isinstance(node.op, ast.Not):
        return not eval_test(node.operand, env)
    if isinstance(node, ast.Compare):
        left = fold(node.left, env)
        for op, comp in zip(node.ops, node.comparators):
            right = fold(comp, env)
            ok = {ast.Eq: lambda: left == right, ast.NotEq: lambda: left != right, ast.In: lambda: left in right,
                  ast.NotIn: lambda: left not in right, ast.Lt: lambda: left < right, ast.Gt: lambda: left > right,
                  ast.LtE: lambda: left <= right, ast.GtE: lambda: left >= right}.get(type(op))
            if ok is None:
                raise NotConstant('op')
            if not ok():
                return False
            left = right
        return True
    raise NotConstant('test')


def check_typestate(rep, facts, helpers, fn, paths):
    """R18.3: no request while the previous download request has not settled."""
    busy = oracle.DFU['states']['STATE_DFU_DNBUSY']
    all_states = sorted(oracle.DFU['states'].values())
    settle_ok = {}
    for w in [n for n in ast.walk(fn) if isinstance(n, ast.While)]:
        cont, var = loop_continues_on(facts, w, all_states)
        polls_in_body = False
        for n in ast.walk(w):
            if isinstance(n, ast.Assign) and isinstance(n.value, ast.Call) and isinstance(n.value.func, ast.Name) \
                    and helpers.kind.get(n.value.func.id) == 'POLL':
                tg = n.targets[0]
                names = [e.id for e in tg.elts if isinstance(e, ast.Name)] if isinstance(tg, ast.Tuple) else []
                if var in names and names.index(var) == 1:
                    polls_in_body = True
        settle_ok[w] = (cont is not None and busy in cont and polls_in_body, cont, var)
    rep.count('polling loops', len(settle_ok))
    n_req = 0
    for p in paths:
        state = 'settled'
        polled = False
        pend = None
        for kind, idx, node, args, fname, raw in D.protocol_events(p, helpers):
            if kind in ('ERASE', 'SETADDR', 'DATA', 'CLR'):
                n_req += 1
                if state == 'pending':
                    rep.fail(F('R18.3.settle', 'cli_main', node,
                               'a {} request is issued while the {} request before it (line {}) has not been polled out of dfuDNBUSY'.format(kind, pend[0], pend[1].lineno)),
                             instance='{} after {}'.format(kind, pend[0]))
                else:
                    rep.ok('R18.3.settle', '{} ({}) only when the previous request has settled'.format(kind, fname))
                if kind != 'CLR':
                    state, polled, pend = 'pending', False, (kind, node)
            elif kind == 'POLL':
                if state == 'pending':
                    polled = True
            elif kind in ('ENDWHILE', 'ENDWHILE0'):
                good = settle_ok.get(node, (False, None, None))[0]
                if state == 'pending' and polled and good:
                    state = 'settled'
    rep.analysed['requests on paths'] = n_req
    for w, (good, cont, var) in settle_ok.items():
        rep.check(good, 'R18.3.poll-loop', 'polling loop at line {} keeps polling while the device is busy'.format(w.lineno) if False else
                  'polling loop `while {}` keeps polling while the device is busy'.format(unparse(w.test)),
                  lambda w=w, cont=cont: F('R18.3.poll-loop', 'cli_main', w.test,
                                           'this loop stops polling although the device may still report dfuDNBUSY (continues only on states {}) or does not refresh the state it tests'.format(
                                               sorted(cont) if cont is not None else '?'), line=w.lineno))


def loops_of(fn, helpers, kind):
    out = []
    for i, st in enumerate(fn.body):
        if isinstance(st, ast.For):
            called = {n.func.id for n in ast.walk(st) if isinstance(n, ast.Call) and isinstance(n.func, ast.Name)}
            if any(helpers.kind.get(c) == kind for c in called):
                out.append((i, st))
    return out


def check_addresses(rep, facts, helpers, fn, paths):
    """R18.4 / R18.5: erase loop before write loop over the same page range; addresses base + page*page_size; chunk = same offset."""
    er, wr = loops_of(fn, helpers, 'ERASE'), loops_of(fn, helpers, 'DATA')
    rep.check(len(er) == 1 and len(wr) == 1 and er[0][0] < wr[0][0], 'R18.4.erase-first', 'one erase loop, then one write loop',
              lambda: F('R18.4.erase-first', 'cli_main', 'loops', 'pages are not all erased in a loop that completes before the write loop starts', line=fn.lineno))
    if not (len(er) == 1 and len(wr) == 1):
        return
    mixed = loops_of(fn, helpers, 'DATA')[0][1] is er[0][1]
    rep.check(not mixed and unparse(er[0][1].iter) == unparse(wr[0][1].iter), 'R18.4.same-range', 'both loops run over {}'.format(unparse(er[0][1].iter)),
              lambda: F('R18.4.same-range', 'cli_main', wr[0][1].iter, 'erase loop ranges over {} but write loop over {}'.format(unparse(er[0][1].iter), unparse(wr[0][1].iter)),
                        line=wr[0][1].lineno))
    it = er[0][1].iter
    rep.check(isinstance(it, ast.Call) and dotted(it.func) == 'range' and len(it.args) == 1, 'R18.4.same-range', 'loops count pages from 0',
              lambda: F('R18.4.same-range', 'cli_main', it, 'the page loops do not run over range(pages)', line=er[0][1].lineno))
    base = oracle.DFU['flash_base']

    def rename(v):
        if v[0] == 'havoc':
            return ('sym', 'PAGE') if v[1] in (getattr(er[0][1].target, 'id', None), getattr(wr[0][1].target, 'id', None)) else ('sym', v[1])
        if v[0] in ('name', 'res'):
            return ('sym', v[1])
        return v
    seen = set()
    for p in paths:
        ps = p.env.get('page_size', ('name', 'page_size'))
        want = Poly.const(base) + Poly.sym(('sym', 'PAGE')) * to_poly(ps, rename)
        for kind, idx, node, args, fname, raw in D.protocol_events(p, helpers):
            if kind in ('ERASE', 'SETADDR') and len(args) >= 2:
                got = to_poly(args[1], rename)
                key = (kind, repr(got), repr(want))
                if key in seen:
                    continue
                seen.add(key)
                rep.check(got == want, 'R18.4.address', '{} address == 0x08000000 + page * page_size'.format(kind),
                          lambda node=node, got=got, want=want, kind=kind: F('R18.4.address', 'cli_main', node,
                                                                             '{} is sent address {} instead of {}'.format(kind, got, want)))
            if kind == 'DATA' and len(args) >= 2:
                code = D.strip(args[1])
                ok = False
                desc = show(code)[:80]
                if code[0] == 'slice':
                    lo, hi = to_poly(code[2], rename), to_poly(code[3], rename)
                    wlo = Poly.sym(('sym', 'PAGE')) * to_poly(ps, rename)
                    ok = lo == wlo and (hi - lo) == to_poly(ps, rename) and code[4] == C(None)
                    desc = 'firmware[{} : {}]'.format(lo, hi)
                    fw = D.strip(code[1])
                    final_fw = D.strip(p.env.get('firmware', ('name', 'firmware')))
                    ok = ok and (code[1] == p.env.get('firmware') or fw == final_fw)
                key = ('DATA', desc)
                if key in seen:
                    continue
                seen.add(key)
                rep.check(ok, 'R18.5.chunk', 'chunk == padded firmware[page*page_size : (page+1)*page_size]',
                          lambda node=node, desc=desc: F('R18.5.chunk', 'cli_main', node, 'the chunk written to a page is {} instead of the page-sized slice at the same offset as its address'.format(desc)))


def length_poly(v, rename):
    """len(v) for the firmware buffer expressions."""
    s = v
    if s[0] == 'res':
        return Poly.sym(('LEN',))
    if is_const(s) and isinstance(s[1], (bytes, str)):
        return Poly.const(len(s[1]))
    if s[0] == 'accum':
        init, it, elem, meth = s[1], D.strip(s[2]), s[3], s[4]
        if it[0] == 'call' and it[1] == 'range' and len(it[2]) == 1:
            cnt = to_poly(it[2][0], rename)
            return length_poly(init, rename) + cnt * length_poly(elem, rename)
        raise AnalysisError('padding loop does not run over range(n)')
    if s[0] == 'bin' and s[1] == '+':
        return length_poly(s[2], rename) + length_poly(s[3], rename)
    if s[0] == 'bin' and s[1] == '*':
        for a, b in ((s[2], s[3]), (s[3], s[2])):
            if is_const(a) and isinstance(a[1], (bytes, str)):
                return to_poly(b, rename) * Poly.const(len(a[1]))
    raise AnalysisError('firmware buffer expression outside the padding fragment: {}'.format(show(v)[:80]))


def zero_only(v):
    s = v
    if s[0] == 'res':
        return True
    if is_const(s) and isinstance(s[1], bytes):
        return set(s[1]) <= {0}
    if s[0] == 'accum':
        return zero_only(s[1]) and zero_only(s[3])
    if s[0] == 'bin' and s[1] == '+':
        return zero_only(s[2]) and zero_only(s[3])
    if s[0] == 'bin' and s[1] == '*':
        return any(is_const(a) and isinstance(a[1], bytes) and set(a[1]) <= {0} for a in (s[2], s[3]))
    return False


def check_padding(rep, facts, helpers, fn, paths):
    """R18.6: with len = q*S + r from divmod, the padded length is pages*S on both arms and only zero bytes are added."""
    seen = set()
    n = 0
    for p in paths:
        if not any(e[0] in ('ERASE', 'DATA') for e in D.protocol_events(p, helpers)):
            continue
        fw = p.env.get('firmware')
        pages = p.env.get('pages')
        if fw is None or pages is None:
            raise AnalysisError('anchor vanished: firmware / pages variables in dfu.cli_main')
        dm = find_all(pages, lambda t: t[0] == 'unpack' and D.strip(t[1])[0] == 'call' and D.strip(t[1])[1] == 'divmod')
        if not dm:
            raise AnalysisError('pages is not derived from divmod(len(firmware), page_size)')
        src = dm[0][1]
        q, r = ('unpack', src, '0', 2), ('unpack', src, '1', 2)
        dargs = D.strip(src)[2]
        S = dargs[1]

        def rename(v):
            if v == q:
                return ('Q',)
            if v == r:
                return ('R',)
            if v[0] in ('name', 'res'):
                return ('sym', v[1])
            return v
        Sp = to_poly(S, rename)
        rem_fact = p.facts.get(r)
        r_zero = bool(rem_fact and rem_fact['eq'] is not None and rem_fact['eq'][1] == 0)
        try:
            L = length_poly(fw, rename)
        except AnalysisError as e:
            raise
        Lsub = L.subst(('LEN',), Poly.sym(('Q',)) * Sp + Poly.sym(('R',)))
        P = to_poly(pages, rename) * Sp
        diff = Lsub - P
        if r_zero:
            diff = diff.subst(('R',), Poly.const(0))
        # a padding loop that ran zero times means its count is zero: reduce modulo that relation
        for ev in p.events:
            if ev[0] == 'loop0':
                it = D.strip(ev[1])
                if it[0] == 'call' and it[1] == 'range' and len(it[2]) == 1:
                    X = to_poly(it[2][0], rename)
                    if r_zero:
                        X = X.subst(('R',), Poly.const(0))
                    for k in (1, -1):
                        if (diff + X * Poly.const(k)).is_zero():
                            diff = Poly()
        key = (repr(diff), r_zero, show(fw)[:60])
        if key in seen:
            continue
        seen.add(key)
        n += 1
        node = fn
        rep.check(diff.is_zero(), 'R18.6.padding', 'rem {} 0: padded length == pages * page_size'.format('==' if r_zero else '!='),
                  lambda diff=diff, r_zero=r_zero: F('R18.6.padding', 'cli_main', 'padding (rem {} 0)'.format('==' if r_zero else '!='),
                                                     'with len(firmware) = q*page_size + rem the padded length minus pages*page_size is {} (must be 0): the last page is {}'.format(
                                                         diff, 'partly written / out of range'), line=fn.lineno))
        rep.check(zero_only(fw), 'R18.6.zeros', 'the image is only ever extended by zero bytes',
                  lambda: F('R18.6.zeros', 'cli_main', 'padding bytes', 'the firmware image is padded with something other than zero bytes', line=fn.lineno), nontrivial=False)
        dm_ok = D.strip(dargs[0])[0] == 'call' and D.strip(dargs[0])[1] == 'len'
        rep.check(dm_ok, 'R18.6.padding', 'pages, rem = divmod(len(firmware), page_size)',
                  lambda: F('R18.6.padding', 'cli_main', 'divmod', 'page count is not derived from the firmware length', line=fn.lineno), nontrivial=False)
    rep.count('padding cases', n)


def check_guard_and_table(rep, facts, helpers, fn, paths):
    table = {}
    for p in paths:
        evs = D.protocol_events(p, helpers)
        if not any(e[0] in ('ERASE', 'DATA', 'SETADDR') for e in evs):
            continue
        ps = p.env.get('page_size', ('name', 'page_size'))
        pc = p.env.get('page_count', ('name', 'page_count'))

        def rename(v):
            return ('sym', v[1]) if v[0] in ('name', 'res') else v
        want = Poly({(('LEN',),): 1}) - to_poly(ps, rename) * to_poly(pc, rename)
        first_req = min(e[1] for e in evs if e[0] in ('ERASE', 'DATA', 'SETADDR', 'CLR'))
        guarded = False
        for kind, idx, node, args, fname, raw in evs:
            if kind == 'COND' and idx < first_req:
                g = guard_poly(args[0])
                if g is not None and g == want and args[1] is False:
                    guarded = True
        rep.check(guarded, 'R18.7.in-range', 'size guard precedes the first request (all addresses below base + page_count*page_size)',
                  lambda: F('R18.7.in-range', 'cli_main', 'size guard', 'requests can be sent for a firmware longer than page_size*page_count: pages beyond the flash are addressed', line=fn.lineno))
        for t, pol, node in p.conds:
            if pol and t[0] == 'cmp' and t[1] == '==' and is_const(t[3]) and isinstance(t[3][1], str) and len(t[3][1]) == 1 \
                    and t[2][0] == 'sub' and t[2][2] == C(2):
                if is_const(pc) and is_const(ps):
                    table[t[3][1]] = (pc[1], ps[1], node)
    for letter, n in oracle.DFU['gd32_pages'].items():
        have = table.get(letter)
        rep.check(have is not None and have[0] == n and have[1] == oracle.DFU['gd32_page_size'], 'R18.8.variants',
                  'GD32 serial letter {} -> {} pages of {} bytes'.format(letter, n, oracle.DFU['gd32_page_size']),
                  lambda letter=letter, n=n, have=have: F('R18.8.variants', 'cli_main', have[2] if have else 'serial number table',
                                                          'GD32 variant {!r} is given {} pages of {} bytes; the part has {} pages of 1024 bytes'.format(
                                                              letter, have[0] if have else None, have[1] if have else None, n), line=have[2].lineno if have else fn.lineno))


def run(repo, tier):
    facts = Facts(repo.dfu, FILE)
    rep = Report('C18', LEVEL,
                 'Host-side obligations of the DfuSe download protocol decided on the syntax tree of dfu.py: protocol constants vs. DFU 1.1 / '
                 'DfuSe; GETSTATUS helper sleeps bwPollTimeout and returns (bStatus, bState); typestate over every path of cli_main: no '
                 'download-class request while the previous one has not been polled out of dfuDNBUSY by a loop that keeps polling while busy; '
                 'erase loop precedes write loop over the same range; erase / set-address addresses normalise to 0x08000000 + page*page_size and '
                 'the chunk is the slice at the same offset; padding identity len = q*S + r => padded length = pages*S with zero bytes only; '
                 'size guard precedes the first request; GD32 variant table.')
    rep.trusted_base = ['CPython ast', 'bbverif.pathwalk / poly', 'DFU 1.1 and DfuSe numbers (oracle)']
    rep.not_decided = ['that the *device* ends up holding those bytes under all busy/error schedules (needs a device model and schedule exploration)',
                       'len <= S*C  =>  ceil(len/S) <= C is arithmetic, stated, not checked']
    helpers = D.Helpers(facts)
    fn, paths = D.main_paths(facts)
    rep.count('paths through cli_main', len(paths))
    rep.count('request helpers classified', len(helpers.kind))
    check_constants(rep, facts, helpers)
    check_poll(rep, facts, helpers)
    check_typestate(rep, facts, helpers, fn, paths)
    check_addresses(rep, facts, helpers, fn, paths)
    check_padding(rep, facts, helpers, fn, paths)
    check_guard_and_table(rep, facts, helpers, fn, paths)
    rep.sample({'helpers': helpers.kind, 'details': {k: {kk: str(vv) for kk, vv in v.items()} for k, v in helpers.detail.items()}})
    rep.floor('paths through cli_main', 20)
    rep.floor('request helpers classified', 5)
    rep.floor('polling loops', 3)
    rep.floor('padding cases', 2)
    rep.floor('requests on paths', 10)
    return rep
