"""Path-provenance kinds for filesystem arguments (C10 R10.5, C14 R14.1).

  Resolved   a search directory joined with the included name (what the include search returned)
  Dir        a search directory: an element of include_dirs, or dirname(abspath(<file being read>)), or cwd on the source-string branch
  UserGiven  the caller's own path_or_source (relative to the caller by definition)
  RawToken   text taken from the source line (relative to nothing in particular -> resolved against the process cwd)
  NoneK      the constant None
  Unknown
"""
import ast

from .core import AnalysisError
from .astutil import unparse, dotted, walk_no_nested

ORDER = ['NoneK', 'Resolved', 'Dir', 'UserGiven', 'Unknown', 'RawToken']


def worst(kinds):
    kinds = [k for k in kinds if k != 'NoneK'] or ['NoneK']
    return max(kinds, key=ORDER.index)


class Prov:
    def __init__(self, facts, cg):
        self.facts = facts
        self.cg = cg
        self.memo = {}
        self.busy = set()

    def fn_of(self, qual):
        return self.cg.funcs[qual]

    def param_kind(self, qual, name):
        """Kind of a parameter = worst over its call sites (entry points: UserGiven for assemble / top-level read_lines)."""
        key = ('param', qual, name)
        if key in self.memo:
            return self.memo[key]
        if key in self.busy:
            return 'NoneK'
        self.busy.add(key)
        fn = self.fn_of(qual)
        params = [a.arg for a in fn.args.args]
        kinds = []
        if qual == 'assemble' and name == 'path_or_source':
            kinds.append('UserGiven')
        if name in ('include_dirs',) or name.endswith('dirs'):
            kinds.append('Dir')
        for cfn, call in self.cg.call_sites().get(qual, []):
            cq = [q for q, n in self.cg.funcs.items() if n is cfn][0]
            if name in params:
                idx = params.index(name)
                if '.' in qual and qual.split('.')[0] in self.facts.classes and params and params[0] in ('self', 'cls'):
                    idx -= 1      # bound call: Class(...) or obj.method(...)
                arg = call.args[idx] if 0 <= idx < len(call.args) else next((k.value for k in call.keywords if k.arg == name), None)
            else:
                arg = next((k.value for k in call.keywords if k.arg == name), None)
            if arg is not None:
                kinds.append(self.kind(arg, cq))
        self.busy.discard(key)
        out = worst(kinds) if kinds else 'Unknown'
        self.memo[key] = out
        return out

    def attr_kind(self, attr):
        """Kind of an object attribute = worst over all stores `<x>.attr = v` and constructor bindings self.attr = param."""
        key = ('attr', attr)
        if key in self.memo:
            return self.memo[key]
        if key in self.busy:
            return 'NoneK'
        self.busy.add(key)
        kinds = []
        for q, fn in self.cg.funcs.items():
            for n in walk_no_nested(fn):
                if isinstance(n, ast.Assign):
                    for t in n.targets:
                        if isinstance(t, ast.Attribute) and t.attr == attr:
                            kinds.append(self.kind(n.value, q))
        self.busy.discard(key)
        out = worst(kinds) if kinds else 'Unknown'
        self.memo[key] = out
        return out

    def kind(self, node, qual):
        if isinstance(node, ast.Name):
            key = ('name', qual, node.id)
            if key in self.busy:
                return 'NoneK'       # self-referential definition (x = x.strip()): neutral element
            self.busy.add(key)
            try:
                return self._kind(node, qual)
            finally:
                self.busy.discard(key)
        return self._kind(node, qual)

    def _kind(self, node, qual):
        fn = self.fn_of(qual)
        if isinstance(node, ast.Constant):
            return 'NoneK' if node.value is None else ('RawToken' if isinstance(node.value, str) and node.value not in ('<string>',) else 'NoneK')
        if isinstance(node, ast.Name):
            params = [a.arg for a in fn.args.args + fn.args.kwonlyargs]
            defs = []
            for n in walk_no_nested(fn):
                if isinstance(n, ast.Assign):
                    for t in n.targets:
                        if isinstance(t, ast.Name) and t.id == node.id:
                            defs.append(('expr', n.value))
                        if isinstance(t, ast.Tuple):
                            for e in t.elts:
                                e2 = e.value if isinstance(e, ast.Starred) else e
                                if isinstance(e2, ast.Name) and e2.id == node.id:
                                    defs.append(('unpack', n.value))
                if isinstance(n, ast.For) and isinstance(n.target, ast.Name) and n.target.id == node.id:
                    defs.append(('elem', n.iter))
                if isinstance(n, ast.withitem) and isinstance(n.optional_vars, ast.Name) and n.optional_vars.id == node.id:
                    defs.append(('expr', n.context_expr))
            kinds = []
            if node.id in params and not defs:
                return self.param_kind(qual, node.id)
            if node.id in params:
                kinds.append(self.param_kind(qual, node.id))
            if not defs and node.id not in params:
                # closure variable of the enclosing function
                par = self.cg.parent.get(qual)
                if par:
                    return self.kind(node, par)
                return 'Unknown'
            for how, v in defs:
                if how == 'expr':
                    kinds.append(self.kind(v, qual))
                elif how == 'elem':
                    k = self.kind(v, qual)
                    kinds.append(k)
                else:
                    # tuple unpack of tokens / split(): source text
                    text = unparse(v)
                    if 'tokens' in text or '.split' in text:
                        kinds.append('RawToken')
                    else:
                        kinds.append(self.kind(v, qual))
            return worst(kinds)
        if isinstance(node, ast.Attribute):
            if isinstance(node.value, ast.Name) and node.value.id in ('args',):
                return 'UserGiven'
            return self.attr_kind(node.attr)
        if isinstance(node, ast.Call):
            d = dotted(node.func)
            if d == 'os.path.join' and node.args:
                first = self.kind(node.args[0], qual)
                if first in ('Dir', 'Resolved'):
                    return 'Resolved'
                return worst([first] + [self.kind(a, qual) for a in node.args[1:]])
            if d in ('list', 'tuple', 'sorted', 'set', 'frozenset', 'reversed') and node.args:
                return self.kind(node.args[0], qual)
            if d in ('os.path.abspath', 'os.path.normpath', 'os.path.realpath', 'str', 'os.fspath'):
                return self.kind(node.args[0], qual) if node.args else 'Unknown'
            if d == 'os.path.dirname' and node.args:
                k = self.kind(node.args[0], qual)
                return 'Dir' if k in ('Resolved', 'UserGiven', 'Dir') else k
            if d == 'os.getcwd':
                return 'Dir'
            if d == 'copy.deepcopy' and node.args:
                return self.kind(node.args[0], qual)
            if isinstance(node.func, ast.Attribute) and node.func.attr in ('strip', 'lower', 'rstrip', 'lstrip', 'format'):
                if node.func.attr == 'format':
                    return worst([self.kind(a, qual) for a in node.args] or ['RawToken'])
                return self.kind(node.func.value, qual)
            # local closure / repo function: kind of its returned expressions
            for callee in self.cg.callees(qual, node):
                cfn = self.cg.funcs[callee]
                rets = [n.value for n in walk_no_nested(cfn) if isinstance(n, ast.Return) and n.value is not None]
                if rets:
                    return worst([self.kind(r, callee) for r in rets])
            if d in self.facts.classes if d else False:
                return 'Unknown'
            return 'Unknown'
        if isinstance(node, ast.BoolOp):
            return worst([self.kind(v, qual) for v in node.values])
        if isinstance(node, ast.IfExp):
            return worst([self.kind(node.body, qual), self.kind(node.orelse, qual)])
        if isinstance(node, ast.List):
            return worst([self.kind(e, qual) for e in node.elts] or ['NoneK'])
        if isinstance(node, ast.BinOp) and isinstance(node.op, ast.Add):
            return worst([self.kind(node.left, qual), self.kind(node.right, qual)])
        if isinstance(node, ast.Subscript):
            text = unparse(node.value)
            if 'tokens' in text:
                return 'RawToken'
            return self.kind(node.value, qual)
        return 'Unknown'

    def sinks(self, quals):
        """[(qual, call node, sink name, path argument)] for filesystem calls in the given functions."""
        out = []
        for q in quals:
            fn = self.cg.funcs[q]
            for n in walk_no_nested(fn):
                if isinstance(n, ast.Call):
                    d = dotted(n.func)
                    if d in ('open', 'os.path.getsize', 'os.path.exists', 'os.path.isdir', 'os.path.isfile', 'os.stat', 'io.open') and n.args:
                        out.append((q, n, d, n.args[0]))
        return out
