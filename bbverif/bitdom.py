"""Bit-provenance abstract interpreter for loop-free bit plumbing (encoders, lookup_register, constraint
closures).  Forward, flow-sensitive, join-at-merge.  No path conditions, no solver, nothing executed.

Abstract values
  int / bool / None / str / list / dict       folded constants
  Param(p)                                     an encoder parameter nobody has looked at yet
  View(src, add, shift, trunc)                 ((cur(src) + add) >> shift) [mod 2**trunc]; cur(src) = orig + cell.delta
  Bits([b0, b1, ...])                          non-negative integer, bit i is 0, 1 or (src, j) = bit j of orig(src)
  CU32(v)                                      ctypes.c_uint32(v) waiting for .value
  Closure (facts)                              a constraint closure

The accepted set of an operand is a partition: list of Cell(lo, hi, delta, m, r): originals in [lo, hi] with
orig % m == r, current value = orig + delta.
"""
import ast
import copy

from .core import AnalysisError
from .astutil import fold, NotConstant, unparse, dotted
from .facts import Closure

INF = 1 << 200


class Unsupported(AnalysisError):
    pass


class Param:
    def __init__(self, name):
        self.name = name

    def __eq__(self, o):
        return isinstance(o, Param) and o.name == self.name

    def __hash__(self):
        return hash(('Param', self.name))

    def __repr__(self):
        return 'Param({})'.format(self.name)


class View:
    __slots__ = ('src', 'add', 'shift', 'trunc')

    def __init__(self, src, add=0, shift=0, trunc=None):
        self.src, self.add, self.shift, self.trunc = src, add, shift, trunc

    def key(self):
        return (self.src, self.add, self.shift, self.trunc)

    def __eq__(self, o):
        return isinstance(o, View) and o.key() == self.key()

    def __hash__(self):
        return hash(self.key())

    def __repr__(self):
        return 'View({}, add={}, shift={}, trunc={})'.format(self.src, self.add, self.shift, self.trunc)


class Bits:
    __slots__ = ('bits',)

    def __init__(self, bits):
        bits = list(bits)
        while bits and bits[-1] == 0:
            bits.pop()
        self.bits = tuple(bits)

    def __eq__(self, o):
        return isinstance(o, Bits) and o.bits == self.bits

    def __hash__(self):
        return hash(self.bits)

    def __repr__(self):
        return 'Bits({})'.format(list(self.bits))

    @staticmethod
    def of_int(n):
        if n < 0:
            raise Unsupported('negative constant used as a bit field: {}'.format(n))
        return Bits([(n >> i) & 1 for i in range(n.bit_length())])

    def range(self):
        lo = sum(1 << i for i, b in enumerate(self.bits) if b == 1)
        hi = sum(1 << i for i, b in enumerate(self.bits) if b != 0)
        return lo, hi

    def is_const(self):
        return all(b in (0, 1) for b in self.bits)

    def const(self):
        return sum(1 << i for i, b in enumerate(self.bits) if b == 1)


class CU32:
    def __init__(self, v):
        self.v = v


class SExt:
    """signed k-bit truncation of the current value of operand `src` (the idiom (x & (2**(k-1) - 1)) - (x & 2**(k-1)))"""

    def __init__(self, src, k):
        self.src, self.k = src, k


class Cell:
    __slots__ = ('lo', 'hi', 'delta', 'm', 'r')

    def __init__(self, lo, hi, delta=0, m=1, r=0):
        self.lo, self.hi, self.delta, self.m, self.r = lo, hi, delta, m, r

    def copy(self):
        return Cell(self.lo, self.hi, self.delta, self.m, self.r)

    def norm(self):
        """Tighten bounds to the congruence; return None if empty."""
        lo, hi = self.lo, self.hi
        if self.m > 1:
            if lo > -INF:
                lo = lo + ((self.r - lo) % self.m)
            if hi < INF:
                hi = hi - ((hi - self.r) % self.m)
        if lo > hi:
            return None
        return Cell(lo, hi, self.delta, self.m, self.r)

    def tup(self):
        return (self.lo, self.hi, self.delta, self.m, self.r)

    def __repr__(self):
        lo = '-inf' if self.lo <= -INF else self.lo
        hi = '+inf' if self.hi >= INF else self.hi
        s = '[{}, {}]'.format(lo, hi)
        if self.m > 1:
            s += ' %{}=={}'.format(self.m, self.r)
        if self.delta:
            s += ' delta{:+d}'.format(self.delta)
        return s


class State:
    def __init__(self):
        self.env = {}
        self.cells = {}      # src -> [Cell]
        self.shift = {}      # src -> committed right shift
        self.imprecise = False

    def clone(self):
        s = State()
        s.env = dict(self.env)
        s.cells = {k: [c.copy() for c in v] for k, v in self.cells.items()}
        s.shift = dict(self.shift)
        s.imprecise = self.imprecise
        return s


TOP = object()


class Interp:
    """One interpreter per binding; collects mask events and refusal sites."""

    def __init__(self, facts):
        self.facts = facts
        self.masks = []       # (src, node, [mask bits], total shift, cells snapshot, fn name)
        self.raises = []      # (node, fn name)
        self.depth = 0
        self.fn_stack = []

    # -- operand sources -------------------------------------------------------------------------
    def as_int_view(self, v, st, node):
        """Use a value as an integer operand."""
        if isinstance(v, Param):
            src = ('imm', v.name)
            if src not in st.cells:
                st.cells[src] = [Cell(-INF, INF)]
                st.shift[src] = 0
            return View(src)
        return v

    # -- expression evaluation ---------------------------------------------------------------------
    def ev(self, node, st):
        if isinstance(node, ast.Constant):
            return node.value
        if isinstance(node, ast.Name):
            if node.id in st.env:
                v = st.env[node.id]
                if v is TOP:
                    raise Unsupported('variable {!r} has different abstract values on joined paths'.format(node.id))
                return v
            if node.id in self.facts.consts:
                return self.facts.consts[node.id]
            if node.id in self.facts.closures:
                return self.facts.closures[node.id]
            if node.id in ('True', 'False', 'None'):
                return {'True': True, 'False': False, 'None': None}[node.id]
            raise Unsupported('unbound name {!r} in {}'.format(node.id, self.fn_stack[-1] if self.fn_stack else '?'))
        if isinstance(node, (ast.List, ast.Tuple)):
            return [self.ev(e, st) for e in node.elts]
        if isinstance(node, ast.UnaryOp):
            v = self.ev(node.operand, st)
            if isinstance(v, (int, bool)):
                return fold(ast.UnaryOp(op=node.op, operand=ast.Constant(value=v)))
            raise Unsupported('unary {} on abstract value'.format(type(node.op).__name__))
        if isinstance(node, ast.BoolOp):
            # only the `cs or []` idiom on folded values
            vals = [self.ev(e, st) for e in node.values]
            if all(isinstance(v, (int, bool, list, type(None), str)) for v in vals):
                if isinstance(node.op, ast.Or):
                    for v in vals:
                        if v:
                            return v
                    return vals[-1]
                for v in vals:
                    if not v:
                        return v
                return vals[-1]
            raise Unsupported('boolean operator on abstract value outside a test')
        if isinstance(node, ast.BinOp):
            return self.binop(node, self.ev(node.left, st), self.ev(node.right, st), st)
        if isinstance(node, ast.IfExp):
            return self.ifexp(node, st)
        if isinstance(node, ast.Call):
            return self.call(node, st)
        if isinstance(node, ast.Attribute):
            base = self.ev(node.value, st)
            if isinstance(base, CU32) and node.attr == 'value':
                return self.trunc32(base.v, st, node)
            raise Unsupported('attribute .{} on abstract value'.format(node.attr))
        if isinstance(node, ast.Subscript):
            base = self.ev(node.value, st)
            idx = self.ev(node.slice, st)
            if isinstance(base, dict) and isinstance(idx, (str, int)):
                if idx not in base:
                    raise Unsupported('key {!r} missing in folded dict'.format(idx))
                return base[idx]
            raise Unsupported('subscript on abstract value: {}'.format(unparse(node)))
        if isinstance(node, ast.Compare):
            raise Unsupported('comparison used as a value: {}'.format(unparse(node)))
        raise Unsupported('expression form {}: {}'.format(type(node).__name__, unparse(node)))

    def trunc32(self, v, st, node):
        if isinstance(v, int):
            return v & 0xffffffff
        v = self.as_int_view(v, st, node)
        if isinstance(v, View):
            if v.trunc is not None:
                return View(v.src, v.add, v.shift, min(v.trunc, 32))
            return View(v.src, v.add, v.shift, 32)
        if isinstance(v, Bits):
            return Bits(v.bits[:32])
        raise Unsupported('c_uint32 of {}'.format(v))

    def ifexp(self, node, st):
        # coercion idiom:  x if type(x) == int else int(x, base=0)
        t = node.test
        if (isinstance(t, ast.Compare) and len(t.ops) == 1 and isinstance(t.ops[0], (ast.Eq, ast.Is))
                and isinstance(t.left, ast.Call) and dotted(t.left.func) == 'type' and len(t.left.args) == 1
                and isinstance(t.comparators[0], ast.Name) and t.comparators[0].id == 'int'
                and isinstance(node.body, ast.Name) and isinstance(t.left.args[0], ast.Name)
                and t.left.args[0].id == node.body.id
                and isinstance(node.orelse, ast.Call) and dotted(node.orelse.func) == 'int'
                and node.orelse.args and isinstance(node.orelse.args[0], ast.Name)
                and node.orelse.args[0].id == node.body.id):
            base = [kw for kw in node.orelse.keywords if kw.arg == 'base']
            if len(node.orelse.args) == 1 and base and self.ev(base[0].value, st) == 0:
                return self.coerce(self.ev(node.body, st), st, node)
        raise Unsupported('conditional expression outside the integer-coercion idiom: {}'.format(unparse(node)))

    def coerce(self, v, st, node):
        """int(x, base=0) for strings / identity for ints: the operand's integer value."""
        if isinstance(v, bool):
            return v
        if isinstance(v, int):
            return v
        if isinstance(v, str):
            try:
                return int(v, 0)
            except ValueError:
                return v
        if isinstance(v, Param):
            return v
        if isinstance(v, (View, Bits)):
            return v
        raise Unsupported('integer coercion of {}'.format(v))

    # -- binary operators ----------------------------------------------------------------------------
    def binop(self, node, a, b, st):
        op = type(node.op)
        if isinstance(a, (int, bool)) and isinstance(b, (int, bool)):
            try:
                return fold(ast.BinOp(left=ast.Constant(value=a), op=node.op, right=ast.Constant(value=b)))
            except NotConstant as e:
                raise Unsupported('cannot fold {}: {}'.format(unparse(node), e))
        a = self.as_int_view(a, st, node)
        b = self.as_int_view(b, st, node)
        if op is ast.Sub and isinstance(a, Bits) and isinstance(b, Bits) and a.bits and b.bits:
            # (x & (2**(k-1) - 1)) - (x & 2**(k-1)): sign extension of the low k bits of one operand
            k = len(b.bits)
            top = b.bits[-1]
            if (isinstance(top, tuple) and top[0] in st.cells and all(x == 0 for x in b.bits[:-1]) and top[1] == k - 1
                    and len(a.bits) <= k - 1 and all(x == (top[0], j) for j, x in enumerate(a.bits))
                    and len(a.bits) == k - 1):
                self.masks = [m for m in self.masks if not (m['src'] == top[0] and m['node'] in (node.left, node.right))]
                return SExt(top[0], k)
        if op in (ast.Add, ast.Sub):
            if isinstance(a, View) and isinstance(b, int) and a.shift == 0 and a.trunc is None:
                return View(a.src, a.add + (b if op is ast.Add else -b), 0, None)
            if op is ast.Add and isinstance(b, View) and isinstance(a, int) and b.shift == 0 and b.trunc is None:
                return View(b.src, b.add + a, 0, None)
            raise Unsupported('arithmetic {} outside operand +/- constant'.format(unparse(node)))
        if op is ast.RShift:
            if not isinstance(b, int) or b < 0:
                raise Unsupported('shift by abstract amount: {}'.format(unparse(node)))
            if isinstance(a, View):
                if a.trunc is not None:
                    return Bits(self.view_to_bits_trunc(a, st, node).bits[b:])
                return View(a.src, a.add, a.shift + b, None)
            if isinstance(a, Bits):
                return Bits(a.bits[b:])
        if op is ast.LShift:
            if isinstance(a, int) and isinstance(b, (View, Bits)):
                raise Unsupported('constant shifted by abstract amount: {}'.format(unparse(node)))
            if not isinstance(b, int) or b < 0 or b > 64:
                raise Unsupported('shift by abstract amount: {}'.format(unparse(node)))
            ab = self.to_bits(a, st, node)
            return Bits([0] * b + list(ab.bits))
        if op is ast.BitAnd:
            if isinstance(b, (View, Bits)) and isinstance(a, int):
                a, b = b, a
            if isinstance(b, int):
                if b < 0:
                    raise Unsupported('negative mask: {}'.format(unparse(node)))
                if isinstance(a, View):
                    return self.mask_view(a, b, st, node)
                if isinstance(a, Bits):
                    return Bits([bit if (b >> i) & 1 else 0 for i, bit in enumerate(a.bits)])
            raise Unsupported('bit-and of two abstract values: {}'.format(unparse(node)))
        if op is ast.BitOr:
            ab, bb = self.to_bits(a, st, node), self.to_bits(b, st, node)
            n = max(len(ab.bits), len(bb.bits))
            out = []
            for i in range(n):
                x = ab.bits[i] if i < len(ab.bits) else 0
                y = bb.bits[i] if i < len(bb.bits) else 0
                if x == 0:
                    out.append(y)
                elif y == 0 or x == y:
                    out.append(x)
                elif x == 1 or y == 1:
                    out.append(1)
                    self.overlaps.append((i, x, y, node))
                else:
                    self.overlaps.append((i, x, y, node))
                    out.append(('overlap', (x, y)))
            return Bits(out)
        if op is ast.Mod:
            return ('mod', a, b)
        raise Unsupported('operator {} on abstract values: {}'.format(op.__name__, unparse(node)))

    overlaps = None

    def view_range(self, v, st):
        """Range of a view's current value (needs shift == 0 unless range is shifted monotonically)."""
        cells = st.cells[v.src]
        sh = st.shift[v.src] + v.shift
        lo = min((c.lo + c.delta for c in cells), default=0)
        hi = max((c.hi + c.delta for c in cells), default=-1)
        if not cells:
            return 0, -1
        if lo <= -INF or hi >= INF:
            return (-INF if lo <= -INF else (lo + v.add) >> sh), (INF if hi >= INF else (hi + v.add) >> sh)
        return (lo + v.add) >> sh, (hi + v.add) >> sh

    def bit_source(self, v, st, top_bit, node):
        """Source whose two's-complement bits 0..top_bit equal those of the view's value before shifting.
        bit i of (orig + delta + add) == bit i of orig for i <= top_bit when (delta + add) % 2**(top_bit+1) == 0;
        otherwise, if every cell carries the same adjustment d, the bits are those of the distinct quantity orig + d."""
        totals = {c.delta + v.add for c in st.cells[v.src]}
        if all(t % (1 << (top_bit + 1)) == 0 for t in totals):
            return v.src
        if len(totals) == 1:
            d = totals.pop()
            return (v.src[0], '{}{:+d}'.format(v.src[1], d))
        raise Unsupported('bits of an operand taken after differing non-aligned adjustments {} at {}'.format(
            sorted(totals), unparse(node)))

    def mask_view(self, v, mask, st, node):
        sh = st.shift[v.src] + v.shift
        nbits = mask.bit_length()
        if v.trunc is not None:
            mask &= (1 << v.trunc) - 1
            nbits = mask.bit_length()
        src = self.bit_source(v, st, nbits - 1 + sh, node) if nbits else v.src
        bits = [((src, i + sh) if (mask >> i) & 1 else 0) for i in range(nbits)]
        self.masks.append({'src': v.src, 'node': node, 'mask': mask, 'shift': sh,
                           'cells': [c.copy() for c in st.cells[v.src]],
                           'fn': self.fn_stack[-1] if self.fn_stack else '?'})
        return Bits(bits)

    def view_to_bits_trunc(self, v, st, node):
        return self.mask_view(View(v.src, v.add, v.shift, None), (1 << v.trunc) - 1, st, node)

    def to_bits(self, v, st, node):
        if isinstance(v, bool):
            v = int(v)
        if isinstance(v, int):
            return Bits.of_int(v)
        if isinstance(v, Bits):
            return v
        v = self.as_int_view(v, st, node)
        if isinstance(v, View):
            if v.trunc is not None:
                return self.view_to_bits_trunc(v, st, node)
            lo, hi = self.view_range(v, st)
            if hi < lo:
                return Bits([])
            if lo < 0 or hi >= INF:
                raise Unsupported('operand with range [{}, {}] placed into a bit field without a mask: {}'.format(
                    '-inf' if lo <= -INF else lo, '+inf' if hi >= INF else hi, unparse(node)))
            w = hi.bit_length()
            sh = st.shift[v.src] + v.shift
            src = self.bit_source(v, st, w - 1 + sh, node) if w else v.src
            return Bits([(src, i + sh) for i in range(w)])
        raise Unsupported('value {} used as bits at {}'.format(v, unparse(node)))

    # -- calls -------------------------------------------------------------------------------------------
    def call(self, node, st):
        fn = dotted(node.func)
        if fn in ('c_uint32', 'ctypes.c_uint32'):
            return CU32(self.ev(node.args[0], st))
        if fn == 'int':
            base = [kw for kw in node.keywords if kw.arg == 'base']
            if len(node.args) == 1 and base and self.ev(base[0].value, st) == 0:
                return self.coerce(self.ev(node.args[0], st), st, node)
            raise Unsupported('int() call outside the base=0 coercion idiom: {}'.format(unparse(node)))
        if isinstance(node.func, ast.Name) and node.func.id in st.env:
            target = st.env[node.func.id]
            if isinstance(target, Closure):
                return self.call_closure(target, node, st)
            raise Unsupported('call of local value {}'.format(node.func.id))
        if isinstance(node.func, ast.Name) and node.func.id in self.facts.funcs:
            fdef = self.facts.funcs[node.func.id]
            args = [self.ev(a, st) for a in node.args]
            kwargs = {}
            for kw in node.keywords:
                if kw.arg is None:
                    raise Unsupported('**kwargs in call {}'.format(unparse(node)))
                kwargs[kw.arg] = self.ev(kw.value, st)
            return self.run_function(fdef, args, kwargs, st)
        raise Unsupported('call of {} ({})'.format(fn, unparse(node)))

    def call_closure(self, clo, node, st):
        fac = self.facts.funcs.get(clo.factory)
        if fac is None:
            raise Unsupported('unknown closure factory {}'.format(clo.factory))
        inner = None
        ret = None
        for s in fac.body:
            if isinstance(s, ast.FunctionDef):
                inner = s
            elif isinstance(s, ast.Return):
                ret = s
        if inner is None or ret is None or not isinstance(ret.value, ast.Name) or ret.value.id != inner.name:
            raise Unsupported('closure factory {} is not of the form def inner…; return inner'.format(clo.factory))
        cenv = {}
        params = [a.arg for a in fac.args.args]
        if len(params) != len(clo.args):
            raise Unsupported('closure factory {} arity'.format(clo.factory))
        cenv.update(zip(params, clo.args))
        kwargs = {}
        for kw in node.keywords:
            if kw.arg is None:
                raise Unsupported('**kwargs when calling constraint')
            kwargs[kw.arg] = self.ev(kw.value, st)
        if node.args:
            raise Unsupported('positional arguments when calling constraint')
        return self.run_function(inner, [], kwargs, st, closure_env=cenv, label='{}<{}>'.format(clo.factory, ','.join(map(str, clo.args))))

    def run_function(self, fdef, args, kwargs, st, closure_env=None, label=None):
        """Inline a repo function: same State object flows through (operand cells are shared)."""
        self.depth += 1
        if self.depth > 6:
            raise Unsupported('inlining depth exceeded at {}'.format(fdef.name))
        a = fdef.args
        saved_env = st.env
        env = dict(closure_env or {})
        pos = [p.arg for p in a.args]
        if len(args) > len(pos):
            raise Unsupported('too many positional arguments for {}'.format(fdef.name))
        for p, v in zip(pos, args):
            env[p] = v
        defaults = dict(zip(pos[len(pos) - len(a.defaults):], a.defaults))
        kwonly = [p.arg for p in a.kwonlyargs]
        kwdefaults = {p: d for p, d in zip(kwonly, a.kw_defaults) if d is not None}
        extra = {}
        for k, v in kwargs.items():
            if k in pos or k in kwonly:
                if k in env and k in pos[:len(args)]:
                    raise Unsupported('{}() got multiple values for {}'.format(fdef.name, k))
                env[k] = v
            elif a.kwarg:
                extra[k] = v
            else:
                raise Unsupported('{}() got unexpected keyword {}'.format(fdef.name, k))
        if a.kwarg:
            env[a.kwarg.arg] = extra
        for p in pos + kwonly:
            if p not in env:
                d = defaults.get(p, kwdefaults.get(p))
                if d is None:
                    raise Unsupported('{}() missing argument {}'.format(fdef.name, p))
                env[p] = fold(d, self.facts.consts)
        st.env = env
        self.fn_stack.append(label or fdef.name)
        result = self.exec_block(fdef.body, st, top=True)
        self.fn_stack.pop()
        self.depth -= 1
        new_state, retval = result
        if new_state is None:
            # every path raised: the caller's state is dead
            st.dead = True
            st.env = saved_env
            return None
        # copy back shared parts
        st.cells, st.shift, st.imprecise = new_state.cells, new_state.shift, new_state.imprecise
        st.env = saved_env
        return retval

    # -- statements ----------------------------------------------------------------------------------------
    def exec_block(self, body, st, top=False):
        """Returns (state or None, return value).  `return` only as the last top-level statement."""
        retval = None
        for i, s in enumerate(body):
            if getattr(st, 'dead', False):
                return None, None
            if isinstance(s, ast.Return):
                if not top or i != len(body) - 1:
                    raise Unsupported('early return in {}'.format(self.fn_stack[-1]))
                retval = self.ev(s.value, st) if s.value is not None else None
                if getattr(st, 'dead', False):
                    return None, None
                return st, retval
            st = self.exec_stmt(s, st)
            if st is None:
                return None, None
        return st, retval

    def exec_stmt(self, s, st):
        if isinstance(s, ast.Expr):
            if isinstance(s.value, ast.Constant):
                return st
            self.ev(s.value, st)
            return None if getattr(st, 'dead', False) else st
        if isinstance(s, ast.Assign):
            if len(s.targets) != 1 or not isinstance(s.targets[0], ast.Name):
                raise Unsupported('assignment form {}'.format(unparse(s)))
            v = self.ev(s.value, st)
            if getattr(st, 'dead', False):
                return None
            self.assign(s.targets[0].id, v, st, s)
            return st
        if isinstance(s, ast.AugAssign):
            if not isinstance(s.target, ast.Name):
                raise Unsupported('augmented assignment form {}'.format(unparse(s)))
            cur = self.ev(ast.Name(id=s.target.id, ctx=ast.Load()), st)
            fake = ast.BinOp(left=s.target, op=s.op, right=s.value)
            ast.copy_location(fake, s)
            v = self.binop(fake, cur, self.ev(s.value, st), st)
            self.assign(s.target.id, v, st, s)
            return st
        if isinstance(s, ast.Raise):
            self.raises.append({'node': s, 'fn': self.fn_stack[-1]})
            return None
        if isinstance(s, ast.If):
            t, f = self.split(s.test, st)
            outs = []
            if t is not None:
                r, _ = self.exec_block(s.body, t)
                if r is not None:
                    outs.append(r)
            if f is not None:
                r, _ = self.exec_block(s.orelse, f) if s.orelse else (f, None)
                if r is not None:
                    outs.append(r)
            if not outs:
                return None
            if len(outs) == 1:
                return outs[0]
            return self.join(outs[0], outs[1])
        if isinstance(s, ast.For):
            it = self.ev(s.iter, st)
            if not isinstance(it, list) or not isinstance(s.target, ast.Name) or s.orelse:
                raise Unsupported('loop outside `for c in <literal list>`: {}'.format(unparse(s).split('\n')[0]))
            for elem in it:
                st.env[s.target.id] = elem
                r, _ = self.exec_block(s.body, st)
                if r is None:
                    return None
                st = r
            return st
        if isinstance(s, ast.Try):
            return self.exec_try(s, st)
        if isinstance(s, ast.Pass):
            return st
        raise Unsupported('statement form {}: {}'.format(type(s).__name__, unparse(s).split('\n')[0]))

    def commit_sext(self, v, st, node):
        """current := signed k-bit truncation of current, cell by cell (each 2**k period becomes its own cell)."""
        if st.shift[v.src]:
            raise Unsupported('sign extension after a shift at {}'.format(unparse(node)))
        P = 1 << v.k
        half = P >> 1
        out = []
        for c in st.cells[v.src]:
            lo_c = c.lo + c.delta if c.lo > -INF else None
            hi_c = c.hi + c.delta if c.hi < INF else None
            if lo_c is None and hi_c is None:
                n_lo, n_hi = -2, 2
            elif lo_c is None:
                n_hi = (hi_c + half) // P
                n_lo = n_hi - 3
            elif hi_c is None:
                n_lo = (lo_c + half) // P
                n_hi = n_lo + 3
            else:
                n_lo, n_hi = (lo_c + half) // P, (hi_c + half) // P
                if n_hi - n_lo > 64:
                    n_hi = n_lo + 64
                    st.imprecise = True
            if lo_c is None or hi_c is None:
                st.imprecise = True          # further periods exist; the enumerated ones are exact
            for n in range(n_lo, n_hi + 1):
                seg_lo = n * P - half - c.delta
                seg_hi = n * P + half - 1 - c.delta
                nc = Cell(max(c.lo, seg_lo), min(c.hi, seg_hi), c.delta - n * P, c.m, c.r)
                if nc.lo <= nc.hi:
                    out.append(nc)
        st.cells[v.src] = [x for x in (y.norm() for y in out) if x is not None]

    def assign(self, name, v, st, node):
        if isinstance(v, SExt):
            for other, ov in st.env.items():
                if other != name and isinstance(ov, View) and ov.src == v.src:
                    raise Unsupported('operand {} sign-extended while aliased by {!r}'.format(v.src, other))
            self.commit_sext(v, st, node)
            st.env[name] = View(v.src)
            return
        if isinstance(v, View) and (v.add != 0 or v.shift != 0) and v.trunc is None:
            # commit the adjustment to the operand's cells; refuse if another live alias would go stale
            for other, ov in st.env.items():
                if other != name and isinstance(ov, View) and ov.src == v.src:
                    raise Unsupported('operand {} adjusted while aliased by {!r}'.format(v.src, other))
            if v.add:
                if st.shift[v.src]:
                    raise Unsupported('additive adjustment after a shift at {}'.format(unparse(node)))
                for c in st.cells[v.src]:
                    c.delta += v.add
            st.shift[v.src] += v.shift
            v = View(v.src)
        st.env[name] = v

    def exec_try(self, s, st):
        # idiom 1: try: x = int(x, base=0) / except: pass       -> coercion
        # idiom 2: try: x = TABLE[x] / except KeyError: raise   -> table lookup
        if len(s.body) == 1 and isinstance(s.body[0], ast.Assign) and len(s.handlers) == 1 and not s.orelse and not s.finalbody:
            a = s.body[0]
            h = s.handlers[0]
            if (isinstance(a.value, ast.Call) and dotted(a.value.func) == 'int' and len(h.body) == 1
                    and isinstance(h.body[0], ast.Pass) and isinstance(a.targets[0], ast.Name)
                    and a.value.args and isinstance(a.value.args[0], ast.Name) and a.value.args[0].id == a.targets[0].id):
                v = self.ev(a.value, st)
                st.env[a.targets[0].id] = v
                return st
            if (isinstance(a.value, ast.Subscript) and isinstance(a.value.value, ast.Name)
                    and a.value.value.id in self.facts.tables and isinstance(a.targets[0], ast.Name)
                    and len(h.body) == 1 and isinstance(h.body[0], ast.Raise)
                    and h.type is not None and dotted(h.type) in ('KeyError', 'LookupError', 'Exception')):
                table = self.facts.tables[a.value.value.id]
                key = self.ev(a.value.slice, st)
                self.raises.append({'node': h.body[0], 'fn': self.fn_stack[-1]})
                if isinstance(key, Param):
                    vals = sorted(set(table.values()))
                    if not vals or not all(isinstance(x, int) for x in vals):
                        raise Unsupported('register table values are not integers')
                    src = ('reg', key.name)
                    cells = []
                    start = prev = vals[0]
                    for x in vals[1:]:
                        if x != prev + 1:
                            cells.append(Cell(start, prev))
                            start = x
                        prev = x
                    cells.append(Cell(start, prev))
                    st.cells[src] = cells
                    st.shift[src] = 0
                    self.reg_tables = getattr(self, 'reg_tables', set()) | {a.value.value.id}
                    st.env[a.targets[0].id] = View(src)
                    return st
                if isinstance(key, (int, str)) and not isinstance(key, bool):
                    if key not in table:
                        return None      # always refused
                    st.env[a.targets[0].id] = table[key]
                    return st
                raise Unsupported('table lookup with key {}'.format(key))
        raise Unsupported('try statement outside the coercion / table-lookup idioms in {}'.format(self.fn_stack[-1]))

    # -- joins -----------------------------------------------------------------------------------------------
    def join(self, a, b):
        out = State()
        out.imprecise = a.imprecise or b.imprecise
        for k in set(a.env) | set(b.env):
            va, vb = a.env.get(k, TOP), b.env.get(k, TOP)
            if isinstance(va, Param) and ('imm', va.name) in a.cells:
                va = View(('imm', va.name))
            if isinstance(vb, Param) and ('imm', vb.name) in b.cells:
                vb = View(('imm', vb.name))
            same = False
            try:
                same = (va is vb) or (type(va) == type(vb) and va == vb)
            except Exception:
                same = False
            out.env[k] = va if same else TOP
        for src in set(a.cells) | set(b.cells):
            if src not in a.cells or src not in b.cells:
                raise Unsupported('operand {} interpreted on one branch only'.format(src))
            if a.shift[src] != b.shift[src]:
                raise Unsupported('operand {} shifted on one branch only'.format(src))
            out.shift[src] = a.shift[src]
            seen = {}
            for c in a.cells[src] + b.cells[src]:
                seen.setdefault(c.tup(), c)
            out.cells[src] = merge_cells(list(seen.values()))
        return out

    # -- refinement by tests -----------------------------------------------------------------------------------
    def split(self, test, st):
        """(state where test holds | None, state where it does not | None)."""
        kind, payload = self.cond(test, st)
        if kind == 'const':
            return (st, None) if payload else (None, st)
        src, pred = payload
        t, f = st.clone(), st.clone()
        tc, fc = [], []
        for c in st.cells[src]:
            yes, no, exact = pred(c)
            tc.extend(yes)
            fc.extend(no)
            if not exact:
                t.imprecise = True
                f.imprecise = True
        t.cells[src] = [c for c in (x.norm() for x in tc) if c is not None]
        f.cells[src] = [c for c in (x.norm() for x in fc) if c is not None]
        return (t if t.cells[src] else None), (f if f.cells[src] else None)

    def cond(self, test, st):
        """('const', bool) or ('pred', (src, cell -> (true cells, false cells, exact)))."""
        if isinstance(test, ast.BoolOp):
            parts = [self.cond(v, st) for v in test.values]
            is_and = isinstance(test.op, ast.And)
            preds = []
            for k, p in parts:
                if k == 'const':
                    if bool(p) != is_and:
                        return 'const', (not is_and)
                else:
                    preds.append(p)
            if not preds:
                return 'const', is_and
            srcs = {p[0] for p in preds}
            if len(srcs) != 1:
                raise Unsupported('one test constrains several operands: {}'.format(unparse(test)))
            src = preds[0][0]

            def pred(cell, preds=preds, is_and=is_and):
                if is_and:
                    yes, no, exact = [cell], [], True
                    for _, p in preds:
                        ny = []
                        for c in yes:
                            y, n, e = p(c)
                            ny.extend(y)
                            no.extend(n)
                            exact = exact and e
                        yes = ny
                    return yes, no, exact
                yes, no, exact = [], [cell], True
                for _, p in preds:
                    nn = []
                    for c in no:
                        y, n, e = p(c)
                        yes.extend(y)
                        nn.extend(n)
                        exact = exact and e
                    no = nn
                return yes, no, exact
            return 'pred', (src, pred)
        if isinstance(test, ast.UnaryOp) and isinstance(test.op, ast.Not):
            k, p = self.cond(test.operand, st)
            if k == 'const':
                return 'const', not p
            src, pr = p

            def pred(cell, pr=pr):
                y, n, e = pr(cell)
                return n, y, e
            return 'pred', (src, pred)
        if isinstance(test, ast.Compare):
            if len(test.ops) == 2 and all(isinstance(o, (ast.Lt, ast.LtE, ast.Gt, ast.GtE)) for o in test.ops):
                # a <= x <= b  ==  a <= x and x <= b
                first = ast.Compare(left=test.left, ops=[test.ops[0]], comparators=[test.comparators[0]])
                second = ast.Compare(left=test.comparators[0], ops=[test.ops[1]], comparators=[test.comparators[1]])
                both = ast.BoolOp(op=ast.And(), values=[first, second])
                return self.cond(ast.copy_location(both, test), st)
            if len(test.ops) != 1:
                raise Unsupported('chained comparison {}'.format(unparse(test)))
            op = test.ops[0]
            a = self.ev(test.left, st)
            b = self.ev(test.comparators[0], st)
            return self.compare(a, op, b, st, test)
        v = self.ev(test, st)
        if isinstance(v, (int, bool, str, list, type(None))):
            return 'const', bool(v)
        raise Unsupported('truth value of abstract {}'.format(unparse(test)))

    def compare(self, a, op, b, st, node):
        consts = (int, bool, str, type(None))
        if isinstance(a, consts) and isinstance(b, consts + (list,)):
            table = {ast.Lt: lambda: a < b, ast.LtE: lambda: a <= b, ast.Gt: lambda: a > b, ast.GtE: lambda: a >= b,
                     ast.Eq: lambda: a == b, ast.NotEq: lambda: a != b, ast.In: lambda: a in b,
                     ast.NotIn: lambda: a not in b, ast.Is: lambda: a is b, ast.IsNot: lambda: a is not b}
            try:
                return 'const', bool(table[type(op)]())
            except (KeyError, TypeError) as e:
                raise Unsupported('cannot fold comparison {}: {}'.format(unparse(node), e))
        # normalise: abstract on the left
        if isinstance(a, (int, bool)) and not isinstance(b, (int, bool, list)):
            flip = {ast.Lt: ast.Gt, ast.LtE: ast.GtE, ast.Gt: ast.Lt, ast.GtE: ast.LtE, ast.Eq: ast.Eq, ast.NotEq: ast.NotEq}
            if type(op) not in flip:
                raise Unsupported('comparison {}'.format(unparse(node)))
            a, b, op = b, a, flip[type(op)]()
        if isinstance(a, tuple) and a and a[0] == 'mod':
            return self.compare_mod(a, op, b, st, node)
        a = self.as_int_view(a, st, node)
        if isinstance(a, Bits):
            if a.is_const():
                return self.compare(a.const(), op, b, st, node)
            if isinstance(b, (int, bool)):
                lo, hi = a.range()
                dec = decide_range(lo, hi, op, b)
                if dec is not None:
                    return 'const', dec
            if (isinstance(op, (ast.Eq, ast.NotEq)) and isinstance(b, int) and b == 0):
                srcs = {x[0] for x in a.bits if isinstance(x, tuple)}
                if len(srcs) == 1 and all(x == 0 or isinstance(x, tuple) for x in a.bits):
                    # (operand & single-bit-mask) compared with 0
                    positions = [x[1] for x in a.bits if isinstance(x, tuple)]
                    src = srcs.pop()
                    if len(positions) == 1:
                        want_zero = isinstance(op, ast.Eq)
                        return 'pred', (src, bit_pred(positions[0], want_zero, st))
            srcs = {x[0] for x in a.bits if isinstance(x, tuple)}
            srcs = {x for x in srcs if x in st.cells}
            if len(srcs) == 1 and isinstance(b, (int, bool)):
                # outcome depends on operand bits already extracted: both outcomes stay possible for every accepted
                # value (sound over-approximation of the accepted set); the state is marked imprecise
                return 'pred', (srcs.pop(), lambda cell: ([cell.copy()], [cell.copy()], False))
            raise Unsupported('comparison of a bit field with undecidable outcome: {}'.format(unparse(node)))
        if not isinstance(a, View):
            raise Unsupported('comparison {}'.format(unparse(node)))
        if a.shift or st.shift[a.src] or a.trunc is not None:
            raise Unsupported('comparison after shift/truncation: {}'.format(unparse(node)))
        if isinstance(op, (ast.In, ast.NotIn)):
            if not isinstance(b, list) or not all(isinstance(x, (int, bool)) for x in b):
                raise Unsupported('membership in non-literal list: {}'.format(unparse(node)))
            pts = sorted(set(int(x) for x in b))
            return 'pred', (a.src, points_pred(pts, a.add, isinstance(op, ast.In)))
        if not isinstance(b, (int, bool)):
            raise Unsupported('comparison between two abstract values: {}'.format(unparse(node)))
        b = int(b)
        return 'pred', (a.src, cmp_pred(type(op), b, a.add, node))

    def compare_mod(self, a, op, b, st, node):
        _, x, k = a
        x = self.as_int_view(x, st, node)
        if not (isinstance(x, View) and isinstance(k, int) and k > 0 and isinstance(b, int) and 0 <= b < k
                and isinstance(op, (ast.Eq, ast.NotEq))):
            raise Unsupported('modulo test form {}'.format(unparse(node)))
        if x.shift or st.shift[x.src] or x.trunc is not None:
            raise Unsupported('modulo test after shift: {}'.format(unparse(node)))
        return 'pred', (x.src, mod_pred(k, b, x.add, isinstance(op, ast.Eq)))


def decide_range(lo, hi, op, b):
    t = type(op)
    if t is ast.Lt:
        return True if hi < b else (False if lo >= b else None)
    if t is ast.LtE:
        return True if hi <= b else (False if lo > b else None)
    if t is ast.Gt:
        return True if lo > b else (False if hi <= b else None)
    if t is ast.GtE:
        return True if lo >= b else (False if hi < b else None)
    if t is ast.Eq:
        return False if (b < lo or b > hi) else (True if lo == hi == b else None)
    if t is ast.NotEq:
        return True if (b < lo or b > hi) else (False if lo == hi == b else None)
    return None


def sub(cell, lo, hi):
    c = Cell(max(cell.lo, lo), min(cell.hi, hi), cell.delta, cell.m, cell.r)
    return [c] if c.lo <= c.hi else []


def cmp_pred(opt, b, add, node):
    def pred(cell):
        # current = orig + delta + add ;  current OP b
        t = b - cell.delta - add        # orig OP t
        if opt is ast.Lt:
            return sub(cell, -INF, t - 1), sub(cell, t, INF), True
        if opt is ast.LtE:
            return sub(cell, -INF, t), sub(cell, t + 1, INF), True
        if opt is ast.Gt:
            return sub(cell, t + 1, INF), sub(cell, -INF, t), True
        if opt is ast.GtE:
            return sub(cell, t, INF), sub(cell, -INF, t - 1), True
        if opt is ast.Eq:
            return sub(cell, t, t), sub(cell, -INF, t - 1) + sub(cell, t + 1, INF), True
        if opt is ast.NotEq:
            return sub(cell, -INF, t - 1) + sub(cell, t + 1, INF), sub(cell, t, t), True
        raise Unsupported('comparison operator {} at {}'.format(opt.__name__, unparse(node)))
    return pred


def points_pred(pts, add, positive):
    def pred(cell):
        inside, outside = [], []
        cur = cell.lo
        for p in pts:
            t = p - cell.delta - add
            if t < cell.lo or t > cell.hi:
                continue
            inside.extend(sub(cell, t, t))
            outside.extend(sub(cell, cur, t - 1))
            cur = t + 1
        outside.extend(sub(cell, cur, cell.hi))
        return (inside, outside, True) if positive else (outside, inside, True)
    return pred


def mod_pred(k, b, add, positive):
    def pred(cell):
        # (orig + delta + add) % k == b   <=>   orig % k == (b - delta - add) % k
        r = (b - cell.delta - add) % k
        if cell.m == 1:
            eq = [Cell(cell.lo, cell.hi, cell.delta, k, r)]
        elif cell.m % k == 0:
            eq = [cell.copy()] if cell.r % k == r else []
        elif k % cell.m == 0:
            eq = [Cell(cell.lo, cell.hi, cell.delta, k, r)] if r % cell.m == cell.r else []
        else:
            raise Unsupported('combination of congruences mod {} and mod {}'.format(cell.m, k))
        # complement
        exact = True
        if cell.m == 1 and k == 2:
            ne = [Cell(cell.lo, cell.hi, cell.delta, 2, 1 - r)]
        elif cell.m == 1:
            ne = [Cell(cell.lo, cell.hi, cell.delta, k, rr) for rr in range(k) if rr != r] if k <= 64 else [cell.copy()]
            exact = k <= 64
        else:
            if eq and eq[0].tup() == cell.tup():
                ne = []
            elif not eq:
                ne = [cell.copy()]
            else:
                ratio = k // cell.m
                if ratio <= 64:
                    ne = [Cell(cell.lo, cell.hi, cell.delta, k, rr) for rr in range(cell.r, k, cell.m) if rr != r]
                else:
                    ne, exact = [cell.copy()], False
        return (eq, ne, exact) if positive else (ne, eq, exact)
    return pred


def bit_pred(bit, want_zero, st):
    def pred(cell):
        if cell.lo <= -INF or cell.hi >= INF:
            raise Unsupported('bit test on an unbounded operand')
        period = 1 << (bit + 1)
        half = 1 << bit
        if (cell.hi - cell.lo) // period > 4096:
            raise Unsupported('bit test over too wide an operand range')
        if cell.delta % period != 0:
            raise Unsupported('bit test after a non-aligned adjustment')
        zero, one = [], []
        base = (cell.lo // period) * period
        while base <= cell.hi:
            zero.extend(sub(cell, base, base + half - 1))
            one.extend(sub(cell, base + half, base + period - 1))
            base += period
        return (zero, one, True) if want_zero else (one, zero, True)
    return pred


def merge_cells(cells):
    cells = [c for c in (x.norm() for x in cells) if c is not None]
    cells.sort(key=lambda c: (c.delta, c.m, c.r, c.lo))
    out = []
    for c in cells:
        if out:
            p = out[-1]
            if (p.delta, p.m, p.r) == (c.delta, c.m, c.r) and c.lo <= p.hi + p.m:
                p.hi = max(p.hi, c.hi)
                continue
        out.append(c.copy())
    out.sort(key=lambda c: c.lo)
    return out


# ---------------------------------------------------------------------------------------------------------------
class Summary:
    """Closed form of one mnemonic binding: operand list, accepted sets, bit layout."""

    def __init__(self, name, encoder, params, state, result, interp):
        self.name = name
        self.encoder = encoder
        self.params = params              # positional parameters still open, in order
        self.operands = {}                # param -> {'kind', 'src', 'cells', 'shift'}
        for src, cells in (state.cells.items() if state is not None else []):
            kind, p = src
            self.operands.setdefault(p, []).append({'kind': kind, 'src': src, 'cells': merge_cells(cells),
                                                    'shift': state.shift[src]})
        self.always_refused = state is None
        self.bits = result.bits if isinstance(result, Bits) else (Bits.of_int(result).bits if isinstance(result, int) else None)
        self.result = result
        self.masks = interp.masks
        self.raises = interp.raises
        self.overlaps = interp.overlaps
        self.imprecise = state.imprecise if state is not None else False

    def const_mask_match(self, width):
        mask = match = 0
        for i in range(width):
            b = self.bits[i] if i < len(self.bits) else 0
            if b in (0, 1):
                mask |= 1 << i
                match |= b << i
        return mask, match

    def field_map(self):
        """{src: {operand bit j: [output positions]}}"""
        out = {}
        for i, b in enumerate(self.bits):
            if isinstance(b, tuple) and b[0] != 'overlap':
                out.setdefault(b[0], {}).setdefault(b[1], []).append(i)
        return out

    def accepted(self, param):
        infos = self.operands.get(param, [])
        return infos

    def describe(self):
        d = {'mnemonic': self.name, 'encoder': self.encoder, 'params': self.params, 'operands': {}}
        for p, infos in self.operands.items():
            d['operands'][p] = [{'kind': i['kind'], 'accepted': [repr(c) for c in i['cells']], 'shift': i['shift']} for i in infos]
        fm = self.field_map()
        d['layout'] = {'{}:{}'.format(*src): {str(j): pos for j, pos in sorted(m.items())} for src, m in fm.items()}
        return d


def summarise_binding(facts, mnemonic, binding_name=None):
    """Abstractly interpret the encoder bound to `mnemonic` under its partial constants."""
    part = facts.partials[binding_name] if binding_name else facts.binding(mnemonic)
    fdef = facts.funcs.get(part.func)
    if fdef is None:
        raise AnalysisError('encoder {} of {} not found'.format(part.func, mnemonic))
    interp = Interp(facts)
    interp.overlaps = []
    st = State()
    pos = [a.arg for a in fdef.args.args]
    open_params = [p for p in pos if p not in part.kwargs]
    kwargs = dict(part.kwargs)
    for p in open_params:
        kwargs[p] = Param(p)
    # optional keyword-only parameters (aq, rl) stay open operands as well
    for a, d in zip(fdef.args.kwonlyargs, fdef.args.kw_defaults):
        if a.arg not in kwargs and d is not None and a.arg != 'cs':
            kwargs[a.arg] = Param(a.arg)
            open_params.append(a.arg)
    try:
        result = interp.run_function(fdef, [], kwargs, st)
    except Unsupported as e:
        raise AnalysisError('{} ({} via {}): construct outside the abstract domain: {}'.format(
            mnemonic, part.name, part.func, e))
    dead = getattr(st, 'dead', False)
    return Summary(mnemonic, part.func, open_params, None if dead else st, result if not dead else 0, interp)
