"""Small AST helpers: constant folding, lookups, parent chains."""
import ast
import operator

from .core import AnalysisError

_BINOPS = {
    ast.Add: operator.add, ast.Sub: operator.sub, ast.Mult: operator.mul, ast.FloorDiv: operator.floordiv,
    ast.Mod: operator.mod, ast.Pow: operator.pow, ast.LShift: operator.lshift, ast.RShift: operator.rshift,
    ast.BitOr: operator.or_, ast.BitAnd: operator.and_, ast.BitXor: operator.xor,
}
_UNOPS = {ast.USub: operator.neg, ast.UAdd: operator.pos, ast.Invert: operator.invert, ast.Not: operator.not_}


class NotConstant(Exception):
    pass


def fold(node, env=None):
    """Fold a literal expression to a Python value (int, str, bytes, bool, None, list, tuple, dict, set).
    ``env`` maps names to already folded values.  Raises NotConstant otherwise.  Only literal arithmetic is
    evaluated; no repository function is ever called."""
    env = env or {}
    if isinstance(node, ast.Constant):
        return node.value
    if isinstance(node, ast.Name):
        if node.id in env:
            return env[node.id]
        if node.id in ('True', 'False', 'None'):
            return {'True': True, 'False': False, 'None': None}[node.id]
        raise NotConstant(node.id)
    if isinstance(node, ast.BinOp) and type(node.op) in _BINOPS:
        a, b = fold(node.left, env), fold(node.right, env)
        if isinstance(node.op, ast.Pow) and (not isinstance(b, int) or b < 0 or b > 256):
            raise NotConstant('pow')
        if isinstance(node.op, ast.LShift) and (not isinstance(b, int) or b > 4096):
            raise NotConstant('shift')
        try:
            return _BINOPS[type(node.op)](a, b)
        except Exception as e:
            raise NotConstant(str(e))
    if isinstance(node, ast.UnaryOp) and type(node.op) in _UNOPS:
        return _UNOPS[type(node.op)](fold(node.operand, env))
    if isinstance(node, (ast.List, ast.Tuple)):
        vals = [fold(e, env) for e in node.elts]
        return vals if isinstance(node, ast.List) else tuple(vals)
    if isinstance(node, ast.Set):
        return set(fold(e, env) for e in node.elts)
    if isinstance(node, ast.Dict):
        out = {}
        for k, v in zip(node.keys, node.values):
            if k is None:
                raise NotConstant('dict unpack')
            out[fold(k, env)] = fold(v, env)
        return out
    if isinstance(node, ast.Subscript):
        base = fold(node.value, env)
        try:
            if isinstance(node.slice, ast.Slice):
                sl = node.slice
                return base[slice(fold(sl.lower, env) if sl.lower else None, fold(sl.upper, env) if sl.upper else None,
                                  fold(sl.step, env) if sl.step else None)]
            return base[fold(node.slice, env)]
        except NotConstant:
            raise
        except Exception as e:
            raise NotConstant(str(e))
    if isinstance(node, ast.Compare):
        left = fold(node.left, env)
        for op, comp in zip(node.ops, node.comparators):
            right = fold(comp, env)
            f = _CMPOPS.get(type(op))
            if f is None:
                raise NotConstant('compare')
            try:
                if not f(left, right):
                    return False
            except Exception as e:
                raise NotConstant(str(e))
            left = right
        return True
    if isinstance(node, ast.BoolOp):
        val = None
        for v in node.values:
            val = fold(v, env)
            if isinstance(node.op, ast.And) and not val:
                return val
            if isinstance(node.op, ast.Or) and val:
                return val
        return val
    if isinstance(node, ast.IfExp):
        return fold(node.body if fold(node.test, env) else node.orelse, env)
    if isinstance(node, (ast.ListComp, ast.SetComp, ast.DictComp, ast.GeneratorExp)):
        rows = [dict(env)]
        for g in node.generators:
            nxt = []
            for e2 in rows:
                it = fold(g.iter, e2)
                try:
                    it = list(it.items()) if False else list(it)
                except TypeError:
                    raise NotConstant('iter')
                if len(it) * max(1, len(rows)) > 8192:
                    raise NotConstant('comprehension too large')
                for elem in it:
                    e3 = dict(e2)
                    _bind(g.target, elem, e3)
                    if all(fold(c, e3) for c in g.ifs):
                        nxt.append(e3)
            rows = nxt
        if isinstance(node, ast.DictComp):
            return {fold(node.key, e2): fold(node.value, e2) for e2 in rows}
        vals = [fold(node.elt, e2) for e2 in rows]
        return set(vals) if isinstance(node, ast.SetComp) else vals
    if isinstance(node, ast.Call) and not any(k.arg is None for k in node.keywords):
        name = dotted(node.func)
        args = None
        if name in _PURE_CALLS and not node.keywords:
            args = [fold(a, env) for a in node.args]
            try:
                return _PURE_CALLS[name](*args)
            except NotConstant:
                raise
            except Exception as e:
                raise NotConstant(str(e))
        if isinstance(node.func, ast.Attribute) and node.func.attr in _PURE_METHODS and not node.keywords:
            recv = fold(node.func.value, env)
            ok_types = _PURE_METHODS[node.func.attr]
            if isinstance(recv, ok_types):
                args = [fold(a, env) for a in node.args]
                try:
                    r = getattr(recv, node.func.attr)(*args)
                except Exception as e:
                    raise NotConstant(str(e))
                if node.func.attr in ('items', 'keys', 'values'):
                    r = list(r)
                return r
    raise NotConstant(type(node).__name__)


def _bind(target, value, env):
    if isinstance(target, ast.Name):
        env[target.id] = value
    elif isinstance(target, (ast.Tuple, ast.List)):
        try:
            vals = list(value)
        except TypeError:
            raise NotConstant('unpack')
        if len(vals) != len(target.elts) or any(isinstance(e, ast.Starred) for e in target.elts):
            raise NotConstant('unpack')
        for t, v in zip(target.elts, vals):
            _bind(t, v, env)
    else:
        raise NotConstant('target')


_STRUCT_STD = {'x': 1, 'c': 1, 'b': 1, 'B': 1, '?': 1, 'h': 2, 'H': 2, 'i': 4, 'I': 4, 'l': 4, 'L': 4, 'q': 8, 'Q': 8, 'e': 2, 'f': 4, 'd': 8}


def _calcsize(fmt):
    """struct.calcsize for formats with an explicit standard-size byte order (no native alignment involved)."""
    if not isinstance(fmt, str) or not fmt or fmt[0] not in '<>=!':
        raise NotConstant('native struct format')
    total, n = 0, ''
    for ch in fmt[1:]:
        if ch.isdigit():
            n += ch
            continue
        if ch.isspace():
            continue
        cnt = int(n) if n else 1
        n = ''
        if ch in 'sp':
            total += cnt
        elif ch in _STRUCT_STD:
            total += cnt * _STRUCT_STD[ch]
        else:
            raise NotConstant('struct code ' + ch)
    if n:
        raise NotConstant('struct format')
    return total


def _range(*a):
    r = range(*a)
    if len(r) > 8192:
        raise NotConstant('range too large')
    return list(r)


_PURE_CALLS = {'len': len, 'min': min, 'max': max, 'sum': sum, 'sorted': sorted, 'set': set, 'frozenset': frozenset, 'list': list,
               'tuple': tuple, 'dict': dict, 'abs': abs, 'bool': bool, 'ord': ord, 'chr': chr, 'range': _range, 'struct.calcsize': _calcsize,
               'reversed': lambda x: list(reversed(x)), 'enumerate': lambda x, start=0: list(enumerate(x, start)),
               'zip': lambda *x: list(zip(*x)), 'int': lambda *a: _only(int(*a), a), 'str': lambda x: _only(str(x), (x,)),
               'divmod': divmod, 'pow': lambda a, b: a ** b if isinstance(b, int) and 0 <= b <= 256 else _raise()}
_PURE_METHODS = {'lower': (str,), 'upper': (str,), 'strip': (str,), 'lstrip': (str,), 'rstrip': (str,), 'split': (str,), 'join': (str,),
                 'startswith': (str,), 'endswith': (str,), 'replace': (str,), 'items': (dict,), 'keys': (dict,), 'values': (dict,),
                 'get': (dict,), 'union': (set, frozenset), 'intersection': (set, frozenset), 'difference': (set, frozenset),
                 'copy': (dict, set, list), 'index': (list, tuple, str), 'count': (list, tuple, str), 'bit_length': (int,),
                 'encode': (str,), 'decode': (bytes,), 'format': (str,), 'zfill': (str,)}
_CMPOPS = {ast.Eq: lambda a, b: a == b, ast.NotEq: lambda a, b: a != b, ast.Lt: lambda a, b: a < b, ast.LtE: lambda a, b: a <= b,
           ast.Gt: lambda a, b: a > b, ast.GtE: lambda a, b: a >= b, ast.In: lambda a, b: a in b, ast.NotIn: lambda a, b: a not in b,
           ast.Is: lambda a, b: a is b, ast.IsNot: lambda a, b: a is not b}


def _only(v, args):
    if any(not isinstance(a, (int, str, bytes)) or isinstance(a, bool) and False for a in args):
        raise NotConstant('conversion')
    return v


def _raise():
    raise NotConstant('pow')


def try_fold(node, env=None, default=None):
    try:
        return fold(node, env)
    except NotConstant:
        return default


def parents(node):
    p = getattr(node, '_parent', None)
    while p is not None:
        yield p
        p = getattr(p, '_parent', None)


def enclosing_function(node):
    for p in parents(node):
        if isinstance(p, (ast.FunctionDef, ast.AsyncFunctionDef, ast.Lambda)):
            return p
    return None


def qualname(node):
    """Qualified name of the def/class enclosing ``node`` (inclusive)."""
    parts = []
    cur = node
    while cur is not None:
        if isinstance(cur, (ast.FunctionDef, ast.ClassDef, ast.AsyncFunctionDef)):
            parts.append(cur.name)
        cur = getattr(cur, '_parent', None)
    return '.'.join(reversed(parts)) or '<module>'


def call_name(call):
    """Dotted name of the callee of a Call node, or None."""
    return dotted(call.func) if isinstance(call, ast.Call) else None


def dotted(node):
    if isinstance(node, ast.Name):
        return node.id
    if isinstance(node, ast.Attribute):
        base = dotted(node.value)
        return None if base is None else base + '.' + node.attr
    return None


def find_function(tree, name, required=True):
    """Top-level (or nested, dotted) function definition."""
    parts = name.split('.')
    scope = tree.body
    node = None
    for part in parts:
        node = None
        for st in scope:
            if isinstance(st, (ast.FunctionDef, ast.ClassDef)) and st.name == part:
                node = st
                break
        if node is None:
            if required:
                raise AnalysisError('anchor vanished: function/class {!r} not found'.format(name))
            return None
        scope = node.body
    return node


def walk_no_nested(node):
    """ast.walk that does not descend into nested function / class definitions (the root may be one)."""
    todo = list(ast.iter_child_nodes(node))
    while todo:
        n = todo.pop()
        yield n
        if isinstance(n, (ast.FunctionDef, ast.AsyncFunctionDef, ast.ClassDef, ast.Lambda)):
            continue
        todo.extend(ast.iter_child_nodes(n))


def stmts_in_order(body):
    """All statements nested inside a body, in source order (not entering nested defs)."""
    for st in body:
        yield st
        if isinstance(st, (ast.FunctionDef, ast.AsyncFunctionDef, ast.ClassDef)):
            continue
        for field in ('body', 'orelse', 'finalbody'):
            sub = getattr(st, field, None)
            if sub:
                yield from stmts_in_order(sub)
        if isinstance(st, ast.Try):
            for h in st.handlers:
                yield from stmts_in_order(h.body)


def unparse(node):
    try:
        return ast.unparse(node)
    except Exception:
        return ast.dump(node)
