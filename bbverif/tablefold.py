"""Module-level tables that are completed after their literal: `T = {...}` followed by `T[k] = v`, `T.update({...})`,
`S.add(x)`, `S |= {...}`, a registration loop ...

One mechanism: the program model (`facts._module_stmt`) folds every module-level statement that modifies a table with constant
operands - in source order, loops over literal sequences unrolled - into facts.tables / facts.sets / facts.consts, and *poisons* a
name that is modified in a way it does not fold (computed operands, `while`, rebinding to something unknown): any lookup of a
poisoned name raises AnalysisError (facts.GuardedDict).  Writes from inside functions are recorded in facts.function_written.

A rule that compares such a table with a reference must see the *final* content - or know that it cannot: `settle(facts, name)`
is that question.  It raises AnalysisError when the content is not known (poisoned), or - unless the caller only judges the table
as it stands after the module-level statements - when a function of the module writes it (a registration helper called at import
time, a cache filled while running).
"""
from .core import AnalysisError


def settle(facts, name, runtime_writes_matter=True):
    why = facts.poison.get(name)
    if why is not None:
        raise AnalysisError('module-level name {} is built in a way the program model does not follow ({}): its final content is not '
                            'known'.format(name, why))
    if runtime_writes_matter:
        facts.require_static(name)
