"""Calls (interprocedural inlining, builtins, str / dict methods) and register-table lookups of the bit-provenance interpreter."""
import ast

from .astutil import unparse, dotted
from .bitcells import (Unsupported, Param, View, Bits, CU32, ModVal, Maybe, TableVal, Opaque, FuncValue, TOP, PCell, INF,
                       Record, RecordType, ClassValue, Obj, BoundMethod, TableRef, LetterTerms, PartialValue)
from .bitexpr import CONSTS, STR_METHODS, is_pow2, norm_const

MAX_DEPTH = 12


class CallMixin:
    # -- argument evaluation --------------------------------------------------------------------------------
    def eval_args(self, node, st):
        args, kwargs = [], {}
        for a in node.args:
            if isinstance(a, ast.Starred):
                v = self.ev(a.value, st)
                if not isinstance(v, list):
                    raise Unsupported('*args of a value that is not a folded sequence: {}'.format(unparse(node)))
                args.extend(v)
            else:
                args.append(self.ev(a, st))
            if st.dead:
                return None, None
        for kw in node.keywords:
            v = self.ev(kw.value, st)
            if st.dead:
                return None, None
            if kw.arg is None:
                if not isinstance(v, dict) or not all(isinstance(k, str) for k in v):
                    raise Unsupported('**kwargs of a value that is not a folded dict: {}'.format(unparse(node)))
                for k, x in v.items():
                    if k in kwargs:
                        raise Unsupported('keyword {} given twice in {}'.format(k, unparse(node)))
                    kwargs[k] = x
            else:
                kwargs[kw.arg] = v
        return args, kwargs

    def shadowed(self, name, st):
        return name in st.env or self.model.bind_count.get(name, 0) > 0 and name not in ('c_uint32',)

    def call(self, node, st):
        f = node.func
        fn = dotted(f)
        if fn in ('c_uint32', 'ctypes.c_uint32') and not (isinstance(f, ast.Name) and f.id in st.env):
            if len(node.args) != 1 or node.keywords:
                raise Unsupported('c_uint32 call form {}'.format(unparse(node)))
            return CU32(self.ev(node.args[0], st))
        if fn in ('partial', 'functools.partial') and not (isinstance(f, ast.Name) and f.id in st.env) \
                and self.imported_from(fn.split('.')[0], 'functools'):
            args, kwargs = self.eval_args(node, st)
            if st.dead:
                return None
            if len(args) != 1 or not isinstance(args[0], (FuncValue, PartialValue)):
                raise Unsupported('partial() of something that is not a function of the module, or with positional arguments: {}'.format(unparse(node)))
            if isinstance(args[0], PartialValue):
                merged = dict(args[0].kwargs)
                merged.update(kwargs)
                return PartialValue(args[0].func, merged)
            return PartialValue(args[0], kwargs)
        if fn in ('reduce', 'functools.reduce') and not (isinstance(f, ast.Name) and f.id in st.env) \
                and self.imported_from(fn.split('.')[0], 'functools'):
            return self.reduce_call(node, st)
        if fn in ('namedtuple', 'collections.namedtuple') and not (isinstance(f, ast.Name) and f.id in st.env):
            return self.namedtuple_call(node, st)
        if isinstance(f, ast.Name) and not self.shadowed(f.id, st) and f.id != 'super':
            return self.builtin(f.id, node, st)
        if isinstance(f, ast.Attribute):
            if self.is_noeffect_call(f, st):
                return None
            base = self.ev(f.value, st)
            if st.dead:
                return None
            if isinstance(base, TableRef):
                return self.table_method(base.name, f.attr, node, st)
            if isinstance(base, int) and not isinstance(base, bool) and f.attr == 'bit_length' and not node.args and not node.keywords:
                return base.bit_length()
            if isinstance(base, Obj) or type(base).__name__ == 'Super':
                target = self.get_attr(base, f.attr, st, node)
                if st.dead:
                    return None
                args, kwargs = self.eval_args(node, st)
                if st.dead:
                    return None
                if isinstance(target, FuncValue):
                    return self.run_function(target, args, kwargs, st)
                return self.call_object(target, args, kwargs, st, node)
            if isinstance(base, dict) and f.attr in ('update', 'setdefault', 'pop') and isinstance(f.value, ast.Name) \
                    and f.value.id in st.env:
                return self.local_dict_update(f.value.id, base, f.attr, node, st)
            return self.method(base, f.attr, node, st)
        if isinstance(f, ast.Name) and f.id == 'super' and f.id not in st.env and not self.model.bind_count.get('super'):
            return self.super_value(node, st)
        callee = self.ev(f, st)
        if isinstance(callee, PartialValue):
            args, kwargs = self.eval_args(node, st)
            if st.dead:
                return None
            return self.call_value(callee, args, kwargs, st, node)
        if isinstance(callee, (ClassValue, BoundMethod, Obj)):
            args, kwargs = self.eval_args(node, st)
            if st.dead:
                return None
            return self.call_object(callee, args, kwargs, st, node)
        if isinstance(callee, RecordType):
            args, kwargs = self.eval_args(node, st)
            if st.dead:
                return None
            if len(args) > len(callee.fields):
                raise Unsupported('too many arguments for record {}'.format(callee.name))
            vals = dict(zip(callee.fields, args))
            for k, v in kwargs.items():
                if k not in callee.fields or k in vals:
                    raise Unsupported('bad keyword {} for record {}'.format(k, callee.name))
                vals[k] = v
            for fld in callee.fields:
                if fld not in vals:
                    if fld not in callee.defaults:
                        raise Unsupported('record {} misses field {}'.format(callee.name, fld))
                    vals[fld] = callee.defaults[fld]
            return Record(callee, vals)
        if isinstance(callee, FuncValue):
            args, kwargs = self.eval_args(node, st)
            if st.dead:
                return None
            return self.run_function(callee, args, kwargs, st, node)
        raise Unsupported('call of {} ({})'.format(fn or type(callee).__name__, unparse(node)))

    def namedtuple_call(self, node, st):
        args, kwargs = self.eval_args(node, st)
        if len(args) != 2 or not isinstance(args[0], str) or set(kwargs) - {'defaults'}:
            raise Unsupported('namedtuple call form {}'.format(unparse(node)))
        names = args[1].replace(',', ' ').split() if isinstance(args[1], str) else args[1]
        if not isinstance(names, list) or not all(isinstance(x, str) and x.isidentifier() for x in names):
            raise Unsupported('namedtuple field names {}'.format(unparse(node)))
        defaults = {}
        if 'defaults' in kwargs:
            dv = kwargs['defaults']
            if not isinstance(dv, list) or len(dv) > len(names) or not all(self.is_static(x) for x in dv):
                raise Unsupported('namedtuple defaults {}'.format(unparse(node)))
            defaults = dict(zip(names[len(names) - len(dv):], dv))
        return RecordType(args[0], names, defaults, True)

    # -- builtins ----------------------------------------------------------------------------------------------
    def builtin(self, name, node, st):
        if name == 'int':
            v, status = self.int_call(node, st, None)
            if status == 'dead':
                self.raises.append({'node': node, 'fn': self.chain()})
                st.dead = True
                return None
            return v
        args, kwargs = self.eval_args(node, st)
        if st.dead:
            return None
        args = [self.plain(a) for a in args]
        if name in ('list', 'tuple', 'sorted') and len(args) == 1 and isinstance(args[0], range) and len(args[0]) <= 4096:
            args = [list(args[0])]
        if name in ('list', 'tuple', 'sorted', 'len') and len(args) == 1 and isinstance(args[0], dict):
            args = [list(args[0].keys())]
        if name == 'divmod' and len(args) == 2 and not kwargs:
            a, b = args
            if isinstance(a, int) and isinstance(b, int) and b != 0:
                return list(divmod(a, b))
            if is_pow2(b):
                k = b.bit_length() - 1
                q = self.binop_shift(node, self.as_int_view(a, st, node), k, st, right=True)
                a2 = self.as_int_view(a, st, node)
                r = a2.derive(a2.bits[:k]) if isinstance(a2, Bits) else self.mask_view(a2, b - 1, st, node)
                return [q, r]
            raise Unsupported('divmod by something that is not a constant power of two: {}'.format(unparse(node)))
        if name in ('min', 'max', 'abs', 'len', 'bool', 'sorted') and not kwargs:
            flat = args[0] if len(args) == 1 and isinstance(args[0], list) and name in ('min', 'max', 'sorted', 'len') else args
            if name == 'len' and len(args) == 1 and isinstance(args[0], (list, dict, str)):
                return len(args[0])
            if name in ('min', 'max') and flat and all(isinstance(x, int) for x in flat):
                return min(flat) if name == 'min' else max(flat)
            if name == 'sorted' and all(isinstance(x, int) for x in flat):
                return sorted(flat)
            if name == 'abs' and len(args) == 1 and isinstance(args[0], int):
                return abs(args[0])
            if name == 'bool' and len(args) == 1 and self.py_truth(args[0]) is not None:
                return self.py_truth(args[0])
        if name in ('set', 'frozenset', 'sorted', 'list', 'tuple') and len(args) == 1 and not kwargs and self.spelling_of(args[0]) is not None:
            base, distinct = self.spelling_of(args[0])
            return Opaque(('letterseq', base, distinct or name in ('set', 'frozenset')))
        if name == 'sum' and len(args) == 1 and not kwargs and isinstance(args[0], LetterTerms):
            return self.letter_value(args[0], 'sum', node)
        if name in ('all', 'any') and len(args) == 1 and not kwargs and isinstance(args[0], list) \
                and all(self.py_truth(x) is not None for x in args[0]):
            vals = [self.py_truth(x) for x in args[0]]
            return all(vals) if name == 'all' else any(vals)
        if name == 'sum' and 1 <= len(args) <= 2 and not kwargs and isinstance(args[0], list):
            acc = args[1] if len(args) == 2 else 0
            for x in args[0]:
                fake = ast.copy_location(ast.BinOp(left=node, op=ast.Add(), right=node), node)
                acc = self.binop(fake, acc, x, st)
            return acc
        if name in ('tuple', 'list') and len(args) <= 1 and not kwargs:
            if not args:
                return []
            if isinstance(args[0], list):
                return list(args[0])
        if name == 'range' and args and all(isinstance(x, int) and not isinstance(x, bool) for x in args) and not kwargs:
            if len(args) == 3 and args[2] == 0:
                raise Unsupported('range with step 0')
            return range(*args)
        if name == 'dict' and not args:
            return dict(kwargs)
        if name == 'map' and len(args) >= 2 and not kwargs:
            # lazy, consumed once: folded to the element-wise application in order only where it is consumed on the spot
            parent = getattr(node, '_parent', None)
            once = (isinstance(parent, ast.Call) and any(a is node for a in parent.args)) \
                or (isinstance(parent, ast.Assign) and parent.value is node and all(isinstance(t, (ast.Tuple, ast.List)) for t in parent.targets)) \
                or (isinstance(parent, (ast.For, ast.comprehension)) and parent.iter is node) \
                or (isinstance(parent, ast.Starred) and isinstance(getattr(parent, '_parent', None), ast.Call))
            if not once:
                raise Unsupported('map object that is not consumed on the spot: {}'.format(unparse(node)))
            seqs = []
            for a in args[1:]:
                if isinstance(a, range) and len(a) <= 4096:
                    a = list(a)
                if isinstance(a, dict):
                    a = list(a.keys())
                if not isinstance(a, list):
                    raise Unsupported('map over something that is not a folded sequence: {}'.format(unparse(node)))
                seqs.append(a)
            out = []
            for items in zip(*seqs):
                out.append(self.call_value(args[0], list(items), {}, st, node))
                if st.dead:
                    return None
            return out
        if name in ('hex', 'bin', 'oct', 'repr', 'format', 'ascii'):
            return Opaque(name + '()')
        if name == 'str' and len(args) == 1:
            return str(args[0]) if isinstance(args[0], (int, str)) and not isinstance(args[0], bool) else Opaque('str()')
        if name in ('enumerate', 'zip', 'reversed') and not kwargs and all(isinstance(a, list) for a in args) and args:
            if name == 'enumerate' and len(args) == 1:
                return [[i, x] for i, x in enumerate(args[0])]
            if name == 'zip':
                return [list(t) for t in zip(*args)]
            if name == 'reversed' and len(args) == 1:
                return list(reversed(args[0]))
        raise Unsupported('call of {} ({})'.format(name, unparse(node)))

    def letter_value(self, lt, how, node):
        """sum / or over the letters of a spelling: the operand is the integer this denotes; the letter -> value map is kept
        for the comparison with the ISA's letter form"""
        if not all(isinstance(v, int) and not isinstance(v, bool) and v >= 0 for v in lt.mapping.values()):
            raise Unsupported('letters of a spelling mapped to something that is not a constant: {}'.format(unparse(node)))
        self.letter_forms[lt.pname] = {'map': dict(lt.mapping), 'distinct': lt.distinct, 'how': how}
        return Param(lt.pname)

    def call_value(self, callee, args, kwargs, st, node):
        """apply a callable value of the analysed module"""
        if isinstance(callee, FuncValue):
            return self.run_function(callee, args, kwargs, st)
        if isinstance(callee, PartialValue):
            merged = dict(callee.kwargs)
            merged.update(kwargs)
            return self.run_function(callee.func, args, merged, st)
        if isinstance(callee, (ClassValue, BoundMethod, Obj)):
            return self.call_object(callee, args, kwargs, st, node)
        raise Unsupported('call of {} ({})'.format(callee, unparse(node)))

    def int_call(self, node, st, caught):
        """int(x, base=0) / int(x, 0) -> (value, status)"""
        base = [kw for kw in node.keywords if kw.arg == 'base']
        if len(node.args) == 2 and not node.keywords:
            bval = self.ev(node.args[1], st)
        elif len(node.args) == 1 and len(node.keywords) == 1 and base:
            bval = self.ev(base[0].value, st)
        elif len(node.args) == 1 and not node.keywords:
            v = self.ev(node.args[0], st)
            if isinstance(v, (int, bool)):
                return int(v), False
            if isinstance(v, (View, Bits)):
                return v, False
            if isinstance(v, str):
                try:
                    return int(v), False
                except ValueError:
                    if caught is not None and (caught == 'all' or 'ValueError' in caught):
                        return v, True
                    return None, 'dead'
            if isinstance(v, Param) and caught is not None and (caught == 'all' or 'ValueError' in caught):
                # decimal conversion only: hex / octal / binary spellings take the handler.  The number denoted is the same;
                # the operand does not count as normalised with base 0 (register_spellings_normalised)
                return v, False
            raise Unsupported('int() of {}'.format(unparse(node)))
        else:
            raise Unsupported('int() call form {}'.format(unparse(node)))
        if bval != 0 or isinstance(bval, bool):
            raise Unsupported('int() call outside the base=0 coercion idiom: {}'.format(unparse(node)))
        return self.coerce(self.ev(node.args[0], st), st, node, caught)

    def local_dict_update(self, name, d, attr, node, st):
        """d.update(other) / d.setdefault(k, v) / d.pop(k) on a dict held by a local name: rebind the name to a copy"""
        args, kwargs = self.eval_args(node, st)
        if st.dead:
            return None
        self.unshared(d, name, st, node)
        nd = dict(d)
        ret = None
        if attr == 'update' and len(args) <= 1 and (not args or isinstance(args[0], dict)):
            if args:
                nd.update(args[0])
            nd.update(kwargs)
        elif attr == 'setdefault' and 1 <= len(args) <= 2 and not kwargs and isinstance(args[0], (int, str)):
            ret = nd.setdefault(args[0], args[1] if len(args) == 2 else None)
        elif attr == 'pop' and 1 <= len(args) <= 2 and not kwargs and isinstance(args[0], (int, str)):
            if args[0] in nd:
                ret = nd.pop(args[0])
            elif len(args) == 2:
                ret = args[1]
            else:
                self.raises.append({'node': node, 'fn': self.chain()})
                st.dead = True
                return None
        else:
            raise Unsupported('method call {}'.format(unparse(node)))
        st.env[name] = nd
        return ret

    def reduce_call(self, node, st):
        args, kwargs = self.eval_args(node, st)
        if st.dead:
            return None
        if not kwargs and 2 <= len(args) <= 3 and isinstance(args[1], LetterTerms) and isinstance(args[0], Opaque) \
                and isinstance(args[0].desc, tuple) and args[0].desc[0] == 'operator' and args[0].desc[1] in (ast.BitOr, ast.Add) \
                and (len(args) == 2 or args[2] == 0):
            return self.letter_value(args[1], 'or' if args[0].desc[1] is ast.BitOr else 'sum', node)
        if kwargs or not 2 <= len(args) <= 3 or not isinstance(args[1], list):
            raise Unsupported('reduce call form {}'.format(unparse(node)))
        seq = list(args[1])
        if len(args) == 3:
            acc = args[2]
        elif seq:
            acc = seq.pop(0)
        else:
            self.raises.append({'node': node, 'fn': self.chain()})
            st.dead = True
            return None
        f = args[0]
        for x in seq:
            if isinstance(f, Opaque) and isinstance(f.desc, tuple) and f.desc[0] == 'operator':
                fake = ast.copy_location(ast.BinOp(left=node, op=f.desc[1](), right=node), node)
                acc = self.binop(fake, acc, x, st)
            elif isinstance(f, FuncValue):
                acc = self.run_function(f, [acc, x], {}, st)
            else:
                raise Unsupported('reduce with {}'.format(unparse(node.args[0])))
            if st.dead:
                return None
        return acc

    # -- methods ---------------------------------------------------------------------------------------------------
    def method(self, base, attr, node, st):
        args, kwargs = self.eval_args(node, st)
        if st.dead:
            return None
        if isinstance(base, str):
            if attr == 'format' and all(isinstance(a, CONSTS) for a in list(args) + list(kwargs.values())):
                try:
                    return base.format(*args, **kwargs)
                except Exception:
                    return Opaque('str.format')
            if attr == 'join' and len(args) == 1 and isinstance(args[0], list) and all(isinstance(a, str) for a in args[0]):
                return base.join(args[0])
            if attr in ('index', 'find', 'count') and len(args) == 1 and isinstance(args[0], str) and not kwargs:
                try:
                    return getattr(base, attr)(args[0])
                except ValueError:
                    self.raises.append({'node': node, 'fn': self.chain()})
                    st.dead = True
                    return None
            if attr == 'format' or attr == 'join':
                return Opaque('str.' + attr)
            if attr in STR_METHODS and not kwargs and all(isinstance(a, (str, int)) for a in args):
                try:
                    return getattr(base, attr)(*args)
                except Exception as e:
                    raise Unsupported('str.{} cannot be folded: {}'.format(attr, e))
        if isinstance(base, Opaque) and attr in ('format', 'join'):
            return Opaque('str.' + attr)
        if isinstance(base, Param) and attr in STR_METHODS and attr not in ('startswith', 'endswith') and not args and not kwargs:
            if ('str', base.name) not in st.facts:
                raise Unsupported('{}.{}() without a dominating isinstance({}, str): an int operand would raise'.format(
                    base.name, attr, base.name))
            return Opaque((attr, base.name))
        if isinstance(base, (int, bool)) and attr in STR_METHODS:
            # AttributeError on an int operand
            self.raises.append({'node': node, 'fn': self.chain()})
            st.dead = True
            return None
        if isinstance(base, Record) and attr == '_replace' and base.rtype.is_tuple and not args:
            if set(kwargs) - set(base.rtype.fields):
                raise Unsupported('_replace with unknown field: {}'.format(unparse(node)))
            vals = dict(base.values)
            vals.update(kwargs)
            return Record(base.rtype, vals)
        if isinstance(base, Record) and attr == '_asdict' and base.rtype.is_tuple and not args and not kwargs:
            return dict(base.values)
        if isinstance(base, dict):
            if attr == 'get' and 1 <= len(args) <= 2 and not kwargs and isinstance(args[0], (str, int)):
                return base.get(args[0], args[1] if len(args) == 2 else None)
            if attr == 'items' and not args:
                return [[k, v] for k, v in base.items()]
            if attr == 'keys' and not args:
                return list(base.keys())
            if attr == 'values' and not args:
                return list(base.values())
        raise Unsupported('method call {}'.format(unparse(node)))

    # -- tables ------------------------------------------------------------------------------------------------------
    def imported_from(self, name, module):
        """`name` is bound exactly once at module level, by `import module` / `from module import name`"""
        if self.model.bind_count.get(name, 0) != 1 or name in self.model.global_decl:
            return False
        for s in self.facts.tree.body:
            if isinstance(s, ast.ImportFrom) and s.module == module and any((a.asname or a.name) == name for a in s.names):
                return True
            if isinstance(s, ast.Import) and any((a.asname or a.name) == name and a.name == module for a in s.names):
                return True
        return False

    OPERATORS = {'or_': ast.BitOr, 'and_': ast.BitAnd, 'add': ast.Add, 'xor': ast.BitXor, 'lshift': ast.LShift,
                 'rshift': ast.RShift, 'sub': ast.Sub, 'mul': ast.Mult}

    def operator_value(self, node, st):
        """operator.or_ / `from operator import or_` used as a value"""
        if isinstance(node, ast.Name) and node.id not in st.env and node.id in self.OPERATORS \
                and self.imported_from(node.id, 'operator'):
            return Opaque(('operator', self.OPERATORS[node.id]))
        if isinstance(node, ast.Attribute) and isinstance(node.value, ast.Name) and node.value.id == 'operator' \
                and node.value.id not in st.env and node.attr in self.OPERATORS and self.imported_from('operator', 'operator'):
            return Opaque(('operator', self.OPERATORS[node.attr]))
        return None

    def is_table_name(self, name, st):
        return name not in st.env and name in self.facts.tables and self.model.bind_count.get(name, 0) >= 1

    def is_noeffect_call(self, f, st):
        """log.debug(...) / logging.info(...): no effect on the value computed"""
        from .bitstate import LOG_METHODS
        if not (isinstance(f, ast.Attribute) and f.attr in LOG_METHODS and isinstance(f.value, ast.Name)):
            return False
        name = f.value.id
        if name in st.env:
            return False
        if name == 'logging' and self.model.bind_count.get(name, 0) == 1 and name not in self.facts.assign_nodes:
            return True
        return self.model.is_logger(name)

    def table(self, tname):
        mode = self.model.table_mode(tname)
        if mode == 'unknown' or tname in self.model.global_decl:
            raise Unsupported('table {} is written by a function in a way the analysis does not model'.format(tname))
        if mode == 'extended':
            self.notes.add('table {} grows at run time (setdefault with existing entries as values): more spellings are accepted, '
                           'the set of values they denote is unchanged'.format(tname))
        return self.facts.tables[tname], mode

    def reg_source(self, tname, key, st):
        """operand source of a table lookup with an open spelling"""
        table, mode = self.table(tname)
        if not self.model.stable(tname):
            raise Unsupported('table {} is bound more than once at module level'.format(tname))
        vals = sorted(set(table.values()), key=repr)
        if not vals or not all(isinstance(x, int) and not isinstance(x, bool) for x in vals):
            raise Unsupported('values of table {} are not integers'.format(tname))
        src = ('reg', key.name)
        self.lookup_normalised.setdefault(key.name, key.name in self.coerced)
        if src not in st.cells:
            vals = sorted(vals)
            cells = []
            start = prev = vals[0]
            for x in vals[1:]:
                if x != prev + 1:
                    cells.append(PCell(start, prev))
                    start = x
                prev = x
            cells.append(PCell(start, prev))
            st.cells[src] = cells
            st.lookup[src] = 'open'
            self.reg_tables.add(tname)
            self.src_table[src] = tname
        elif self.src_table.get(src) != tname:
            raise Unsupported('operand {} looked up in two tables'.format(key.name))
        return src

    def table_lookup(self, tname, key, st, node):
        """-> (value, src or None, may_miss).  value is what a hit yields; a definite miss returns (None, None, 'miss')."""
        table, mode = self.table(tname)
        if isinstance(key, Maybe):
            key = self.as_int_view(key, st, node)
        if isinstance(key, CONSTS):
            try:
                hit = key in table
            except TypeError:
                raise Unsupported('unhashable table key at {}'.format(unparse(node)))
            if hit:
                return norm_const(table[key]), None, False
            if mode == 'extended':
                raise Unsupported('constant key {!r} is not in {} as written, but the table grows at run time'.format(key, tname))
            return None, None, 'miss'
        if isinstance(key, Param):
            src = self.reg_source(tname, key, st)
            return View(src), src, st.lookup.get(src) != 'hit'
        if isinstance(key, View):
            # a value that already is a table value (e.g. a register number handed to a second lookup)
            if key.shift or key.trunc is not None:
                raise Unsupported('table lookup with a shifted key: {}'.format(unparse(node)))
            n = 0
            for c in st.cells[key.src]:
                if c.lo <= -INF or c.hi >= INF or (c.hi - c.lo) // c.m > 4096:
                    raise Unsupported('table lookup with an unbounded integer key: {}'.format(unparse(node)))
                off = c.off(key.ch, key.add)
                for o in range(c.lo, c.hi + 1, c.m):
                    n += 1
                    if table.get(o + off, None) != o + off or isinstance(table.get(o + off), bool):
                        raise Unsupported('table lookup with an integer key that {} does not map to itself: {}'.format(tname, unparse(node)))
            return key, None, False
        if isinstance(key, Opaque):
            if ('in', tname, key.desc) in st.facts:
                return TableVal(tname), None, False
            raise Unsupported('lookup of a derived spelling in {} without a dominating membership test: {}'.format(tname, unparse(node)))
        raise Unsupported('table lookup with key {} at {}'.format(key, unparse(node)))

    def table_subscript(self, tname, key, st, node):
        """TABLE[key] outside a try: a miss raises KeyError, which ends the path"""
        v, src, miss = self.table_lookup(tname, key, st, node)
        if miss == 'miss':
            self.raises.append({'node': node, 'fn': self.chain()})
            st.dead = True
            return None
        if miss:
            self.raises.append({'node': node, 'fn': self.chain()})
            st.lookup[src] = 'hit'
        return v

    def table_method(self, tname, attr, node, st):
        args, kwargs = self.eval_args(node, st)
        if st.dead:
            return None
        table, mode = self.table(tname)
        if attr == 'get' and 1 <= len(args) <= 2 and not kwargs:
            default = args[1] if len(args) == 2 else None
            if not isinstance(default, CONSTS):
                raise Unsupported('table default is not a constant: {}'.format(unparse(node)))
            v, src, miss = self.table_lookup(tname, args[0], st, node)
            if miss == 'miss':
                return default
            if miss:
                return Maybe(v, default)
            return v
        if attr == 'setdefault' and len(args) == 2 and not kwargs and mode == 'extended':
            if isinstance(args[1], TableVal) and args[1].table == tname:
                return TableVal(tname)
            if isinstance(args[0], CONSTS) and args[0] in table:
                return norm_const(table[args[0]])
            raise Unsupported('{}.setdefault with a value that is not an existing entry: {}'.format(tname, unparse(node)))
        if attr in ('keys', 'values', 'items') and not args and mode == 'closed':
            return self.method(norm_const(dict(table)), attr, node, st)
        raise Unsupported('call of {}.{} ({})'.format(tname, attr, unparse(node)))

    # -- inlining ----------------------------------------------------------------------------------------------------
    def chain(self):
        return '/'.join(self.fn_stack)

    @staticmethod
    def is_generator(fdef):
        if isinstance(fdef, ast.Lambda):
            return False
        todo = list(fdef.body)
        while todo:
            n = todo.pop()
            if isinstance(n, (ast.Yield, ast.YieldFrom)):
                return True
            if isinstance(n, (ast.FunctionDef, ast.AsyncFunctionDef, ast.Lambda, ast.ClassDef)):
                continue
            todo.extend(ast.iter_child_nodes(n))
        return False

    @staticmethod
    def consumed_on_the_spot(node):
        """the value of this call expression (a lazy iterator) is exhausted right where it is written"""
        parent = getattr(node, '_parent', None)
        return (isinstance(parent, ast.Call) and any(a is node for a in parent.args)) \
            or (isinstance(parent, ast.Assign) and parent.value is node and all(isinstance(t, (ast.Tuple, ast.List)) for t in parent.targets)) \
            or (isinstance(parent, (ast.For, ast.comprehension)) and parent.iter is node) \
            or (isinstance(parent, ast.Starred) and isinstance(getattr(parent, '_parent', None), ast.Call))

    def run_function(self, fv, args, kwargs, st, node=None):
        """Inline a function of the analysed module.  `st` is updated in place to the join of all returning paths;
        st.dead is set when every path raises.  A generator function (yield) is run to exhaustion and gives the list of the
        values it yields: only where the call is consumed on the spot (unpacking, list(...), for), since its body runs lazily."""
        fdef = fv.fdef
        gen = self.is_generator(fdef)
        if gen and (node is None or not self.consumed_on_the_spot(node)):
            raise Unsupported('generator {} is not consumed where it is created'.format(getattr(fdef, 'name', '?')))
        if not isinstance(fdef, ast.Lambda):
            for deco in fdef.decorator_list:
                # memoisation of a function of its arguments does not change what it returns
                d = dotted(deco.func if isinstance(deco, ast.Call) else deco)
                if d not in ('lru_cache', 'functools.lru_cache', 'cache', 'functools.cache'):
                    raise Unsupported('call of decorated function {}'.format(fdef.name))
        name = getattr(fdef, 'name', 'lambda')
        if len(self.fn_stack) > MAX_DEPTH or sum(1 for f in self.def_stack if f is fdef) > 2:
            raise Unsupported('inlining depth exceeded at {}'.format(name))
        env = self.bind_params(fv, args, kwargs)
        a = fdef.args
        pos = [p.arg for p in a.args]
        kwonly = [p.arg for p in a.kwonlyargs]
        if isinstance(fdef, ast.Lambda):
            st.stack.append(st.env)
            st.env = env
            self.fn_stack.append(fv.label or 'lambda')
            self.def_stack.append(fdef)
            try:
                val = self.ev(fdef.body, st)
            finally:
                self.def_stack.pop()
                self.fn_stack.pop()
            st.env = st.stack.pop()
            return None if st.dead else val
        label = fv.label or name
        if gen:
            env['<yields>'] = []
        st.stack.append(st.env)
        st.env = env
        self.fn_stack.append(label)
        self.def_stack.append(fdef)
        self.rets.append([])
        try:
            fall = self.exec_block(fdef.body, st)
        finally:
            rets = self.rets.pop()
            self.def_stack.pop()
            self.fn_stack.pop()
        outs = list(rets)
        if fall is not None:
            outs.append((fall, None))
        if gen:
            # `return` ends the iteration; what the consumer sees is the sequence yielded on the path taken
            outs = [(s, s.env.get('<yields>', TOP)) for s, _ in outs]
        if not outs:
            st.env = st.stack.pop() if st.stack else {}
            st.dead = True
            return None
        joined, val = outs[0]
        if len(outs) > 1:
            for s, v in outs:
                s.env = {'<ret>': v}
            for s, v in outs[1:]:
                joined = self.join(joined, s)
            val = joined.env['<ret>']
        if joined is not st:
            st.become(joined)
        st.env = st.stack.pop()
        st.dead = False
        if val is TOP:
            raise Unsupported('{} returns different abstract values on different paths'.format(fdef.name))
        if isinstance(val, FuncValue) and val.label is None and val.fdef is not fdef:
            given = [env.get(p) for p in pos + kwonly]
            if all(isinstance(x, CONSTS) for x in given):
                val.label = '{}<{}>'.format(label, ','.join(str(x) for x in given))
        return val

    def bind_params(self, fv, args, kwargs):
        fdef = fv.fdef
        name = getattr(fdef, 'name', 'lambda')
        a = fdef.args
        if getattr(a, 'posonlyargs', None):
            raise Unsupported('positional-only parameters in {}'.format(name))
        env = dict(fv.cenv or {})
        pos = [p.arg for p in a.args]
        if len(args) > len(pos):
            if not a.vararg:
                raise Unsupported('too many positional arguments for {}'.format(name))
            env[a.vararg.arg] = list(args[len(pos):])
            args = args[:len(pos)]
        elif a.vararg:
            env[a.vararg.arg] = []
        bound = set()
        for p, v in zip(pos, args):
            env[p] = v
            bound.add(p)
        kwonly = [p.arg for p in a.kwonlyargs]
        extra = {}
        for k, v in kwargs.items():
            if k in pos or k in kwonly:
                if k in bound:
                    raise Unsupported('{}() got multiple values for {}'.format(name, k))
                env[k] = v
                bound.add(k)
            elif a.kwarg:
                extra[k] = v
            else:
                raise Unsupported('{}() got unexpected keyword {}'.format(name, k))
        if a.kwarg:
            env[a.kwarg.arg] = extra
        defaults = dict(zip(pos[len(pos) - len(a.defaults):], a.defaults))
        kwdefaults = {p: d for p, d in zip(kwonly, a.kw_defaults) if d is not None}
        for p in pos + kwonly:
            if p not in bound:
                d = defaults.get(p, kwdefaults.get(p))
                if d is None:
                    raise Unsupported('{}() missing argument {}'.format(name, p))
                env[p] = self.default_value(d, fdef)
        return env

    def default_value(self, d, fdef):
        from .bitstate import State
        tmp = State()
        v = self.ev(d, tmp)
        if tmp.cells or tmp.dead or not self.is_static(v):
            raise Unsupported('default value of a parameter of {} is not a constant'.format(getattr(fdef, 'name', 'lambda')))
        return v
