"""Frozen reference tables, written from the specifications (RISC-V Unprivileged ISA 20191213 ch. 2, 8, 9, 16,
24, 25; USB DFU 1.1; ST AN3156 DfuSe), independent of the repository under analysis.

Operand spec: dict(role, kind, bits={operand bit: instruction bit}, lo, hi, mult, excl, alias)
  kind 'reg'  = 5-bit register number 0..31
  kind 'regc' = 3-bit register field holding (x8..x15) - 8
  kind 'imm'  = integer immediate
  kind 'num5' = 5-bit unsigned number carried in a register field (shamt, zimm)
"""


def _seq(op_lo, op_hi, inst_lo):
    """operand bits op_lo..op_hi -> instruction bits inst_lo.."""
    return {j: inst_lo + (j - op_lo) for j in range(op_lo, op_hi + 1)}


def _reg(role, pos):
    return dict(role=role, kind='reg', bits=_seq(0, 4, pos), lo=0, hi=31, mult=1, excl=[], alias=[])


def _num5(role, pos):
    return dict(role=role, kind='num5', bits=_seq(0, 4, pos), lo=0, hi=31, mult=1, excl=[], alias=[])


def _regc(role, pos):
    return dict(role=role, kind='regc', bits=_seq(0, 2, pos), lo=8, hi=15, mult=1, excl=[], alias=[])


def _imm(role, bits, lo, hi, mult=1, excl=(), alias=()):
    return dict(role=role, kind='imm', bits=dict(bits), lo=lo, hi=hi, mult=mult, excl=list(excl), alias=list(alias))


I_IMM = _seq(0, 11, 20)
S_IMM = {**_seq(0, 4, 7), **_seq(5, 11, 25)}
B_IMM = {**_seq(1, 4, 8), **_seq(5, 10, 25), 11: 7, 12: 31}
U_IMM = _seq(0, 19, 12)
J_IMM = {**_seq(1, 10, 21), 11: 20, **_seq(12, 19, 12), 20: 31}

RV32 = {}


def _r(name, opcode, f3, f7, shamt=False):
    RV32[name] = dict(width=32, fixed={(0, 7): opcode, (12, 3): f3, (25, 7): f7},
                      operands=[_reg('rd', 7), _reg('rs1', 15), (_num5('shamt', 20) if shamt else _reg('rs2', 20))])


def _i(name, opcode, f3, third='imm', second=None, mult=1):
    RV32[name] = dict(width=32, fixed={(0, 7): opcode, (12, 3): f3},
                      operands=[_reg('rd', 7), second or _reg('rs1', 15), _imm(third, I_IMM, -2048, 2047, mult)])


def _s(name, f3):
    RV32[name] = dict(width=32, fixed={(0, 7): 0b0100011, (12, 3): f3},
                      operands=[_reg('rs1', 15), _reg('rs2', 20), _imm('imm', S_IMM, -2048, 2047)])


def _b(name, f3):
    RV32[name] = dict(width=32, fixed={(0, 7): 0b1100011, (12, 3): f3},
                      operands=[_reg('rs1', 15), _reg('rs2', 20), _imm('imm', B_IMM, -4096, 4094, 2)])


def _u(name, opcode):
    RV32[name] = dict(width=32, fixed={(0, 7): opcode},
                      operands=[_reg('rd', 7), _imm('imm', U_IMM, -524288, 524287, 1, (), [(0x80000, 0xfffff, -(1 << 20))])])


def _a(name, f5, lr=False):
    ops = [_reg('rd', 7), _reg('rs1', 15)]
    fixed = {(0, 7): 0b0101111, (12, 3): 0b010, (27, 5): f5}
    if lr:
        fixed[(20, 5)] = 0
    else:
        ops.append(_reg('rs2', 20))
    ops += [_imm('aq', {0: 26}, 0, 1), _imm('rl', {0: 25}, 0, 1)]
    RV32[name] = dict(width=32, fixed=fixed, operands=ops, optional=2)


_u('lui', 0b0110111)
_u('auipc', 0b0010111)
RV32['jal'] = dict(width=32, fixed={(0, 7): 0b1101111},
                   operands=[_reg('rd', 7), _imm('imm', J_IMM, -1048576, 1048574, 2)])
# ISA: jalr takes any 12-bit offset (bit 0 of the target is cleared by hardware); bronzebeard documents the
# operand as "12-bit MO2" and refuses odd offsets.  The documented, stricter set is the reference here.
_i('jalr', 0b1100111, 0b000, mult=2)
for _n, _f in [('beq', 0), ('bne', 1), ('blt', 4), ('bge', 5), ('bltu', 6), ('bgeu', 7)]:
    _b(_n, _f)
for _n, _f in [('lb', 0), ('lh', 1), ('lw', 2), ('lbu', 4), ('lhu', 5)]:
    _i(_n, 0b0000011, _f)
for _n, _f in [('sb', 0), ('sh', 1), ('sw', 2)]:
    _s(_n, _f)
for _n, _f in [('addi', 0), ('slti', 2), ('sltiu', 3), ('xori', 4), ('ori', 6), ('andi', 7)]:
    _i(_n, 0b0010011, _f)
_r('slli', 0b0010011, 0b001, 0b0000000, shamt=True)
_r('srli', 0b0010011, 0b101, 0b0000000, shamt=True)
_r('srai', 0b0010011, 0b101, 0b0100000, shamt=True)
for _n, _f3, _f7 in [('add', 0, 0), ('sub', 0, 0b0100000), ('sll', 1, 0), ('slt', 2, 0), ('sltu', 3, 0), ('xor', 4, 0),
                     ('srl', 5, 0), ('sra', 5, 0b0100000), ('or', 6, 0), ('and', 7, 0)]:
    _r(_n, 0b0110011, _f3, _f7)
RV32['fence'] = dict(width=32, fixed={(0, 7): 0b0001111, (7, 5): 0, (12, 3): 0, (15, 5): 0, (28, 4): 0},
                     operands=[_imm('succ', _seq(0, 3, 20), 0, 15), _imm('pred', _seq(0, 3, 24), 0, 15)])
RV32['ecall'] = dict(width=32, fixed={(0, 32): 0x00000073}, operands=[])
RV32['ebreak'] = dict(width=32, fixed={(0, 32): 0x00100073}, operands=[])
RV32['fence.i'] = dict(width=32, fixed={(0, 32): 0x0000100f}, operands=[])
for _n, _f in [('csrrw', 1), ('csrrs', 2), ('csrrc', 3)]:
    _i(_n, 0b1110011, _f, third='csr')
for _n, _f in [('csrrwi', 5), ('csrrsi', 6), ('csrrci', 7)]:
    _i(_n, 0b1110011, _f, third='csr', second=_num5('uimm', 15))
for _n, _f in [('mul', 0), ('mulh', 1), ('mulhsu', 2), ('mulhu', 3), ('div', 4), ('divu', 5), ('rem', 6), ('remu', 7)]:
    _r(_n, 0b0110011, _f, 0b0000001)
_a('lr.w', 0b00010, lr=True)
for _n, _f in [('sc.w', 0b00011), ('amoswap.w', 0b00001), ('amoadd.w', 0b00000), ('amoxor.w', 0b00100),
               ('amoand.w', 0b01100), ('amoor.w', 0b01000), ('amomin.w', 0b10000), ('amomax.w', 0b10100),
               ('amominu.w', 0b11000), ('amomaxu.w', 0b11100)]:
    _a(_n, _f)

assert len(RV32) == 66

# ---------------------------------------------------------------------------------------------------------------
# RV32C integer subset.  `expands` = the 32-bit instruction the halfword means:
#   (mnemonic, {role: source}) with source = operand role name of the compressed form, or ('const', n)
RVC = {}
CI_IMM = {**_seq(0, 4, 2), 5: 12}
CJ_IMM = {1: 3, 2: 4, 3: 5, 4: 11, 5: 2, 6: 7, 7: 6, 8: 9, 9: 10, 10: 8, 11: 12}
CB_IMM = {1: 3, 2: 4, 3: 10, 4: 11, 5: 2, 6: 5, 7: 6, 8: 12}
CLW_IMM = {2: 6, 3: 10, 4: 11, 5: 12, 6: 5}


def _c(name, fixed, operands, expands):
    RVC[name] = dict(width=16, fixed=fixed, operands=operands, expands=expands)


def C(n):
    return ('const', n)


_c('c.addi4spn', {(0, 2): 0b00, (13, 3): 0b000},
   [_regc('rd', 2), _imm('imm', {2: 6, 3: 5, 4: 11, 5: 12, 6: 7, 7: 8, 8: 9, 9: 10}, 4, 1020, 4)],
   ('addi', {'rd': 'rd', 'rs1': C(2), 'imm': 'imm'}))
_c('c.lw', {(0, 2): 0b00, (13, 3): 0b010},
   [_regc('rd', 2), _regc('rs1', 7), _imm('imm', CLW_IMM, 0, 124, 4)],
   ('lw', {'rd': 'rd', 'rs1': 'rs1', 'imm': 'imm'}))
_c('c.sw', {(0, 2): 0b00, (13, 3): 0b110},
   [_regc('rs1', 7), _regc('rs2', 2), _imm('imm', CLW_IMM, 0, 124, 4)],
   ('sw', {'rs1': 'rs1', 'rs2': 'rs2', 'imm': 'imm'}))
_c('c.nop', {(0, 16): 0x0001}, [], ('addi', {'rd': C(0), 'rs1': C(0), 'imm': C(0)}))
_c('c.addi', {(0, 2): 0b01, (13, 3): 0b000},
   [dict(_reg('rd_rs1', 7), excl=[0]), _imm('imm', CI_IMM, -32, 31, 1, [0])],
   ('addi', {'rd': 'rd_rs1', 'rs1': 'rd_rs1', 'imm': 'imm'}))
_c('c.jal', {(0, 2): 0b01, (13, 3): 0b001}, [_imm('imm', CJ_IMM, -2048, 2046, 2)],
   ('jal', {'rd': C(1), 'imm': 'imm'}))
_c('c.li', {(0, 2): 0b01, (13, 3): 0b010},
   [dict(_reg('rd_rs1', 7), excl=[0]), _imm('imm', CI_IMM, -32, 31)],
   ('addi', {'rd': 'rd_rs1', 'rs1': C(0), 'imm': 'imm'}))
_c('c.addi16sp', {(0, 2): 0b01, (13, 3): 0b011, (7, 5): 2},
   [_imm('imm', {4: 6, 5: 2, 6: 5, 7: 3, 8: 4, 9: 12}, -512, 496, 16, [0])],
   ('addi', {'rd': C(2), 'rs1': C(2), 'imm': 'imm'}))
_c('c.lui', {(0, 2): 0b01, (13, 3): 0b011},
   [dict(_reg('rd_rs1', 7), excl=[0, 2]),
    _imm('imm', CI_IMM, -32, 31, 1, [0], [(0xfffe0, 0xfffff, -(1 << 20))])],
   ('lui', {'rd': 'rd_rs1', 'imm': 'imm'}))
for _n, _f2 in [('c.srli', 0b00), ('c.srai', 0b01)]:
    # RV32C: shamt[5] (instruction bit 12) must be zero; shamt = 0 is a HINT
    _c(_n, {(0, 2): 0b01, (13, 3): 0b100, (10, 2): _f2, (12, 1): 0},
       [_regc('rd_rs1', 7), _imm('imm', _seq(0, 4, 2), 1, 31)],
       (_n[2:], {'rd': 'rd_rs1', 'rs1': 'rd_rs1', 'shamt': 'imm'}))
_c('c.andi', {(0, 2): 0b01, (13, 3): 0b100, (10, 2): 0b10},
   [_regc('rd_rs1', 7), _imm('imm', CI_IMM, -32, 31)],
   ('andi', {'rd': 'rd_rs1', 'rs1': 'rd_rs1', 'imm': 'imm'}))
for _n, _f2 in [('c.sub', 0b00), ('c.xor', 0b01), ('c.or', 0b10), ('c.and', 0b11)]:
    _c(_n, {(0, 2): 0b01, (10, 6): 0b100011, (5, 2): _f2}, [_regc('rd_rs1', 7), _regc('rs2', 2)],
       (_n[2:], {'rd': 'rd_rs1', 'rs1': 'rd_rs1', 'rs2': 'rs2'}))
_c('c.j', {(0, 2): 0b01, (13, 3): 0b101}, [_imm('imm', CJ_IMM, -2048, 2046, 2)],
   ('jal', {'rd': C(0), 'imm': 'imm'}))
_c('c.beqz', {(0, 2): 0b01, (13, 3): 0b110}, [_regc('rs1', 7), _imm('imm', CB_IMM, -256, 254, 2)],
   ('beq', {'rs1': 'rs1', 'rs2': C(0), 'imm': 'imm'}))
_c('c.bnez', {(0, 2): 0b01, (13, 3): 0b111}, [_regc('rs1', 7), _imm('imm', CB_IMM, -256, 254, 2)],
   ('bne', {'rs1': 'rs1', 'rs2': C(0), 'imm': 'imm'}))
_c('c.slli', {(0, 2): 0b10, (13, 3): 0b000, (12, 1): 0},
   [dict(_reg('rd_rs1', 7), excl=[0]), _imm('imm', _seq(0, 4, 2), 1, 31)],
   ('slli', {'rd': 'rd_rs1', 'rs1': 'rd_rs1', 'shamt': 'imm'}))
_c('c.lwsp', {(0, 2): 0b10, (13, 3): 0b010},
   [dict(_reg('rd_rs1', 7), excl=[0]), _imm('imm', {2: 4, 3: 5, 4: 6, 5: 12, 6: 2, 7: 3}, 0, 252, 4)],
   ('lw', {'rd': 'rd_rs1', 'rs1': C(2), 'imm': 'imm'}))
_c('c.jr', {(0, 2): 0b10, (12, 4): 0b1000, (2, 5): 0}, [dict(_reg('rd_rs1', 7), excl=[0])],
   ('jalr', {'rd': C(0), 'rs1': 'rd_rs1', 'imm': C(0)}))
_c('c.mv', {(0, 2): 0b10, (12, 4): 0b1000}, [dict(_reg('rd_rs1', 7), excl=[0]), dict(_reg('rs2', 2), excl=[0])],
   ('add', {'rd': 'rd_rs1', 'rs1': C(0), 'rs2': 'rs2'}))
_c('c.ebreak', {(0, 16): 0x9002}, [], ('ebreak', {}))
_c('c.jalr', {(0, 2): 0b10, (12, 4): 0b1001, (2, 5): 0}, [dict(_reg('rd_rs1', 7), excl=[0])],
   ('jalr', {'rd': C(1), 'rs1': 'rd_rs1', 'imm': C(0)}))
_c('c.add', {(0, 2): 0b10, (12, 4): 0b1001}, [dict(_reg('rd_rs1', 7), excl=[0]), dict(_reg('rs2', 2), excl=[0])],
   ('add', {'rd': 'rd_rs1', 'rs1': 'rd_rs1', 'rs2': 'rs2'}))
_c('c.swsp', {(0, 2): 0b10, (13, 3): 0b110},
   [_reg('rs2', 2), _imm('imm', {2: 9, 3: 10, 4: 11, 5: 12, 6: 7, 7: 8}, 0, 252, 4)],
   ('sw', {'rs1': C(2), 'rs2': 'rs2', 'imm': 'imm'}))

assert len(RVC) == 27


def fixed_mask_match(spec):
    mask = match = 0
    for (pos, n), val in spec['fixed'].items():
        m = ((1 << n) - 1) << pos
        mask |= m
        match |= (val << pos) & m
    return mask, match


def legal_values(op):
    """All legal operand values of a bounded oracle operand (canonical spellings, aliases excluded)."""
    return [v for v in range(op['lo'], op['hi'] + 1, 1) if v % op['mult'] == 0 and v not in op['excl']]


def rvc_decode(h):
    """Independent RV32C decoder written from the ISA listing: mnemonic of the legal, non-HINT, non-reserved RV32C
    *integer* instruction encoded by halfword h, else None (illegal, reserved, HINT, RV64/128-only, floating point)."""
    op = h & 3
    f3 = (h >> 13) & 7
    b12 = (h >> 12) & 1
    r11_7 = (h >> 7) & 31
    r6_2 = (h >> 2) & 31
    if op == 0:
        if f3 == 0:
            return 'c.addi4spn' if (h >> 5) & 0xff else None     # nzuimm == 0 reserved (incl. all-zero illegal)
        if f3 == 2:
            return 'c.lw'
        if f3 == 6:
            return 'c.sw'
        return None                                             # fld/flw/fsd/fsw/reserved
    if op == 1:
        imm6 = (b12 << 5) | r6_2
        if f3 == 0:
            if r11_7 == 0:
                return 'c.nop' if imm6 == 0 else None            # HINT
            return 'c.addi' if imm6 else None                    # HINT
        if f3 == 1:
            return 'c.jal'
        if f3 == 2:
            return 'c.li' if r11_7 else None                     # HINT
        if f3 == 3:
            if imm6 == 0:
                return None                                      # reserved
            if r11_7 == 2:
                return 'c.addi16sp'
            return 'c.lui' if r11_7 else None                    # HINT
        if f3 == 4:
            sub = (h >> 10) & 3
            if sub in (0, 1):
                if b12:
                    return None                                  # RV32 NSE
                if r6_2 == 0:
                    return None                                  # HINT
                return 'c.srli' if sub == 0 else 'c.srai'
            if sub == 2:
                return 'c.andi'
            if b12:
                return None                                      # c.subw/c.addw (RV64) / reserved
            return ['c.sub', 'c.xor', 'c.or', 'c.and'][(h >> 5) & 3]
        if f3 == 5:
            return 'c.j'
        return 'c.beqz' if f3 == 6 else 'c.bnez'
    if op == 2:
        if f3 == 0:
            if b12 or r11_7 == 0 or r6_2 == 0:
                return None                                      # NSE / HINT
            return 'c.slli'
        if f3 == 2:
            return 'c.lwsp' if r11_7 else None                   # reserved
        if f3 == 4:
            if b12 == 0:
                if r6_2 == 0:
                    return 'c.jr' if r11_7 else None             # reserved
                return 'c.mv' if r11_7 else None                 # HINT
            if r6_2 == 0:
                return 'c.jalr' if r11_7 else 'c.ebreak'
            return 'c.add' if r11_7 else None                    # HINT
        if f3 == 6:
            return 'c.swsp'
        return None                                             # fldsp/flwsp/fsdsp/fswsp
    return None                                                  # 32-bit instruction


ABI_NAMES = ['zero', 'ra', 'sp', 'gp', 'tp', 't0', 't1', 't2', 's0', 's1', 'a0', 'a1', 'a2', 'a3', 'a4', 'a5', 'a6', 'a7',
             's2', 's3', 's4', 's5', 's6', 's7', 's8', 's9', 's10', 's11', 't3', 't4', 't5', 't6']
ABI_EXTRA = {'fp': 8}

# Standard pseudo-instruction table (ISA manual ch. 25, table 25.2), in bronzebeard's operand naming.
# (base mnemonic, {field: source}); source = pseudo operand index, ('reg', n), ('imm', n) or ('off', index)
PSEUDO = {
    'nop': ([], ('addi', {'rd': ('reg', 0), 'rs1': ('reg', 0), 'imm': ('imm', 0)})),
    'mv': (['rd', 'rs'], ('addi', {'rd': 0, 'rs1': 1, 'imm': ('imm', 0)})),
    'not': (['rd', 'rs'], ('xori', {'rd': 0, 'rs1': 1, 'imm': ('imm', -1)})),
    'neg': (['rd', 'rs'], ('sub', {'rd': 0, 'rs1': ('reg', 0), 'rs2': 1})),
    'seqz': (['rd', 'rs'], ('sltiu', {'rd': 0, 'rs1': 1, 'imm': ('imm', 1)})),
    'snez': (['rd', 'rs'], ('sltu', {'rd': 0, 'rs1': ('reg', 0), 'rs2': 1})),
    'sltz': (['rd', 'rs'], ('slt', {'rd': 0, 'rs1': 1, 'rs2': ('reg', 0)})),
    'sgtz': (['rd', 'rs'], ('slt', {'rd': 0, 'rs1': ('reg', 0), 'rs2': 1})),
    'beqz': (['rs', 'offset'], ('beq', {'rs1': 0, 'rs2': ('reg', 0), 'imm': ('off', 1)})),
    'bnez': (['rs', 'offset'], ('bne', {'rs1': 0, 'rs2': ('reg', 0), 'imm': ('off', 1)})),
    'blez': (['rs', 'offset'], ('bge', {'rs1': ('reg', 0), 'rs2': 0, 'imm': ('off', 1)})),
    'bgez': (['rs', 'offset'], ('bge', {'rs1': 0, 'rs2': ('reg', 0), 'imm': ('off', 1)})),
    'bltz': (['rs', 'offset'], ('blt', {'rs1': 0, 'rs2': ('reg', 0), 'imm': ('off', 1)})),
    'bgtz': (['rs', 'offset'], ('blt', {'rs1': ('reg', 0), 'rs2': 0, 'imm': ('off', 1)})),
    'bgt': (['rs', 'rt', 'offset'], ('blt', {'rs1': 1, 'rs2': 0, 'imm': ('off', 2)})),
    'ble': (['rs', 'rt', 'offset'], ('bge', {'rs1': 1, 'rs2': 0, 'imm': ('off', 2)})),
    'bgtu': (['rs', 'rt', 'offset'], ('bltu', {'rs1': 1, 'rs2': 0, 'imm': ('off', 2)})),
    'bleu': (['rs', 'rt', 'offset'], ('bgeu', {'rs1': 1, 'rs2': 0, 'imm': ('off', 2)})),
    'j': (['offset'], ('jal', {'rd': ('reg', 0), 'imm': ('off', 0)})),
    'jal': (['offset'], ('jal', {'rd': ('reg', 1), 'imm': ('off', 0)})),
    'jr': (['rs'], ('jalr', {'rd': ('reg', 0), 'rs1': 0, 'imm': ('imm', 0)})),
    'jalr': (['rs'], ('jalr', {'rd': ('reg', 1), 'rs1': 0, 'imm': ('imm', 0)})),
    'ret': ([], ('jalr', {'rd': ('reg', 0), 'rs1': ('reg', 1), 'imm': ('imm', 0)})),
    'fence': ([], ('fence', {'succ': ('imm', 0b1111), 'pred': ('imm', 0b1111)})),
}
PSEUDO_VARIABLE = {
    # name: (operands, link/scratch register of the far form, link register of the jump)
    'li': dict(operands=['rd', 'imm']),
    'call': dict(operands=['offset'], scratch=1, link=1),
    'tail': dict(operands=['offset'], scratch=6, link=0),
}

STRUCT_SIZES = {'b': 1, 'B': 1, 'h': 2, 'H': 2, 'i': 4, 'I': 4, 'l': 4, 'L': 4, 'q': 8, 'Q': 8}
SEQUENCE_WIDTHS = {'bytes': 1, 'shorts': 2, 'ints': 4, 'longs': 4, 'longlongs': 8}
SHORTHAND_WIDTHS = {'db': 1, 'dh': 2, 'dw': 4, 'dd': 8}

DFU = {
    'requests': {'REQUEST_DFU_DETACH': 0, 'REQUEST_DFU_DNLOAD': 1, 'REQUEST_DFU_UPLOAD': 2, 'REQUEST_DFU_GETSTATUS': 3,
                 'REQUEST_DFU_CLRSTATUS': 4, 'REQUEST_DFU_GETSTATE': 5, 'REQUEST_DFU_ABORT': 6},
    'states': {'STATE_APP_IDLE': 0, 'STATE_APP_DETACH': 1, 'STATE_DFU_IDLE': 2, 'STATE_DFU_DNLOAD_SYNC': 3,
               'STATE_DFU_DNBUSY': 4, 'STATE_DFU_DNLOAD_IDLE': 5, 'STATE_DFU_MANIFEST_SYNC': 6, 'STATE_DFU_MANIFEST': 7,
               'STATE_DFU_MANIFEST_WAIT_RESET': 8, 'STATE_DFU_UPLOAD_IDLE': 9, 'STATE_DFU_ERROR': 10},
    'status': {'STATUS_OK': 0, 'STATUS_ERR_TARGET': 1, 'STATUS_ERR_FILE': 2, 'STATUS_ERR_WRITE': 3, 'STATUS_ERR_ERASE': 4,
               'STATUS_ERR_CHECK_ERASED': 5, 'STATUS_ERR_PROG': 6, 'STATUS_ERR_VERIFY': 7, 'STATUS_ERR_ADDRESS': 8,
               'STATUS_ERR_NOTDONE': 9, 'STATUS_ERR_FIRMWARE': 10, 'STATUS_ERR_VENDOR': 11, 'STATUS_ERR_USBR': 12,
               'STATUS_ERR_POR': 13, 'STATUS_ERR_UNKNOWN': 14, 'STATUS_ERR_STALLEDPKT': 15},
    'dfuse': {'DFUSE_CMD_SET_ADDRESS': 0x21, 'DFUSE_CMD_ERASE_PAGE': 0x41},
    'bmRequestType_out': 0x21, 'bmRequestType_in': 0xA1,
    'usb': {'USB_ENDPOINT_OUT': 0x00, 'USB_ENDPOINT_IN': 0x80, 'USB_REQUEST_TYPE_CLASS': 0x20, 'USB_RECIPIENT_INTERFACE': 0x01},
    'getstatus_len': 6, 'download_wvalue': 2, 'flash_base': 0x08000000,
    'gd32_pages': {'B': 128, '8': 64, '6': 32, '4': 16}, 'gd32_page_size': 1024,
}


def rv32_fields(word):
    """Generic RV32 field extraction written from the base formats (independent of the per-mnemonic table):
    every format's immediate decoded per the ISA manual figure 2.4 (immediates produced by each base format)."""
    def sx(v, bits):
        return v - (1 << bits) if v & (1 << (bits - 1)) else v
    f = {
        'opcode': word & 0x7f, 'rd': (word >> 7) & 31, 'funct3': (word >> 12) & 7, 'rs1': (word >> 15) & 31,
        'rs2': (word >> 20) & 31, 'funct7': (word >> 25) & 0x7f,
        'imm_i': sx(word >> 20, 12),
        'imm_s': sx(((word >> 25) << 5) | ((word >> 7) & 31), 12),
        'imm_b': sx((((word >> 31) & 1) << 12) | (((word >> 7) & 1) << 11) | (((word >> 25) & 0x3f) << 5) | (((word >> 8) & 0xf) << 1), 13),
        'imm_u': sx(word >> 12, 20),
        'imm_j': sx((((word >> 31) & 1) << 20) | (((word >> 12) & 0xff) << 12) | (((word >> 20) & 1) << 11) | (((word >> 21) & 0x3ff) << 1), 21),
    }
    return f


RV32_FORMAT = {}
for _m in ('lui', 'auipc'):
    RV32_FORMAT[_m] = 'U'
RV32_FORMAT['jal'] = 'J'
for _m in ('beq', 'bne', 'blt', 'bge', 'bltu', 'bgeu'):
    RV32_FORMAT[_m] = 'B'
for _m in ('sb', 'sh', 'sw'):
    RV32_FORMAT[_m] = 'S'
for _m in ('jalr', 'lb', 'lh', 'lw', 'lbu', 'lhu', 'addi', 'slti', 'sltiu', 'xori', 'ori', 'andi', 'csrrw', 'csrrs', 'csrrc', 'csrrwi', 'csrrsi', 'csrrci'):
    RV32_FORMAT[_m] = 'I'
