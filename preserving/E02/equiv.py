"""Differential test: original encoders (/repo, read-only) vs refactored copy.

Every call is made against both modules; the outcome is either
('ok', value, type-of-value) or ('exc', exception class name).  Any mismatch
is a difference.  Exit status is non-zero when there is at least one.
"""
import importlib.util
import itertools
import os
import random
import sys

sys.dont_write_bytecode = True  # never drop a __pycache__ into /repo

HERE = os.path.dirname(os.path.abspath(__file__))


def load(name, path):
    spec = importlib.util.spec_from_file_location(name, path)
    module = importlib.util.module_from_spec(spec)
    sys.modules[name] = module
    spec.loader.exec_module(module)
    return module


orig = load('orig_bronzebeard_asm', '/repo/bronzebeard/asm.py')
new = load('new_bronzebeard_asm', os.path.join(HERE, 'bronzebeard', 'asm.py'))
assert orig.__file__ != new.__file__

rng = random.Random(20260928)

comparisons = 0
differences = []
ok_results = 0
value_errors = 0
other_errors = 0


def outcome(func, args, kwargs):
    try:
        value = func(*args, **kwargs)
    except Exception as e:  # noqa
        return ('exc', type(e).__name__)
    return ('ok', value, type(value).__name__)


def compare(label, f_orig, f_new, args=(), kwargs=None, bucket=None):
    global comparisons, ok_results, value_errors, other_errors
    kwargs = kwargs or {}
    a = outcome(f_orig, args, kwargs)
    b = outcome(f_new, args, kwargs)
    comparisons += 1
    if a[0] == 'ok':
        ok_results += 1
    elif a[1] == 'ValueError':
        value_errors += 1
    else:
        other_errors += 1
    if a != b:
        (differences if bucket is None else bucket).append((label, args, kwargs, a, b))


# ---------------------------------------------------------------- inputs

REG_VALID = list(orig.REGISTERS.keys())
REG_NUMERIC_STRINGS = []
for n in range(0, 34):
    REG_NUMERIC_STRINGS += [hex(n), oct(n), bin(n), '0X%X' % n, '%02d' % n, ' %d ' % n, '+%d' % n]
REG_INVALID = [
    32, 33, -1, -8, 255, 'x32', 'x-1', 'X5', 'A0', 'foo', '', ' ', 'x', 'x05', 'a8', 't7', 's12',
    '0x20', '0x', '-1', '-0', '1_0', '1__0', '3.0', None, 5.0, 8.0, 5.5, float('nan'), True, False,
    b'5', b'x5', (5,), [5], 'zero ', 'ZERO', 'sp\n', '０', '٣',
]
REG_ALL = REG_VALID + REG_NUMERIC_STRINGS + REG_INVALID
REG_FEW = [0, 1, 2, 5, 8, 'x9', 'a0', 'a5', 15, 16, '0x1f', 'fp', 'zero', 'sp', 'nope', 40]


def imm_windows():
    values = set()
    for k in range(0, 22):
        p = 1 << k
        for d in range(-40, 41):
            values.add(p + d)
            values.add(-p + d)
    # a little beyond, where c_uint32 in the original would wrap
    for p in (1 << 31, 1 << 32, 1 << 33, 1 << 64):
        for d in range(-3, 4):
            values.add(p + d)
            values.add(-p + d)
    return sorted(values)


IMM_WINDOWS = imm_windows()
IMM_ODDBALLS = [True, False, 2.0, 3.0, 4.0, 16.0, 0.5, -2.0, 5000.0, 1e9, float('nan'), float('inf'),
                '4', 'x', None, b'\x04', (4,), [4]]


def random_imm():
    kind = rng.randrange(8)
    if kind == 0:
        return rng.randint(-80, 80)
    if kind == 1:
        return rng.randint(-300, 300)
    if kind == 2:
        return rng.randint(-1100, 1100)
    if kind == 3:
        return rng.randint(-5000, 5000)
    if kind == 4:
        return rng.randint(-(1 << 20) - 100, (1 << 20) + 100)
    if kind == 5:
        return rng.randint(-(1 << 21) - 100, (1 << 21) + 100)
    if kind == 6:
        return rng.randint(0xfff00, 0x100100)
    return rng.randint(-(1 << 34), 1 << 34)


# shape of the positional arguments per instruction table: 'r' register, 'i' immediate
SHAPES = {
    'R_TYPE_INSTRUCTIONS': 'rrr',
    'I_TYPE_INSTRUCTIONS': 'rri',
    'IE_TYPE_INSTRUCTIONS': '',
    'S_TYPE_INSTRUCTIONS': 'rri',
    'B_TYPE_INSTRUCTIONS': 'rri',
    'U_TYPE_INSTRUCTIONS': 'ri',
    'J_TYPE_INSTRUCTIONS': 'ri',
    'FENCE_INSTRUCTIONS': 'ff',
    'A_TYPE_INSTRUCTIONS': 'rrr',
    'AL_TYPE_INSTRUCTIONS': 'rr',
    'CR_TYPE_INSTRUCTIONS': 'rr',
    'CRJ_TYPE_INSTRUCTIONS': 'r',
    'CRE_TYPE_INSTRUCTIONS': '',
    'CI_TYPE_INSTRUCTIONS': 'ri',
    'CIA_TYPE_INSTRUCTIONS': 'i',
    'CIN_TYPE_INSTRUCTIONS': '',
    'CSS_TYPE_INSTRUCTIONS': 'ri',
    'CIW_TYPE_INSTRUCTIONS': 'ri',
    'CL_TYPE_INSTRUCTIONS': 'rri',
    'CS_TYPE_INSTRUCTIONS': 'rri',
    'CA_TYPE_INSTRUCTIONS': 'rr',
    'CB_TYPE_INSTRUCTIONS': 'ri',
    'CJ_TYPE_INSTRUCTIONS': 'i',
}

MNEMONICS = {}
for table, shape in SHAPES.items():
    assert list(getattr(orig, table)) == list(getattr(new, table))
    for mnemonic in getattr(orig, table):
        MNEMONICS[mnemonic] = (table, shape)
assert set(MNEMONICS) == set(orig.INSTRUCTIONS) == set(new.INSTRUCTIONS), \
    set(orig.INSTRUCTIONS) ^ set(MNEMONICS)

AQRL = [0, 1, 2, '1']
AQRL_EXTRA = ['0', '0b1', '0x1', '2', 'x', '', -1, None, 1.0]
FENCE_STRINGS = ['0b11', '0b1111', '0b10000', '0xf', '0x10', '15', '16', '-1', 'iorw', '', None, 3.0, 'rw']

SAMPLE_IMMS = [0, 1, 2, 4, 8, 16, 28, 31, 32, -1, -2, -16, -32, -33, 64, 124, 128, 252, 256, 1020, 1024,
               2046, 2047, 2048, -2048, -2049, 4094, 4096, 0x7ffff, 0x80000, 0xfffe0, 0xfffff, 0x100000]


def fill(shape, regs, imm):
    regs = iter(regs)
    return tuple(next(regs) if c == 'r' else imm for c in shape)


def run_mnemonic(mnemonic, table, shape):
    fo = orig.INSTRUCTIONS[mnemonic]
    fn = new.INSTRUCTIONS[mnemonic]
    label = mnemonic
    nregs = shape.count('r')
    has_imm = 'i' in shape

    if shape == '':
        compare(label, fo, fn)
        # extra positional / keyword arguments collide with the partial bindings
        compare(label, fo, fn, (1,))
        compare(label, fo, fn, (), {'imm': 3})
        return

    if shape == 'ff':
        values = list(range(-2, 21)) + FENCE_STRINGS
        for succ, pred in itertools.product(values, values):
            compare(label, fo, fn, (succ, pred))
        return

    # (a) every register spelling in every register slot, other slots from a small set
    for slot in range(nregs):
        others = [REG_FEW if nregs < 3 else REG_FEW[:8]] * (nregs - 1)
        for reg in REG_ALL:
            for rest in itertools.product(*others):
                regs = list(rest)
                regs.insert(slot, reg)
                for imm in ((0, 4, 16, -2, 31, 5000) if has_imm else (None,)):
                    compare(label, fo, fn, fill(shape, regs, imm))
    # all pairs / triples of the valid spellings (sampled when too many)
    if nregs >= 2:
        for _ in range(3000):
            regs = [rng.choice(REG_ALL) for _ in range(nregs)]
            compare(label, fo, fn, fill(shape, regs, rng.choice(SAMPLE_IMMS)))

    # (d) aq / rl
    if table in ('A_TYPE_INSTRUCTIONS', 'AL_TYPE_INSTRUCTIONS'):
        flags = AQRL + AQRL_EXTRA
        for aq, rl in itertools.product(flags, flags):
            for regs in (['a0', 'a1', 'a2'], ['x1', 'bad', 3], [31, '0x1f', 't6']):
                regs = regs[:nregs]
                compare(label, fo, fn, tuple(regs), {'aq': aq, 'rl': rl})
                compare(label, fo, fn, tuple(regs), {'aq': aq})
                compare(label, fo, fn, tuple(regs), {'rl': rl})
                compare(label, fo, fn, tuple(regs) + (aq, rl))

    # (b) immediates
    if has_imm:
        reg_sets = [[r] * nregs for r in (8, 'a5', 0, 2, 1, 31, 'x7', 'bogus')]
        reg_sets.append(['s0', 'a1', 'a2'][:nregs])
        for imm in IMM_WINDOWS:
            for regs in reg_sets[:4]:
                compare(label, fo, fn, fill(shape, regs, imm))
        for imm in IMM_ODDBALLS:
            for regs in reg_sets:
                compare(label, fo, fn, fill(shape, regs, imm))
        for _ in range(20000):
            regs = [rng.choice(REG_FEW) for _ in range(nregs)]
            compare(label, fo, fn, fill(shape, regs, random_imm()))
        # dense sweep of everything that can possibly be in range, and a margin around it
        for imm in range(-6000, 6001):
            compare(label, fo, fn, fill(shape, reg_sets[0], imm))


# ---------------------------------------------------------------- helpers and raw encoders

def run_helpers():
    for reg in REG_ALL + list(range(-3, 40)):
        for compressed in (False, True, 0, 1, None, 'yes'):
            compare('lookup_register', orig.lookup_register, new.lookup_register, (reg, compressed))
        compare('lookup_register', orig.lookup_register, new.lookup_register, (reg,))
        compare('lookup_register', orig.lookup_register, new.lookup_register, (reg,), {'compressed': True})
    assert orig.REGISTERS == new.REGISTERS

    names = ['RegRdNotZero', 'RegRs1NotZero', 'RegRs2NotZero', 'RegRdRs1NotZero', 'RegRdRs1NotTwo',
             'ImmNotZero', 'ShamtBit5Zero']
    fields = ['rd', 'rs1', 'rs2', 'rd_rs1', 'imm']
    for name in names:
        co, cn = getattr(orig, name), getattr(new, name)
        for field in fields:
            for value in list(range(-70, 71)) + [2.0, 'a', None]:
                compare(name, co, cn, (), {field: value})
                compare(name, co, cn, (), {field: value, 'rd_rs1': 3})
        compare(name, co, cn, (), {})
        compare(name, co, cn, (1,), {})

    for field, value in itertools.product(fields, [0, 1, 2, -1, 'a']):
        co, cn = orig.constraint_not(field, value), new.constraint_not(field, value)
        for v in list(range(-4, 5)) + ['a']:
            compare('constraint_not', co, cn, (), {field: v})
            compare('constraint_not', co, cn, (), {'other': v})
    for field, bit, value in itertools.product(['imm', 'rd'], range(0, 8), [0, 1, 2, 32, 4]):
        co, cn = orig.constraint_bit(field, bit, value), new.constraint_bit(field, bit, value)
        for v in range(-70, 71):
            compare('constraint_bit', co, cn, (), {field: v})
        compare('constraint_bit', co, cn, (), {'other': 1})


RAW = {
    # name: (positional shape, keyword-only integer fields, takes cs)
    'r_type': ('rrr', ['opcode', 'funct3', 'funct7'], False),
    'i_type': ('rri', ['opcode', 'funct3'], False),
    'ij_type': ('rri', ['opcode', 'funct3'], False),
    's_type': ('rri', ['opcode', 'funct3'], False),
    'b_type': ('rri', ['opcode', 'funct3'], False),
    'u_type': ('ri', ['opcode'], False),
    'j_type': ('ri', ['opcode'], False),
    'cr_type': ('rr', ['opcode', 'funct4'], True),
    'ci_type': ('ri', ['opcode', 'funct3'], True),
    'cia_type': ('i', ['opcode', 'funct3'], True),
    'ciu_type': ('ri', ['opcode', 'funct3'], True),
    'cil_type': ('ri', ['opcode', 'funct3'], True),
    'css_type': ('ri', ['opcode', 'funct3'], True),
    'ciw_type': ('ri', ['opcode', 'funct3'], True),
    'cl_type': ('rri', ['opcode', 'funct3'], True),
    'cs_type': ('rri', ['opcode', 'funct3'], True),
    'ca_type': ('rr', ['opcode', 'funct2', 'funct6'], True),
    'cb_type': ('ri', ['opcode', 'funct3'], True),
    'cbi_type': ('ri', ['opcode', 'funct2', 'funct3'], True),
    'cj_type': ('i', ['opcode', 'funct3'], True),
}
CONSTRAINT_NAMES = ['RegRdNotZero', 'RegRs1NotZero', 'RegRs2NotZero', 'RegRdRs1NotZero', 'RegRdRs1NotTwo',
                    'ImmNotZero', 'ShamtBit5Zero']


def run_raw():
    for name, (shape, keys, takes_cs) in RAW.items():
        fo, fn = getattr(orig, name), getattr(new, name)
        for _ in range(6000):
            regs = [rng.choice(REG_FEW + [8, 9, 10, 'a3', 's1']) for _ in range(shape.count('r'))]
            imm = rng.choice(SAMPLE_IMMS) if rng.random() < 0.5 else random_imm()
            kw_o = {k: rng.choice([0, 1, 2, 3, 7, 0b1100111, 127, 1 << 12]) for k in keys}
            kw_n = dict(kw_o)
            if takes_cs:
                pick = rng.randrange(6)
                if pick == 0:
                    pass
                elif pick == 1:
                    kw_o['cs'] = kw_n['cs'] = None
                elif pick == 2:
                    kw_o['cs'] = kw_n['cs'] = []
                else:
                    chosen = rng.sample(CONSTRAINT_NAMES, rng.randint(1, 4))
                    kw_o['cs'] = [getattr(orig, c) for c in chosen]
                    kw_n['cs'] = [getattr(new, c) for c in chosen]
                    if pick == 5:
                        kw_o['cs'], kw_n['cs'] = tuple(kw_o['cs']), tuple(kw_n['cs'])
            args = fill(shape, regs, imm)
            a = outcome(fo, args, kw_o)
            b = outcome(fn, args, kw_n)
            global comparisons
            comparisons += 1
            if a != b:
                differences.append((name, args, {k: v for k, v in kw_o.items() if k != 'cs'}, a, b))

    # fence and a_type with free keyword fields
    for _ in range(6000):
        kw = {'opcode': rng.choice([0b0001111, 3]), 'funct3': rng.choice([0, 1, 7]),
              'rd': rng.choice(REG_FEW), 'rs1': rng.choice(REG_FEW), 'fm': rng.choice([0, 1, 7, 8, 15, 16, -1])}
        args = (rng.choice(list(range(-1, 18)) + FENCE_STRINGS), rng.choice(list(range(-1, 18)) + FENCE_STRINGS))
        compare('fence', orig.fence, new.fence, args, kw)
    for _ in range(6000):
        kw = {'opcode': 0b0101111, 'funct3': rng.choice([2, 3]), 'funct5': rng.choice([0, 1, 2, 3, 31, 32])}
        if rng.random() < 0.7:
            kw['aq'] = rng.choice(AQRL + AQRL_EXTRA)
        if rng.random() < 0.7:
            kw['rl'] = rng.choice(AQRL + AQRL_EXTRA)
        args = tuple(rng.choice(REG_FEW) for _ in range(3))
        compare('a_type', orig.a_type, new.a_type, args, kw)


# ---------------------------------------------------------------- known, requested deviation

def run_bool_flags(bucket):
    # type(x) == int  ->  isinstance(x, int): only a bool can tell the two apart
    # (the original raises TypeError from int(True, base=0); no ValueError on either side)
    for a, b in itertools.product([True, False, 0, 1], repeat=2):
        compare('fence', orig.FENCE, new.FENCE, (a, b), bucket=bucket)
        compare('amoadd.w', orig.AMOADD_W, new.AMOADD_W, (1, 2, 3), {'aq': a, 'rl': b}, bucket=bucket)


def main():
    for mnemonic, (table, shape) in MNEMONICS.items():
        before = comparisons
        run_mnemonic(mnemonic, table, shape)
        print('{:12s} {:9d} comparisons'.format(mnemonic, comparisons - before))
    before = comparisons
    run_helpers()
    print('{:12s} {:9d} comparisons'.format('helpers', comparisons - before))
    before = comparisons
    run_raw()
    print('{:12s} {:9d} comparisons'.format('raw encoders', comparisons - before))

    total = comparisons
    print()
    print('mnemonics covered : {}'.format(len(MNEMONICS)))
    print('comparisons       : {}'.format(total))
    print('  original returned a value  : {}'.format(ok_results))
    print('  original raised ValueError : {}'.format(value_errors))
    print('  original raised other      : {}'.format(other_errors))
    print('differences       : {}'.format(len(differences)))
    for d in differences[:40]:
        print('  DIFF', d)

    bools = []
    run_bool_flags(bools)
    value_error_related = [d for d in bools if 'ValueError' in (d[3][-1], d[4][-1])]
    print()
    print('informational (bool passed as fence set / aq / rl, isinstance vs type()==int): '
          '{} outcome changes, {} of them involving ValueError'.format(len(bools), len(value_error_related)))

    return 1 if differences else 0


if __name__ == '__main__':
    sys.exit(main())
