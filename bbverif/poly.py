"""Polynomial normal forms over opaque symbols (integer coefficients) for rules about *formulas*: size guard,
address/slice agreement, padding identity.  Algebraically equal spellings normalise to the same polynomial."""
from .core import AnalysisError
from .pathwalk import is_const, show


class Poly:
    def __init__(self, terms=None):
        self.terms = {k: v for k, v in (terms or {}).items() if v != 0}

    @staticmethod
    def const(c):
        return Poly({(): c})

    @staticmethod
    def sym(s):
        return Poly({(s,): 1})

    def __add__(self, o):
        t = dict(self.terms)
        for k, v in o.terms.items():
            t[k] = t.get(k, 0) + v
        return Poly(t)

    def __neg__(self):
        return Poly({k: -v for k, v in self.terms.items()})

    def __sub__(self, o):
        return self + (-o)

    def __mul__(self, o):
        t = {}
        for k1, v1 in self.terms.items():
            for k2, v2 in o.terms.items():
                k = tuple(sorted(k1 + k2, key=repr))
                t[k] = t.get(k, 0) + v1 * v2
        return Poly(t)

    def __eq__(self, o):
        return self.terms == o.terms

    def is_zero(self):
        return not self.terms

    def subst(self, sym, poly):
        out = Poly()
        for k, v in self.terms.items():
            term = Poly.const(v)
            for s in k:
                term = term * (poly if s == sym else Poly.sym(s))
            out = out + term
        return out

    def __repr__(self):
        parts = []
        for k, v in sorted(self.terms.items(), key=lambda t: repr(t[0])):
            name = '*'.join(show(s) if isinstance(s, tuple) else str(s) for s in k)
            parts.append('{}{}'.format('' if v == 1 and name else v, ('*' if v != 1 and name else '') + name))
        return ' + '.join(parts) or '0'


def to_poly(v, rename=None):
    """Symbolic value (pathwalk tuple) -> Poly; unknown sub-terms become opaque symbols (after renaming)."""
    rename = rename or (lambda x: x)
    if is_const(v):
        if isinstance(v[1], bool) or not isinstance(v[1], int):
            return Poly.sym(rename(v))
        return Poly.const(v[1])
    if v[0] == 'bin' and v[1] in ('+', '-', '*'):
        a, b = to_poly(v[2], rename), to_poly(v[3], rename)
        return a + b if v[1] == '+' else (a - b if v[1] == '-' else a * b)
    if v[0] == 'un' and v[1] == '-':
        return -to_poly(v[2], rename)
    return Poly.sym(rename(v))


def normalise_gt(test, rename=None):
    """A comparison between integer expressions as  P > 0 ; returns Poly or None.  `a >= b` is a - b + 1 > 0."""
    if test[0] == 'un' and test[1] == 'not':
        inner = test[2]
        if inner[0] == 'cmp':
            neg = {'<': '>=', '<=': '>', '>': '<=', '>=': '<', '==': '!=', '!=': '=='}[inner[1]]
            return normalise_gt(('cmp', neg, inner[2], inner[3]), rename)
        return None
    if test[0] != 'cmp':
        return None
    op, a, b = test[1], to_poly(test[2], rename), to_poly(test[3], rename)
    if op == '>':
        return a - b
    if op == '>=':
        return a - b + Poly.const(1)
    if op == '<':
        return b - a
    if op == '<=':
        return b - a + Poly.const(1)
    return None
