"""Normal form of Align.resolution_size:  with p = q*N + r, 0 <= r <= N-1 the padding must be 0 when r == 0 and N - r
otherwise (the unique value in [0, N-1] congruent to -p modulo N).  Decided by evaluating the method body over linear
forms a*r + b*N + c in the two cases r == 0 and 1 <= r <= N-1 (N >= 2), so any algebraically equal spelling is accepted."""
import ast

from .core import AnalysisError
from .astutil import unparse, fold, NotConstant


class Undecided(AnalysisError):
    pass


class MaskNotModulo(Exception):
    """x & (N - 1) equals x mod N for every x iff N is a power of two (theorem); `align N` is defined for any N >= 1."""


class F:
    """a*r + b*N + c"""

    def __init__(self, a=0, b=0, c=0):
        self.a, self.b, self.c = a, b, c

    def __add__(self, o):
        return F(self.a + o.a, self.b + o.b, self.c + o.c)

    def __sub__(self, o):
        return F(self.a - o.a, self.b - o.b, self.c - o.c)

    def neg(self):
        return F(-self.a, -self.b, -self.c)

    def scale(self, k):
        return F(self.a * k, self.b * k, self.c * k)

    def is_zero(self):
        return self.a == self.b == self.c == 0

    def key(self):
        return (self.a, self.b, self.c)

    def __repr__(self):
        return '{}*r + {}*N + {}'.format(self.a, self.b, self.c)


def sign(d, case):
    """sign of d over the case region: '+', '-', '0' or None (varies)."""
    if case == 'zero':            # r == 0, N >= 1:  N = 1 + t
        const, ct = d.b + d.c, d.b
        coefs = [ct]
    else:                          # r = 1 + s, N = 2 + s + t, s, t >= 0
        const = d.a + 2 * d.b + d.c
        coefs = [d.a + d.b, d.b]
    if const == 0 and all(k == 0 for k in coefs):
        return '0'
    if const > 0 and all(k >= 0 for k in coefs):
        return '+'
    if const < 0 and all(k <= 0 for k in coefs):
        return '-'
    return None


class Eval:
    def __init__(self, fn, n_expr, p_name, case):
        self.fn = fn
        self.n_expr = n_expr      # text of the expression denoting N (self.alignment)
        self.p_name = p_name
        self.case = case

    def ev(self, node, env):
        text = unparse(node)
        if text == self.n_expr:
            return F(b=1)
        if isinstance(node, ast.Name):
            if node.id in env:
                return env[node.id]
            raise Undecided('unbound name {}'.format(node.id))
        try:
            v = fold(node)
            if isinstance(v, int) and not isinstance(v, bool):
                return F(c=v)
        except NotConstant:
            pass
        if isinstance(node, ast.UnaryOp) and isinstance(node.op, ast.USub):
            return self.ev(node.operand, env).neg()
        if isinstance(node, ast.BinOp) and isinstance(node.op, ast.BitAnd):
            sides = []
            for side in (node.left, node.right):
                try:
                    v = self.ev_p(side, env)
                except Undecided:
                    v = None
                sides.append(v)
            is_mask = [isinstance(v, F) and v.key() == (0, 1, -1) for v in sides]
            if any(is_mask):
                raise MaskNotModulo(text)
            raise Undecided('bitwise and in {}'.format(text))
        if isinstance(node, ast.BinOp):
            if isinstance(node.op, ast.Mod):
                is_n = unparse(node.right) == self.n_expr
                if not is_n and isinstance(node.right, ast.Name) and node.right.id in env:
                    bound = env[node.right.id]
                    is_n = isinstance(bound, F) and bound.key() == (0, 1, 0)       # a local bound to the alignment itself
                if not is_n:
                    raise Undecided('modulus other than the alignment: {}'.format(text))
                x = self.ev_p(node.left, env)
                return self.mod_n(x, text)
            a, b = self.ev_p(node.left, env), self.ev_p(node.right, env)
            if isinstance(a, str) or isinstance(b, str):
                raise Undecided('position used outside `% alignment`: {}'.format(text))
            if isinstance(node.op, ast.Add):
                return a + b
            if isinstance(node.op, ast.Sub):
                return a - b
            if isinstance(node.op, ast.Mult):
                if a.a == 0 and a.b == 0:
                    return b.scale(a.c)
                if b.a == 0 and b.b == 0:
                    return a.scale(b.c)
            raise Undecided('operator in {}'.format(text))
        if isinstance(node, ast.IfExp):
            t = self.test(node.test, env)
            return self.ev(node.body if t else node.orelse, env)
        raise Undecided('expression {}'.format(text))

    def ev_p(self, node, env):
        """like ev, but the raw position p evaluates to the marker 'P' (= q*N + r) allowed only under % N, and
        -p / N - p forms are tracked as (sign, F)."""
        if isinstance(node, ast.Name) and node.id == self.p_name and node.id not in env:
            return 'P'
        if isinstance(node, ast.UnaryOp) and isinstance(node.op, ast.USub):
            inner = self.ev_p(node.operand, env)
            if inner == 'P':
                return '-P'
        if isinstance(node, ast.BinOp) and isinstance(node.op, (ast.Add, ast.Sub)):
            l, r = self.ev_p(node.left, env), self.ev_p(node.right, env)
            if isinstance(l, str) or isinstance(r, str):
                # (F + P), (F - P), (P + F), (P - F): residue forms
                if isinstance(node.op, ast.Add):
                    parts = [l, r]
                else:
                    parts = [l, {'P': '-P', '-P': 'P'}.get(r, r.neg() if isinstance(r, F) else r)]
                ps = [x for x in parts if isinstance(x, str)]
                fs = [x for x in parts if isinstance(x, F)]
                if len(ps) == 1:
                    return (ps[0], fs[0] if fs else F())
                raise Undecided('position used twice in {}'.format(unparse(node)))
        return self.ev(node, env)

    def mod_n(self, x, text):
        # residue of p is r; of -p is -r
        if x == 'P':
            x = F(a=1)
        elif x == '-P':
            x = F(a=-1)
        elif isinstance(x, tuple):
            base = F(a=1) if x[0] == 'P' else F(a=-1)
            x = base + x[1]
        # x = a*r + b*N + c  ->  (a*r + c) mod N   (b*N vanishes)
        x = F(x.a, 0, x.c)
        if self.case == 'zero':
            if x.c == 0:
                return F()
            raise Undecided('{}: constant residue modulo an unknown alignment'.format(text))
        if x.c == 0 and x.a == 1:
            return F(a=1)
        if x.c == 0 and x.a == -1:
            return F(a=-1, b=1)
        if x.c == 0 and x.a == 0:
            return F()
        raise Undecided('{}: residue {} modulo the alignment'.format(text, x))

    def test(self, node, env):
        if isinstance(node, ast.UnaryOp) and isinstance(node.op, ast.Not):
            return not self.test(node.operand, env)
        if isinstance(node, ast.BoolOp):
            vals = [self.test(v, env) for v in node.values]
            return all(vals) if isinstance(node.op, ast.And) else any(vals)
        if isinstance(node, ast.Compare) and len(node.ops) == 1:
            d = self.ev(node.left, env) - self.ev(node.comparators[0], env)
            s = sign(d, self.case)
            if s is None:
                raise Undecided('test {} is not constant over the case {}'.format(unparse(node), self.case))
            op = type(node.ops[0])
            return {ast.Eq: s == '0', ast.NotEq: s != '0', ast.Lt: s == '-', ast.LtE: s in '-0', ast.Gt: s == '+',
                    ast.GtE: s in '+0'}[op]
        d = self.ev(node, env)
        s = sign(d, self.case)
        if s is None:
            raise Undecided('truth of {} varies'.format(unparse(node)))
        return s != '0'

    def block(self, body, env):
        for i, st in enumerate(body):
            if isinstance(st, ast.Return):
                return self.ev(st.value, env)
            if (isinstance(st, ast.Assign) and isinstance(st.targets[0], ast.Tuple) and len(st.targets[0].elts) == 2 and all(isinstance(e, ast.Name) for e in st.targets[0].elts)
                    and isinstance(st.value, ast.Call) and isinstance(st.value.func, ast.Name) and st.value.func.id == 'divmod' and len(st.value.args) == 2 and not st.value.keywords):
                # q, r = divmod(x, N): r is x % N; the quotient has no linear form (any later use of it ends the evaluation)
                qn, rn = (e.id for e in st.targets[0].elts)
                env[rn] = self.ev(ast.copy_location(ast.BinOp(left=st.value.args[0], op=ast.Mod(), right=st.value.args[1]), st.value), env)
                env.pop(qn, None)
            elif isinstance(st, ast.Assign) and isinstance(st.targets[0], ast.Name):
                env[st.targets[0].id] = self.ev(st.value, env)
            elif isinstance(st, ast.If):
                t = self.test(st.test, env)
                return self.block(list(st.body if t else st.orelse) + list(body[i + 1:]), env)
            elif isinstance(st, ast.Expr) and isinstance(st.value, ast.Constant):
                continue
            else:
                raise Undecided('statement {}'.format(unparse(st).split('\n')[0]))
        raise Undecided('no return')


def padding_normal_form(method, n_expr='self.alignment'):
    """Returns (ok, {case: result form or error text})."""
    params = [a.arg for a in method.args.args]
    if len(params) != 2:
        raise AnalysisError('resolution_size signature changed')
    p = params[1]
    out = {}
    ok = True
    pow2_guard = any(isinstance(n, ast.Compare) and any(isinstance(x, ast.BinOp) and isinstance(x.op, ast.BitAnd) for x in ast.walk(n)) for n in ast.walk(method))
    for case, want in (('zero', F()), ('nonzero', F(a=-1, b=1))):
        try:
            got = Eval(method, n_expr, p, case).block(method.body, {})
        except MaskNotModulo as e:
            if pow2_guard:
                raise Undecided('bit mask with the alignment under a power-of-two test: {}'.format(e))
            out[case] = 'bit-mask `{}`: equals the residue modulo N only when N is a power of two'.format(e)
            out['mask'] = str(e)
            ok = False
            continue
        out[case] = repr(got)
        if got.key() != want.key():
            ok = False
    return ok, out
