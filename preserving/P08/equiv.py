#!/usr/bin/env python
"""Differential check: the modernised bronzebeard/asm.py and bronzebeard/dfu.py
must behave exactly like the versions committed at HEAD.

The ORIGINAL modules are taken from `git show HEAD:bronzebeard/<name>.py`, written
to a temp package dir and imported under another name.  Both versions are then
driven with the same inputs (fixed seed) and every observable result is compared:

  * module level tables, public names, and function signatures
  * low level helpers / instruction encoders called directly (ints, strs, bools, ...)
  * repr / str / size / args of every Item and Expr class
  * lex_tokens / parse_item on random lines
  * assemble() over a few thousand random programs (compress off and on):
    output bytes, labels, constants, exception type + text, and the log output
  * every file in examples/ (compress off and on)
  * the asm command line (in subprocesses) and the DFU flasher against a fake device

Exit status 0 means that everything matched.
"""
import contextlib
import importlib.util
import inspect
import io
import logging
import os
import random
import re
import shutil
import subprocess
import sys
import tempfile
import warnings
from functools import partial

HERE = os.path.dirname(os.path.abspath(__file__))
SEED = 20260927
N_PROGRAMS = 3000
N_LINES = 4000
N_DIRECT = 6000

FAILURES = []
COUNTS = {}


def count(kind, n=1):
    COUNTS[kind] = COUNTS.get(kind, 0) + n


def fail(kind, detail):
    FAILURES.append((kind, detail))
    if len(FAILURES) <= 25:
        print(f"MISMATCH [{kind}] {detail}"[:2000])


def check(kind, old, new, context=""):
    count(kind)
    if old != new:
        fail(kind, f"{context}\n    old: {old!r}\n    new: {new!r}")
        return False
    return True


# --------------------------------------------------------------------------
# loading both versions
# --------------------------------------------------------------------------


def git_show(name):
    return subprocess.check_output(
        ["git", "show", f"HEAD:bronzebeard/{name}.py"], cwd=HERE, text=True
    )


def load_module(mod_name, path):
    spec = importlib.util.spec_from_file_location(mod_name, path)
    module = importlib.util.module_from_spec(spec)
    sys.modules[mod_name] = module
    spec.loader.exec_module(module)
    return module


def prepare_original(tmp):
    """write the HEAD versions into <tmp>/bronzebeard_orig/ (with the definitions next to them)"""
    pkg = os.path.join(tmp, "bronzebeard_orig")
    os.makedirs(pkg)
    for name in ("asm", "dfu"):
        with open(os.path.join(pkg, f"{name}.py"), "w") as out:
            out.write(git_show(name))
    os.symlink(
        os.path.join(HERE, "bronzebeard", "definitions"),
        os.path.join(pkg, "definitions"),
    )
    return pkg


# --------------------------------------------------------------------------
# observing a call
# --------------------------------------------------------------------------


def stable(text):
    """object addresses differ from one object to the next: they are not behaviour"""
    return re.sub(r" at 0x[0-9a-fA-F]+>", " at 0x...>", text)


def describe_exception(exc):
    info = [type(exc).__name__, stable(str(exc))]
    if type(exc).__name__ == "AssemblerError":
        info.append(stable(exc.message))
        info.append(str(exc.line))
        info.append(repr(exc.line))
        info.append(stable(repr(exc.args)))
    return ("raised", tuple(info))


def observe(func, *args, **kwargs):
    try:
        result = func(*args, **kwargs)
    except BaseException as exc:  # noqa: everything is an observation here
        if isinstance(exc, KeyboardInterrupt):
            raise
        return describe_exception(exc)
    return ("returned", type(result).__name__, stable(repr(result)))


class ListHandler(logging.Handler):
    def __init__(self):
        super().__init__(level=logging.INFO)
        self.messages = []

    def emit(self, record):
        self.messages.append(record.getMessage())


def attach(module):
    handler = ListHandler()
    module.log.addHandler(handler)
    module.log.setLevel(logging.INFO)
    module.log.propagate = False
    return handler


# --------------------------------------------------------------------------
# static comparison: tables, names, signatures
# --------------------------------------------------------------------------


def describe_value(value):
    """a comparable description of a module level value"""
    if isinstance(value, partial):
        keywords = {}
        for key, val in value.keywords.items():
            if key == "cs":
                val = [describe_value(c) for c in val]
            keywords[key] = val
        return ("partial", value.func.__name__, value.args, sorted(keywords.items(), key=str))
    if inspect.isfunction(value):
        cells = tuple(c.cell_contents for c in (value.__closure__ or ()))
        return ("function", value.__qualname__, repr(cells))
    if isinstance(value, dict):
        return ("dict", [(repr(k), describe_value(v)) for k, v in value.items()])
    if isinstance(value, (set, frozenset)):
        return ("set", sorted(map(repr, value)))
    if isinstance(value, (list, tuple)):
        return (type(value).__name__, [describe_value(v) for v in value])
    if inspect.isclass(value):
        return ("class", value.__qualname__, [b.__qualname__ for b in value.__mro__])
    if inspect.ismodule(value):
        return ("module", value.__name__)
    return ("value", type(value).__name__, repr(value))


def signature_of(func):
    sig = inspect.signature(func)
    return [
        (p.name, str(p.kind), repr(p.default) if p.default is not p.empty else "<none>")
        for p in sig.parameters.values()
    ]


NEW_ONLY_OK = {
    # names that only exist because of the type hints
    "annotations", "Any", "Callable", "Dict", "List", "Mapping", "MutableMapping",
    "NoReturn", "Optional", "Tuple", "Union", "Register", "Constraint", "Env", "Predicate",
}


def compare_static(old, new, label):
    old_names = {n for n in vars(old) if not n.startswith("__")}
    new_names = {n for n in vars(new) if not n.startswith("__")}
    check(f"{label}:names-missing", set(), old_names - new_names)
    check(f"{label}:names-extra", set(), new_names - old_names - NEW_ONLY_OK)
    for name in sorted(old_names & new_names):
        a, b = getattr(old, name), getattr(new, name)
        if name == "log":
            continue
        check(f"{label}:value", describe_value(a), describe_value(b), name)
        if inspect.isfunction(a):
            check(f"{label}:signature", signature_of(a), signature_of(b), name)
        if inspect.isclass(a):
            old_members = {k for k in vars(a) if not k.startswith("__") or k in ("__init__", "__repr__", "__str__", "__len__")}
            new_members = {k for k in vars(b) if not k.startswith("__") or k in ("__init__", "__repr__", "__str__", "__len__")}
            old_members -= {"_abc_impl"}
            new_members -= {"_abc_impl"}
            check(f"{label}:class-members", sorted(old_members), sorted(new_members), name)
            check(
                f"{label}:abstract",
                sorted(getattr(a, "__abstractmethods__", ())),
                sorted(getattr(b, "__abstractmethods__", ())),
                name,
            )
            for member in sorted(old_members & new_members):
                fa, fb = vars(a)[member], vars(b)[member]
                if inspect.isfunction(fa):
                    check(f"{label}:signature", signature_of(fa), signature_of(fb), f"{name}.{member}")


# --------------------------------------------------------------------------
# random source material
# --------------------------------------------------------------------------

REG_NAMES = [f"x{i}" for i in range(32)]
REG_ALIASES = [
    "zero", "ra", "sp", "gp", "tp", "t0", "t1", "t2", "s0", "fp", "s1",
    "a0", "a1", "a2", "a3", "a4", "a5", "a6", "a7",
    "s2", "s3", "s4", "s5", "s6", "s7", "s8", "s9", "s10", "s11", "t3", "t4", "t5", "t6",
]
REG_COMMON = ["x8", "x9", "x10", "x11", "x12", "x13", "x14", "x15", "s0", "s1", "a0", "a1", "a2", "a3", "a4", "a5"]
REG_ODD = ["0", "1", "2", "5", "8", "10", "15", "31", "0x1f", "0b1000", "0o17", "32", "x32", "t7", "-1", "foo", "REGA", "REGB", "X5", "A0"]

R_NAMES = ["add", "sub", "sll", "slt", "sltu", "xor", "srl", "sra", "or", "and",
           "mul", "mulh", "mulhsu", "mulhu", "div", "divu", "rem", "remu"]
SHIFT_NAMES = ["slli", "srli", "srai"]
I_ARITH = ["addi", "slti", "sltiu", "xori", "ori", "andi"]
I_LOAD = ["lb", "lh", "lw", "lbu", "lhu"]
I_CSR = ["csrrw", "csrrs", "csrrc", "csrrwi", "csrrsi", "csrrci"]
S_NAMES = ["sb", "sh", "sw"]
B_NAMES = ["beq", "bne", "blt", "bge", "bltu", "bgeu"]
A_NAMES = ["sc.w", "amoswap.w", "amoadd.w", "amoxor.w", "amoand.w", "amoor.w",
           "amomin.w", "amomax.w", "amominu.w", "amomaxu.w"]
PSEUDO_2 = ["mv", "not", "neg", "seqz", "snez", "sltz", "sgtz"]
PSEUDO_BZ = ["beqz", "bnez", "blez", "bgez", "bltz", "bgtz"]
PSEUDO_B2 = ["bgt", "ble", "bgtu", "bleu"]
SEQ_NAMES = ["bytes", "shorts", "ints", "longs", "longlongs"]
PACK_FMTS = ["<B", "<b", "<H", "<h", "<I", "<i", "<Q", "<q", "B", ">I", "<L", "zz", "<2B", "I"]

CONST_NAMES = ["FOO", "BAR", "BAZ", "ADDR", "MASK", "REGA", "REGB", "SIZE", "NEG", "BIG"]


class Gen:
    def __init__(self, rng, p_bad):
        self.rng = rng
        self.p_bad = p_bad
        self.labels = ["start", "loop", "done", "data", "far", "here", "L1", "L2"]
        self.defined_consts = []

    # ----- atoms
    def reg(self, common=False):
        r = self.rng
        roll = r.random()
        if roll < self.p_bad:
            return r.choice(REG_ODD)
        if common and roll < 0.85:
            return r.choice(REG_COMMON)
        if roll < 0.5:
            return r.choice(REG_ALIASES)
        if roll < 0.9:
            return r.choice(REG_NAMES)
        if roll < 0.95:
            return r.choice(["0", "1", "2", "5", "8", "10", "15", "31", "0x1f", "0b1000"])
        return r.choice(["REGA", "REGB"])

    def small(self):
        r = self.rng
        return r.choice([
            0, 1, -1, 2, 4, 8, 12, 16, 31, 32, -32, -33, 63, 64, 100, 124, 127, 128, 252, 255, 256,
            508, 511, 512, -512, -528, 1020, 1023, 1024, 2047, 2048, -2048, -2049, 4094, 4096,
            r.randrange(-40, 40), r.randrange(-2100, 2100), r.randrange(0, 1100) & ~3, r.randrange(-600, 600) & ~15,
        ])

    def big(self):
        r = self.rng
        return r.choice([
            0x12345678, 0x7FFFFFFF, 0x80000000, 0xFFFFFFFF, 0xFFFFF, 0xFFFE0, 0xFFFDF, 0x80000, 0x7FFFF,
            0x08000000, 0x20000000, -0x80000000, 0x100000000, 0x800, 0xFFF, 0x1000, 0xDEADBEEF,
            r.randrange(0, 1 << 32), r.randrange(0, 1 << 20), -r.randrange(0, 1 << 31),
        ])

    def number(self):
        r = self.rng
        value = self.small() if r.random() < 0.7 else self.big()
        style = r.random()
        if style < 0.6:
            return str(value)
        if style < 0.85:
            return hex(value)
        if style < 0.93:
            return bin(value)
        return oct(value)

    def label(self):
        r = self.rng
        if r.random() < self.p_bad:
            return r.choice(["nowhere", "missing_label", "t0", "FOO", "1f"])
        return r.choice(self.labels)

    def const(self):
        r = self.rng
        if self.defined_consts and r.random() > self.p_bad:
            return r.choice(self.defined_consts)
        return r.choice(CONST_NAMES + ["UNDEFINED"])

    def expr(self, depth=0):
        r = self.rng
        roll = r.random()
        if roll < 0.45 or depth > 2:
            return self.number()
        if roll < 0.55:
            return self.const()
        if roll < 0.75:
            op = r.choice(["+", "-", "*", "|", "&", "^", "<<", ">>", "//", "%"])
            return f"{self.expr(depth + 1)} {op} {self.expr(depth + 1)}"
        if roll < 0.80:
            return f"({self.expr(depth + 1)})"
        if roll < 0.84:
            return r.choice(["'a'", "'Z'", "'0'", "'\\n'", "'\\x41'", "' '", "'ab'", "''", "'\\'"])
        if roll < 0.90:
            return f"{self.label()} - {self.label()}"
        if roll < 0.90 + self.p_bad / 2 + 0.01:
            return r.choice([
                "1 +", "* 3", "1.5", "1 == 1", "2 ** 3", "2 ** 0.5", "1 / 0", "1 // 0", '"str"', "[1]", "(1, 2)",
                "foo(1)", "1 if 1 else 2", "not 1", "~5", "-(-3)", "0x", "09", "1_000", "True", "None",
                "FOO.bar", "lambda: 1", "1 < 2", "(1", "1)", "$", "@", "a b", "FOO BAR", "0b102",
            ])
        return self.number()

    def imm(self):
        r = self.rng
        roll = r.random()
        if roll < 0.55:
            return self.number() if r.random() < 0.8 else self.expr()
        if roll < 0.65:
            return self.expr()
        inner = r.choice([self.label(), self.number(), self.const(), self.expr()])
        paren = r.random() < 0.8
        if roll < 0.73:
            return f"%hi({inner})" if paren else f"%hi {inner}"
        if roll < 0.81:
            return f"%lo({inner})" if paren else f"%lo {inner}"
        if roll < 0.87:
            return f"%offset({self.label()})" if paren else f"%offset {self.label()}"
        if roll < 0.93:
            base = r.choice(["0", "0x08000000", "0x20000000", self.number(), self.expr()])
            return f"%position({self.label()}, {base})" if paren else f"%position {self.label()} {base}"
        mod = r.choice(["%hi", "%lo"])
        base = r.choice(["0x08000000", "0x20000000"])
        return f"{mod}(%position({self.label()}, {base}))"

    def small_imm(self):
        r = self.rng
        if r.random() < 0.75:
            return str(self.small())
        return self.imm()

    # ----- lines
    def line(self):
        r = self.rng
        kind = r.choices(
            ["label", "const", "r", "shift", "i", "load", "store", "branch", "u", "j", "misc", "csr", "atomic",
             "comp", "pseudo", "data", "string", "pack", "align", "include", "error", "junk", "blank"],
            [6, 5, 8, 4, 8, 6, 6, 7, 5, 5, 3, 2, 4, 14, 14, 6, 3, 5, 3, 1, 0.3, 1 + 20 * self.p_bad, 2],
        )[0]
        text = getattr(self, "gen_" + kind)()
        if r.random() < self.p_bad:
            text = self.mutate(text)
        return self.decorate(text)

    def decorate(self, text):
        r = self.rng
        roll = r.random()
        if roll < 0.06:
            text = text + "  # a comment"
        elif roll < 0.09:
            text = text + " #x"
        if r.random() < 0.04 and not text.startswith(("string", "error", "include")):
            head, _, rest = text.partition(" ")
            text = head.upper() + (" " + rest if rest else "")
        if r.random() < 0.5:
            text = "    " + text
        if r.random() < 0.03:
            text = "\t" + text
        return text

    def mutate(self, text):
        r = self.rng
        tokens = text.split(" ")
        roll = r.random()
        if roll < 0.25 and len(tokens) > 1:
            del tokens[r.randrange(len(tokens))]
        elif roll < 0.45:
            tokens.insert(r.randrange(len(tokens) + 1), r.choice(["t0", "5", ",", "(", ")", "%hi", "%lo", "%offset", "%position", "=", ":", "foo"]))
        elif roll < 0.6 and tokens:
            tokens[r.randrange(len(tokens))] = r.choice(["", "x99", "-", "0x", "(", ")", "()", "1,", "%hi(", "%position("])
        elif roll < 0.7:
            tokens = tokens + tokens[-1:]
        elif roll < 0.8:
            tokens = tokens[:1]
        elif roll < 0.9:
            return text.replace(", ", " ")
        else:
            return text.replace(" ", "  ")
        return " ".join(tokens)

    def gen_blank(self):
        return self.rng.choice(["", "   ", "# only a comment", "    # indented comment", "\t"])

    def gen_label(self):
        r = self.rng
        name = r.choice(self.labels + ["extra", "_under", "L3"])
        if name not in self.labels:
            self.labels.append(name)
        return f"{name}:"

    def gen_const(self):
        r = self.rng
        roll = r.random()
        if roll < self.p_bad / 2:
            name = r.choice(["t0", "zero", "x5", "5", "0x10", "fp", "add", "1abc"])
        else:
            name = r.choice(CONST_NAMES)
        if name in ("REGA", "REGB"):
            value = str(r.choice([5, 8, 9, 10, 15, 31, 0, 2, 32]))
        elif r.random() < 0.1:
            value = self.imm()
        else:
            value = self.expr()
        if name not in self.defined_consts and name in CONST_NAMES:
            self.defined_consts.append(name)
        sep = r.choice([" = ", " = ", " = ", "=", " =", "= "])
        return f"{name}{sep}{value}"

    def gen_r(self):
        r = self.rng
        common = r.random() < 0.4
        name = r.choice(R_NAMES)
        rd = self.reg(common)
        rs1 = rd if r.random() < 0.45 else self.reg(common)
        return f"{name} {rd}, {rs1}, {self.reg(common)}"

    def gen_shift(self):
        r = self.rng
        common = r.random() < 0.5
        rd = self.reg(common)
        rs1 = rd if r.random() < 0.6 else self.reg(common)
        shamt = r.choice(["0", "1", "5", "16", "31", "32", "0x1f", "33", "-1", self.reg(), "SIZE"])
        return f"{r.choice(SHIFT_NAMES)} {rd}, {rs1}, {shamt}"

    def gen_i(self):
        r = self.rng
        common = r.random() < 0.4
        rd = self.reg(common)
        roll = r.random()
        if roll < 0.35:
            rs1 = rd
        elif roll < 0.5:
            rs1 = r.choice(["zero", "x0", "sp", "x2"])
        else:
            rs1 = self.reg(common)
        if r.random() < 0.15:
            rd = r.choice(["sp", "x2", "zero", "x0"])
        return f"{r.choice(I_ARITH)} {rd}, {rs1}, {self.small_imm()}"

    def gen_load(self):
        r = self.rng
        common = r.random() < 0.5
        name = r.choice(I_LOAD + ["lw", "lw", "jalr", "jalr"])
        rd = self.reg(common)
        rs1 = r.choice(["sp", "x2"]) if r.random() < 0.25 else self.reg(common)
        imm = self.small_imm()
        roll = r.random()
        if name == "jalr" and roll < 0.3:
            return f"jalr {self.reg()}"
        if name == "jalr" and roll < 0.6:
            return f"jalr {r.choice(['x0', 'zero', 'ra', 'x1', rd])}, {rs1}, 0"
        if roll < 0.5:
            return f"{name} {rd}, {imm}({rs1})"
        return f"{name} {rd}, {rs1}, {imm}"

    def gen_store(self):
        r = self.rng
        common = r.random() < 0.5
        name = r.choice(S_NAMES + ["sw", "sw"])
        rs1 = r.choice(["sp", "x2"]) if r.random() < 0.25 else self.reg(common)
        rs2 = self.reg(common)
        imm = self.small_imm()
        if r.random() < 0.5:
            return f"{name} {rs2}, {imm}({rs1})"
        return f"{name} {rs1}, {rs2}, {imm}"

    def gen_branch(self):
        r = self.rng
        common = r.random() < 0.5
        rs2 = r.choice(["zero", "x0"]) if r.random() < 0.4 else self.reg(common)
        target = self.label() if r.random() < 0.8 else self.number()
        return f"{r.choice(B_NAMES)} {self.reg(common)}, {rs2}, {target}"

    def gen_u(self):
        r = self.rng
        roll = r.random()
        if roll < 0.3:
            imm = str(r.choice([1, 5, 31, 32, -1, -32, -33, 0, 0xFFFFF, 0xFFFE0, 0xFFFDF, 0x80000, 0x7FFFF, 0x100000, -0x80000, -0x80001]))
        elif roll < 0.6:
            imm = self.imm()
        else:
            imm = self.number()
        return f"{r.choice(['lui', 'lui', 'auipc'])} {self.reg()}, {imm}"

    def gen_j(self):
        r = self.rng
        roll = r.random()
        target = self.label() if r.random() < 0.8 else self.number()
        if roll < 0.3:
            return f"jal {target}"
        rd = r.choice(["zero", "x0", "ra", "x1", self.reg()])
        return f"jal {rd}, {target}"

    def gen_misc(self):
        r = self.rng
        return r.choice([
            "ecall", "ebreak", "fence.i", "fence", "fence 0b1111, 0b1111", "fence 0, 0", "fence 1, 2",
            "fence 16, 1", "fence 1, 16", "fence -1, 0", "fence 0x3, 0xc", "fence x, y", "fence 1",
            "fence 1, 2, 3", "ecall 1", "ebreak x0", "fence.i 0", "c.nop", "c.ebreak", "c.nop 1", "c.ebreak 1",
        ])

    def gen_csr(self):
        r = self.rng
        csr = r.choice(["0x300", "0x341", "0x7ff", "0xc00", "0x800", "-1", "0", "2047", "-2048", "MASK"])
        return f"{r.choice(I_CSR)} {self.reg()}, {self.reg()}, {csr}"

    def gen_atomic(self):
        r = self.rng
        ordering = r.choice(["", "", "", " 0 0", " 1 0", " 0 1", ", 1, 1", " 2 0", " 0, -1", " 1", " 1 1 1", " x y", " 0b1 0x1"])
        if r.random() < 0.3:
            return f"lr.w {self.reg()}, {self.reg()}{ordering}"
        return f"{r.choice(A_NAMES)} {self.reg()}, {self.reg()}, {self.reg()}{ordering}"

    def gen_comp(self):
        r = self.rng
        rc = lambda: self.reg(common=True)
        choice = r.randrange(24)
        imm = self.small_imm()
        if choice == 0:
            return f"c.addi4spn {rc()}, {imm}"
        if choice == 1:
            return f"c.lw {rc()}, {imm}({rc()})" if r.random() < 0.5 else f"c.lw {rc()}, {rc()}, {imm}"
        if choice == 2:
            return f"c.sw {rc()}, {imm}({rc()})" if r.random() < 0.5 else f"c.sw {rc()}, {rc()}, {imm}"
        if choice == 3:
            return f"c.addi {self.reg()}, {imm}"
        if choice == 4:
            return f"c.jal {self.label() if r.random() < 0.3 else imm}"
        if choice == 5:
            return f"c.li {self.reg()}, {imm}"
        if choice == 6:
            return f"c.addi16sp {imm}"
        if choice == 7:
            return f"c.lui {self.reg()}, {r.choice([imm, '1', '31', '-32', '0xfffe0', '0xfffff', '0xfffdf', '32', '0'])}"
        if choice == 8:
            return f"{r.choice(['c.srli', 'c.srai', 'c.andi'])} {rc()}, {imm}"
        if choice == 9:
            return f"{r.choice(['c.sub', 'c.xor', 'c.or', 'c.and'])} {rc()}, {rc()}"
        if choice == 10:
            return f"c.j {imm}"
        if choice == 11:
            return f"{r.choice(['c.beqz', 'c.bnez'])} {rc()}, {imm}"
        if choice == 12:
            return f"c.slli {self.reg()}, {imm}"
        if choice == 13:
            return f"c.lwsp {self.reg()}, {imm}"
        if choice == 14:
            return f"{r.choice(['c.jr', 'c.jalr'])} {self.reg()}"
        if choice == 15:
            return f"{r.choice(['c.mv', 'c.add'])} {self.reg()}, {self.reg()}"
        if choice == 16:
            return f"c.swsp {self.reg()}, {imm}"
        if choice == 17:
            return f"c.j %offset({self.label()})"
        if choice == 18:
            return f"{r.choice(['c.beqz', 'c.bnez'])} {rc()}, %offset({self.label()})"
        if choice == 19:
            return f"c.jal %offset {self.label()}"
        if choice == 20:
            return r.choice(["c.nop", "c.ebreak"])
        if choice == 21:
            return f"c.mv {self.reg()}"
        if choice == 22:
            return f"c.jr {self.reg()}, {self.reg()}"
        return f"c.sub {self.reg()}, {self.reg()}, {self.reg()}"

    def gen_pseudo(self):
        r = self.rng
        choice = r.randrange(16)
        if choice == 0:
            return "nop"
        if choice in (1, 2):
            value = r.choice([self.number(), self.expr(), self.imm(), "%position(far, 0x08000000)", self.const(), self.label()])
            return f"li {self.reg()}, {value}"
        if choice == 3:
            return f"{r.choice(PSEUDO_2)} {self.reg()}, {self.reg()}"
        if choice == 4:
            return f"{r.choice(PSEUDO_BZ)} {self.reg(r.random() < 0.5)}, {self.label()}"
        if choice == 5:
            return f"{r.choice(PSEUDO_B2)} {self.reg()}, {self.reg()}, {self.label()}"
        if choice == 6:
            return f"j {self.label()}"
        if choice == 7:
            return f"jal {self.label()}"
        if choice == 8:
            return f"jr {self.reg()}"
        if choice == 9:
            return f"jalr {self.reg()}"
        if choice == 10:
            return "ret"
        if choice == 11:
            return f"call {self.label()}"
        if choice == 12:
            return f"tail {self.label()}"
        if choice == 13:
            return "fence"
        if choice == 14:
            return r.choice(["ret x1", "nop 1", "mv t0", "li t0", "j", "call", "tail a b", "not t0, t1, t2", "beqz t0", "bgt t0, t1"])
        return f"mv {self.reg()}, {self.reg()}"

    def gen_data(self):
        r = self.rng
        name = r.choice(SEQ_NAMES)
        values = []
        for _ in range(r.randrange(0, 6)):
            roll = r.random()
            if roll < 0.6:
                values.append(str(r.randrange(0, 256)))
            elif roll < 0.8:
                values.append(self.number())
            elif roll < 0.9:
                values.append(str(-r.randrange(1, 200)))
            else:
                values.append(r.choice(["0xff", "0x100", "65535", "65536", "-128", "-129", "0xffffffff", "0x100000000",
                                        "-0x80000000", "0xffffffffffffffff", "0x10000000000000000", "abc", "1.5", "FOO", "'a'"]))
        return f"{name} {' '.join(values)}".rstrip()

    def gen_string(self):
        r = self.rng
        return "string " + r.choice([
            "hello", '"world"', "hello world", "hello  ##  world", "hello\\nworld", "  hello\\\\nworld",
            "café", "über €", "tab\\there", "\\x41\\x42", "\\u00e9", "a, b, c", "(paren)", "",
            "trailing \\", "\\q", "emoji \U0001f600", "mixed é\\n\\t", "# not a comment", "null\\0byte",
        ])

    def gen_pack(self):
        r = self.rng
        if r.random() < 0.5:
            return f"pack {r.choice(PACK_FMTS)} {r.choice([self.number(), self.expr(), self.imm()])}"
        return f"{r.choice(['db', 'dh', 'dw', 'dd', 'DB'])} {r.choice([self.number(), self.expr(), self.imm()])}"

    def gen_align(self):
        r = self.rng
        return f"align {r.choice(['1', '2', '4', '4', '8', '16', '0x10', '3', '0', '-4', 'x', '4 4', '', '64', 'SIZE'])}".rstrip()

    def gen_include(self):
        r = self.rng
        return r.choice([
            "include inc.asm", 'include "inc.asm"', "include 'inc.asm'  # comment", "include missing.asm", "include",
            "include a b", "include_bytes data.bin", "include_bytes missing.bin", "include_bytes", "include_bytes a b",
            "include_bytes empty.bin", "include sub/deep.asm", "include_bytes sub/blob.bin", "INCLUDE inc.asm",
            "include_bytes data.bin # comment",
        ])

    def gen_error(self):
        r = self.rng
        return r.choice(["error something went wrong", "error", "error multi\\nline", "error café", "  error indented message"])

    def gen_junk(self):
        r = self.rng
        return r.choice([
            "bogus t0, t1", "add", "addi t0", "addi t0, t1", "lw t0", "sw t0, t1", "sw t0", "lw t0, (t1)", "lw t0, 4(t1",
            "lw t0, 4 t1)", "beq t0, t1", "beq t0, t1, a, b", "lui", "lui t0", "jal", "jal a, b, c", "=", "= 5", "FOO =",
            "FOO = = 5", ":", "a b:", "label :", "%hi(foo)", "1 2 3", "(", ")", "()", ",", ", ,", "addi t0, t1, %hi", "addi t0, t1, %hi(",
            "addi t0, t1, %position", "addi t0, t1, %position(", "addi t0, t1, %position(a)", "addi t0, t1, %offset", "addi t0, t1, %offset(a, b)",
            "c.lw a0", "c.sw a0, a1", "c.addi", "c.addi4spn", "c.lwsp a0", "string", "bytes", "pack", "pack <I", "db", "align",
            "sc.w t0", "lr.w t0", "amoadd.w t0, t1", "csrrw t0", "slli t0, t1", "li", "mv", "ADDI T0, T1, 5", "Addi t0, t1, 5",
            "addi t0, t1, 5 6", "addi t0 t1 5", "addi,t0,t1,5", "addi t0,,t1,,5", "addi\tt0,\tt1,\t5", "add t0, t1, t2, t3",
            "c.add t0", "c.jr", "c.j", "c.beqz a0", "fence.i fence.i", "x = y = 1", "FOO = 'a", "FOO = '", "a: b:", "1:", "0x10:",
        ])

    def program(self):
        r = self.rng
        n = r.choice([1, 2, 3, 5, 8, 12, 20, 40, 80])
        lines = []
        if r.random() < 0.7:
            lines.append("REGA = 10")
            lines.append(f"REGB = {r.choice([8, 9, 15, 5, 31])}")
            lines.append(f"FOO = {r.choice([42, 0x20, 4, -8, 2047, 2048, 0x12345678])}")
            self.defined_consts.extend(["REGA", "REGB", "FOO"])
        if r.random() < 0.8:
            lines.append("start:")
        body = [self.line() for _ in range(n)]
        # sprinkle the well known labels so that references usually resolve
        for name in ["loop", "done", "data", "here", "L1", "L2"]:
            if r.random() < 0.75:
                body.insert(r.randrange(len(body) + 1), f"{name}:")
        lines.extend(body)
        if r.random() < 0.75:
            if r.random() < 0.25:
                lines.append(f"bytes {' '.join(['0'] * r.choice([300, 2100, 4200]))}")
            if r.random() < 0.05:
                lines.extend(["ints 0"] * 600)
            lines.append("far:")
            lines.append("nop")
        return "\n".join(lines) + r.choice(["", "\n", "\n\n"])


# --------------------------------------------------------------------------
# dynamic comparisons
# --------------------------------------------------------------------------


def run_assemble(module, handler, source, compress, include_dirs=None, seed_env=None):
    handler.messages.clear()
    constants = dict(seed_env["constants"]) if seed_env else {}
    labels = dict(seed_env["labels"]) if seed_env else {}
    kwargs = {"constants": constants, "labels": labels, "compress": compress}
    if include_dirs is not None:
        kwargs["include_dirs"] = include_dirs
    try:
        binary = module.assemble(source, **kwargs)
        outcome = ("ok", type(binary).__name__, bytes(binary))
    except BaseException as exc:  # noqa
        if isinstance(exc, KeyboardInterrupt):
            raise
        outcome = describe_exception(exc)
    return {
        "outcome": outcome,
        "constants": list(constants.items()),
        "labels": list(labels.items()),
        "log": list(handler.messages),
    }


def compare_programs(old, new, rng, workdir):
    old_handler, new_handler = attach(old), attach(new)
    stats = {"ok": 0, "AssemblerError": 0, "other": 0}
    error_kinds = {}
    for index in range(N_PROGRAMS):
        p_bad = [0.0, 0.0, 0.01, 0.03, 0.1, 0.3][index % 6]
        source = Gen(rng, p_bad).program()
        mode = rng.random()
        target = source
        if mode < 0.1:
            path = os.path.join(workdir, f"prog_{index % 7}.asm")
            with open(path, "w", encoding="utf-8") as out:
                out.write(source)
            target = path
        include_dirs = None
        if rng.random() < 0.2:
            include_dirs = rng.choice([[], [os.path.join(workdir, "sub")], [workdir, os.path.join(workdir, "sub")], ["/nonexistent"]])
        seed_env = None
        if rng.random() < 0.05:
            seed_env = {"constants": {"PRESET": 7, "REGA": 11}, "labels": {"far": 4096, "preset_label": 8}}
        for compress in (False, True):
            a = run_assemble(old, old_handler, target, compress, include_dirs, seed_env)
            b = run_assemble(new, new_handler, target, compress, include_dirs, seed_env)
            ctx = f"program #{index} compress={compress} p_bad={p_bad}\n{source}"
            same = True
            for key in ("outcome", "constants", "labels", "log"):
                same &= check(f"assemble:{key}", a[key], b[key], ctx)
            kind = a["outcome"][0]
            if kind == "ok":
                stats["ok"] += 1
            elif a["outcome"][1][0] == "AssemblerError":
                stats["AssemblerError"] += 1
                message = a["outcome"][1][2]
                error_kinds[message.split(":")[0][:40]] = error_kinds.get(message.split(":")[0][:40], 0) + 1
            else:
                stats["other"] += 1
                error_kinds["!" + a["outcome"][1][0]] = error_kinds.get("!" + a["outcome"][1][0], 0) + 1
    print(f"  programs: {N_PROGRAMS} x 2 modes -> {stats}; {len(error_kinds)} distinct error kinds")
    # the fuzzing is only meaningful if it reaches all the interesting places
    assert stats["ok"] > N_PROGRAMS // 4, stats
    assert stats["AssemblerError"] > N_PROGRAMS // 4, stats
    assert len(error_kinds) > 40, sorted(error_kinds)
    old.log.removeHandler(old_handler)
    new.log.removeHandler(new_handler)


def compare_lines(old, new, rng):
    """lexer and parser on single lines (including what the reader would never hand over)"""
    for index in range(N_LINES):
        gen = Gen(rng, [0.0, 0.05, 0.3][index % 3])
        text = gen.line()
        results = []
        for module in (old, new):
            line = module.Line("file.asm", index, text)
            lexed = observe(module.lex_tokens, line)
            parsed = None
            shown = None
            try:
                tokens = module.lex_tokens(line)
                if len(tokens) > 0:
                    parsed = observe(module.parse_item, tokens)
                    item = module.parse_item(tokens)
                    shown = (str(item), repr(item), observe(item.size), sorted(vars(item)), repr(list(vars(item).values())[1:]))
            except BaseException as exc:  # noqa
                if isinstance(exc, KeyboardInterrupt):
                    raise
                shown = describe_exception(exc)
            results.append((lexed, parsed, shown, observe(module.lex_tokens, text)))
        check("lines", results[0], results[1], repr(text))


ODD_VALUES = [
    0, 1, -1, 2, 5, 8, 15, 16, 31, 32, 255, 256, 2047, 2048, -2048, -2049, 4095, 4096, -4096, -4097, 0xFFFFF, 0xFFFE0,
    0x7FFFF, 0x80000, -0x80000, -0x80001, 0x100000, 1048575, -1048576, 1 << 31, 1 << 32, -(1 << 31), True, False, None,
    1.0, 2.5, "0", "1", "5", "x5", "t0", "zero", "a0", "s1", "fp", "x8", "x15", "x16", "x31", "x32", "0x1f", "0b11",
    "0o7", "", " ", "foo", "T0", b"x5", (1,), "-1", "1_0", " 5", "5 ", "+5", "١",
]


def compare_direct(old, new, rng):
    """helpers and instruction encoders called directly, the way the unit tests do"""
    simple = ["lookup_register", "is_int", "sign_extend", "relocate_hi", "relocate_lo"]
    for value in ODD_VALUES:
        for name in ("lookup_register", "is_int", "relocate_hi", "relocate_lo"):
            check("direct:helper", observe(getattr(old, name), value), observe(getattr(new, name), value), f"{name}({value!r})")
        check(
            "direct:helper",
            observe(old.lookup_register, value, compressed=True),
            observe(new.lookup_register, value, compressed=True),
            f"lookup_register({value!r}, compressed=True)",
        )
        for bits in (1, 6, 12, 20, 32):
            check("direct:helper", observe(old.sign_extend, value, bits), observe(new.sign_extend, value, bits), f"sign_extend({value!r}, {bits})")
    for _ in range(2000):
        value = rng.randrange(-(1 << 33), 1 << 33)
        for name in ("relocate_hi", "relocate_lo"):
            check("direct:helper", observe(getattr(old, name), value), observe(getattr(new, name), value), f"{name}({value})")
    for field in ("rd", "imm"):
        for value in (0, 2):
            a, b = old.constraint_not(field, value), new.constraint_not(field, value)
            for probe in (0, 1, 2, True, "0"):
                check("direct:constraint", observe(a, **{field: probe, "other": 1}), observe(b, **{field: probe, "other": 1}))
            check("direct:constraint", observe(a, other=1), observe(b, other=1))
        for bit in (0, 5):
            a, b = old.constraint_bit(field, bit, 0), new.constraint_bit(field, bit, 0)
            for probe in (0, 31, 32, 33, 63, -1, "x"):
                check("direct:constraint", observe(a, **{field: probe}), observe(b, **{field: probe}))

    names = list(old.INSTRUCTIONS)
    check("direct:instruction-names", names, list(new.INSTRUCTIONS))
    pool_reg = [0, 1, 2, 5, 8, 9, 10, 15, 16, 31, 32, -1, "x0", "x2", "x8", "x15", "t0", "a0", "s1", "sp", "zero", "0x8", "9", "foo", True, None, 1.0]
    pool_imm = [0, 1, -1, 2, 4, 8, 16, 31, 32, -32, -33, 64, 124, 127, 128, 252, 255, 256, -256, 508, 511, 512, -512, 1020,
                1023, 1024, 2046, 2047, 2048, -2048, -2049, 4094, 4095, 4096, -4096, 0xFFFFF, 0xFFFE0, 0xFFFDF, 0x7FFFF, 0x80000,
                1048574, 1048575, -1048576, 1 << 20, True, False, "4", None, 2.0, 1.5]
    for _ in range(N_DIRECT):
        name = rng.choice(names)
        fa, fb = old.INSTRUCTIONS[name], new.INSTRUCTIONS[name]
        params = [p for p in inspect.signature(fa).parameters.values() if p.kind == p.POSITIONAL_OR_KEYWORD]
        args = []
        for p in params:
            if p.name == "imm":
                args.append(rng.choice(pool_imm) if rng.random() < 0.6 else rng.randrange(-5000, 5000))
            elif p.name in ("succ", "pred"):
                args.append(rng.choice([0, 1, 15, 16, -1, "0b1111", "3", "x", True, None, 1.0, "0x10"]))
            else:
                args.append(rng.choice(pool_reg))
        roll = rng.random()
        if roll < 0.05 and args:
            args.pop()
        elif roll < 0.1:
            args.append(rng.choice(pool_imm))
        kwargs = {}
        if "aq" in inspect.signature(fa).parameters and rng.random() < 0.6:
            kwargs = {"aq": rng.choice([0, 1, 2, "1", "0", "x", True, False, None, -1, "0b1"]),
                      "rl": rng.choice([0, 1, 2, "1", "0", "x", True, False, None, -1, "0x1"])}
        check("direct:encoder", observe(fa, *args, **kwargs), observe(fb, *args, **kwargs), f"{name}{tuple(args)} {kwargs}")


def compare_classes(old, new, rng):
    """repr / str / size / args of every Item and Expr subclass with assorted field values"""
    pool = [0, 5, -3, 0x1234, "t0", "x5", "name", "", "café", None, True, 1.5, (1, 2), ["a", "b"], b"\x00\xff"]
    class_names = [n for n, v in vars(old).items() if inspect.isclass(v) and v.__module__ == old.__name__]
    for name in class_names:
        ca, cb = getattr(old, name), getattr(new, name)
        if inspect.isabstract(ca):
            check("classes:abstract", observe(ca), observe(cb), name)
            continue
        params = list(inspect.signature(ca.__init__).parameters.values())[1:]
        for trial in range(40):
            values_a, values_b = [], []
            for p in params:
                if p.kind == p.VAR_POSITIONAL:
                    extra = [rng.choice(["t0", "t1", "label", "5"]) for _ in range(rng.randrange(0, 4))]
                    values_a.extend(extra)
                    values_b.extend(extra)
                    continue
                if p.name == "line":
                    values_a.append(old.Line("dir/file.asm", 12, "    some  contents"))
                    values_b.append(new.Line("dir/file.asm", 12, "    some  contents"))
                    continue
                if p.name in ("expr", "imm") and rng.random() < 0.5:
                    text = rng.choice(["1 + 2", "FOO", "'a'"])
                    values_a.append(old.Hi(old.Arithmetic(text)))
                    values_b.append(new.Hi(new.Arithmetic(text)))
                    continue
                if p.name == "data":
                    data = bytes(rng.randrange(256) for _ in range(rng.choice([0, 1, 4, 15, 16, 17, 40])))
                    values_a.append(data)
                    values_b.append(data)
                    continue
                if p.name == "values":
                    vals = [rng.choice(["1", "0x10", "-5"]) for _ in range(rng.randrange(0, 5))]
                    values_a.append(vals)
                    values_b.append(list(vals))
                    continue
                if p.name == "alignment" and trial % 2:
                    val = rng.choice([1, 2, 4, 8, 16, 3, 0])
                elif p.name == "fmt" and trial % 2:
                    val = rng.choice(PACK_FMTS)
                elif p.name == "name" and trial % 2:
                    val = rng.choice(SEQ_NAMES + ["db", "dh", "dw", "dd", "li", "call", "tail", "mv", "addi"])
                elif p.name == "contents":
                    val = rng.choice(["  addi t0, t0, 1", "", "\tx", "plain"])
                elif p.name in ("tokens",):
                    val = rng.choice([[], ["a"], ["addi", "t0", "t0", "1"]])
                else:
                    val = rng.choice(pool)
                values_a.append(val)
                values_b.append(val)
            try:
                a = ca(*values_a)
            except BaseException as exc:  # noqa
                check("classes:init", describe_exception(exc), observe(cb, *values_b), name)
                continue
            b = cb(*values_b)
            ctx = f"{name}{tuple(values_a[1:])!r}"
            check("classes:vars", [(k, repr(v)) for k, v in vars(a).items()], [(k, repr(v)) for k, v in vars(b).items()], ctx)
            check("classes:repr", observe(repr, a), observe(repr, b), ctx)
            check("classes:str", observe(str, a), observe(str, b), ctx)
            for method in ("size", "args", "__len__"):
                if hasattr(a, method) or hasattr(b, method):
                    fa, fb = getattr(a, method, None), getattr(b, method, None)
                    if callable(fa) and callable(fb):
                        check("classes:method", observe(fa), observe(fb), f"{ctx}.{method}()")
                    else:
                        check("classes:method", repr(fa), repr(fb), f"{ctx}.{method}")
            if hasattr(a, "resolution_size"):
                for position in (0, 1, 2, 3, 4, 7, 8, 100):
                    check("classes:method", observe(a.resolution_size, position), observe(b.resolution_size, position), ctx)
            if hasattr(a, "eval") and name != "Expr":
                for env in ({}, {"FOO": 3, "label": 64, "t0": 5, "name": 9, "x5": 5, "": 1}):
                    for position in (0, 16, None):
                        la, lb = old.Line("f", 1, "c"), new.Line("f", 1, "c")
                        check("classes:eval", observe(a.eval, position, env, la), observe(b.eval, position, env, lb), f"{ctx}.eval({position}, {env})")
    # Arithmetic.eval in depth: this is where python exceptions get translated
    exprs = [
        "1", "1 + 2", "0x10 | 3", "FOO", "FOO + BAR", "MISSING", "MISSING + 1", "1 +", "", " ", "'a'", "'ab'", "''", "'\\n'",
        "'\\x41'", "'\\'", "'", "1.5", "1 == 1", "True", "None", "1 / 2", "4 / 2", "4 // 2", "1 // 0", "1 % 0", "2 ** 3", "2 ** -1",
        '"s"', "[1]", "(1,)", "{}", "1 if 1 else 2", "lambda: 1", "abs(-1)", "int('5')", "len('abc')", "__import__('os')",
        "().__class__", "FOO.real", "FOO.nope", "FOO()", "FOO[0]", "1 < 2", "not 0", "~5", "-FOO", "1 << 70", "1 << -1",
        "[c for c in ().__class__.__base__.__subclasses__() if c.__name__ == 'Quitter'][0]('x', 'y')()",
        "(i for i in ()).throw(().__class__.__base__.__subclasses__()[0])", "9" * 5000, "(" * 300 + ")" * 300,
        "\x00", "1\n+2", "1;2", "x = 1", "yield 1", "*FOO", "FOO if", "t0", "zero + 1", "5.", "0b2", "0x", "1e3", "1j",
    ]
    envs = [{}, {"FOO": 3, "BAR": 4}, {"FOO": "text"}, {"FOO": 1.5}, {"FOO": None}, {"FOO": True}]
    for text in exprs:
        for env in envs:
            for position in (0, None):
                la, lb = old.Line("f", 1, "c"), new.Line("f", 1, "c")
                check(
                    "classes:arithmetic",
                    observe(old.Arithmetic(text).eval, position, env, la),
                    observe(new.Arithmetic(text).eval, position, env, lb),
                    f"Arithmetic({text[:60]!r}).eval({position}, {env})",
                )


def compare_examples(old, new):
    old_handler, new_handler = attach(old), attach(new)
    examples = sorted(os.listdir(os.path.join(HERE, "examples")))
    assert examples
    for name in examples:
        path = os.path.join(HERE, "examples", name)
        for compress in (False, True):
            a = run_assemble(old, old_handler, path, compress)
            b = run_assemble(new, new_handler, path, compress)
            for key in ("outcome", "constants", "labels", "log"):
                check(f"examples:{key}", a[key], b[key], f"{name} compress={compress}")
            assert a["outcome"][0] == "ok", (name, a["outcome"])
            assert len(a["outcome"][2]) > 0 and a["log"], name
    print(f"  examples: {len(examples)} files x 2 modes")
    old.log.removeHandler(old_handler)
    new.log.removeHandler(new_handler)


CLI_DRIVER = """
import importlib.util, sys
sys.path.insert(0, {here!r})
spec = importlib.util.spec_from_file_location("asm_under_test", {path!r})
module = importlib.util.module_from_spec(spec)
sys.modules["asm_under_test"] = module
spec.loader.exec_module(module)
sys.argv = ["bronzebeard"] + {argv!r}
module.cli_main()
"""


def run_cli(module_path, argv, cwd):
    driver = CLI_DRIVER.format(here=HERE, path=module_path, argv=argv)
    proc = subprocess.run([sys.executable, "-c", driver], cwd=cwd, capture_output=True, text=True)
    files = {}
    for name in sorted(os.listdir(cwd)):
        full = os.path.join(cwd, name)
        if os.path.isfile(full):
            with open(full, "rb") as handle:
                files[name] = handle.read()
    # tracebacks and the definitions search path mention where the module under test lives
    module_dir = os.path.dirname(module_path)
    stdout = proc.stdout.replace(module_dir, "<module dir>")
    stderr = proc.stderr.replace(module_path, "<module>").replace(module_dir, "<module dir>")
    return (proc.returncode, stdout, stderr, files)


def compare_cli(old_path, new_path, tmp):
    source_ok = "FOO = 42\nstart:\n    addi t0, zero, FOO\n    li t1, 0x12345678\n    j start\nend:\n    string hi\n    align 4\n"
    source_bad = "start:\n    addi t0, zero, 5000\n"
    source_defs = "include GD32VF103.asm\nstart:\n    li t0, RCU_BASE_ADDR\n"
    cases = [
        ["--version"],
        ["prog.asm", "--version"],
        [],
        ["nope.asm"],
        ["prog.asm"],
        ["prog.asm", "-o", "out.bin"],
        ["prog.asm", "-c", "-o", "outc.bin", "-l", "labels.txt"],
        ["prog.asm", "-v"],
        ["prog.asm", "-v", "-c", "-i", ".", "-i", "incdir"],
        ["prog.asm", "-i", "not_a_dir"],
        ["prog.asm", "--hex-offset", "0x08000000"],
        ["prog.asm", "--hex-offset", "zzz"],
        ["prog.asm", "--hex-offset", "0"],
        ["bad.asm"],
        ["bad.asm", "-v"],
        ["defs.asm"],
        ["defs.asm", "--include-definitions", "-v"],
        ["prog.asm", "--bogus-flag"],
        ["-h"],
    ]
    for argv in cases:
        results = []
        for which, module_path in (("old", old_path), ("new", new_path)):
            cwd = os.path.join(tmp, f"cli_{which}")
            shutil.rmtree(cwd, ignore_errors=True)
            os.makedirs(os.path.join(cwd, "incdir"))
            for name, text in (("prog.asm", source_ok), ("bad.asm", source_bad), ("defs.asm", source_defs)):
                with open(os.path.join(cwd, name), "w") as out:
                    out.write(text)
            result = run_cli(module_path, argv, cwd)
            # the temp dirs differ by name only: normalise them
            result = tuple(x.replace(cwd, "<cwd>") if isinstance(x, str) else x for x in result)
            results.append(result)
        check("cli", results[0], results[1], f"argv={argv}")
    # sanity: the happy path really produced a binary
    assert results is not None
    print(f"  cli: {len(cases)} invocations")


# --------------------------------------------------------------------------
# dfu
# --------------------------------------------------------------------------


class FakeDevice:
    def __init__(self, script, serial_number="GD32B-fake"):
        self.script = list(script)
        self.calls = []
        self.serial_number = serial_number

    def ctrl_transfer(self, *args, **kwargs):
        self.calls.append((args, sorted(kwargs.items(), key=lambda kv: kv[0])))
        request = args[1]
        if request == 3:  # GETSTATUS
            if self.script:
                return self.script.pop(0)
            return bytes([0, 0, 0, 0, 5, 0])
        data = kwargs.get("data_or_wLength")
        return len(data)


def run_dfu_cli(module, argv, find_result, files_dir):
    import usb.backend.libusb1
    import usb.core

    saved = (usb.core.find, usb.backend.libusb1.get_backend, sys.argv, module.time.sleep)
    find_calls = []

    def fake_find(**kwargs):
        find_calls.append(sorted((k, repr(v)) for k, v in kwargs.items()))
        return find_result

    usb.core.find = fake_find
    usb.backend.libusb1.get_backend = lambda **kwargs: ("backend", sorted(kwargs))
    sleeps = []
    module.time.sleep = sleeps.append
    sys.argv = ["bronzebeard-dfu"] + argv
    out, err = io.StringIO(), io.StringIO()
    cwd = os.getcwd()
    os.chdir(files_dir)
    try:
        with contextlib.redirect_stdout(out), contextlib.redirect_stderr(err):
            outcome = observe(module.cli_main)
    finally:
        os.chdir(cwd)
        usb.core.find, usb.backend.libusb1.get_backend, sys.argv, module.time.sleep = saved
    calls = find_result.calls if find_result is not None else None
    return (outcome, out.getvalue(), err.getvalue(), find_calls, sleeps, calls)


def compare_dfu(old, new, tmp):
    compare_static(old, new, "dfu")
    ok = bytes([0, 0, 0, 0, 5, 0])
    busy = bytes([0, 10, 0, 0, 4, 0])
    error = bytes([10, 0, 0, 0, 10, 0])
    failed = bytes([4, 1, 2, 3, 5, 0])
    for response in (ok, busy, error, failed, b"", b"\x00" * 5, b"\x00" * 7):
        results = []
        for module in (old, new):
            device = FakeDevice([response])
            sleeps = []
            saved = module.time.sleep
            module.time.sleep = sleeps.append
            try:
                results.append((observe(module.dfu_get_status, device), device.calls, sleeps))
            finally:
                module.time.sleep = saved
        check("dfu:get_status", results[0], results[1], repr(response))
    for name, args in (
        ("dfu_clear_status", ()),
        ("dfuse_erase_page", (0x08000400,)),
        ("dfuse_erase_page", (-1,)),
        ("dfuse_set_address", (0x08000000,)),
        ("dfuse_set_address", ("x",)),
        ("dfuse_download", (b"\x01\x02\x03",)),
        ("dfuse_download", (b"",)),
    ):
        results = []
        for module in (old, new):
            device = FakeDevice([])
            results.append((observe(getattr(module, name), device, *args), device.calls))
        check("dfu:requests", results[0], results[1], f"{name}{args}")

    files_dir = os.path.join(tmp, "dfu_files")
    os.makedirs(files_dir)
    for name, size in (("small.bin", 10), ("page.bin", 1024), ("two.bin", 1500), ("huge.bin", 200 * 1024), ("empty.bin", 0)):
        with open(os.path.join(files_dir, name), "wb") as out:
            out.write(bytes(i % 251 for i in range(size)))
    cases = [
        (["28e9:0189", "small.bin"], lambda: None),
        (["28e9:0189", "small.bin"], lambda: FakeDevice([ok], "GDB")),
        (["28e9:0189", "small.bin"], lambda: FakeDevice([ok], "䑇B")),
        (["28e9:0189", "two.bin"], lambda: FakeDevice([ok], "䑇8")),
        (["28e9:0189", "page.bin"], lambda: FakeDevice([error, ok], "䑇6")),
        (["28e9:0189", "empty.bin"], lambda: FakeDevice([ok], "䑇4")),
        (["28e9:0189", "huge.bin"], lambda: FakeDevice([ok], "䑇4")),
        (["28e9:0189", "small.bin"], lambda: FakeDevice([ok], "䑇9")),
        (["28e9:0189", "small.bin"], lambda: FakeDevice([ok, failed], "䑇B")),
        (["28e9:0189", "small.bin"], lambda: FakeDevice([ok, busy, ok, busy, ok, failed], "䑇B")),
        (["28e9:0189", "two.bin"], lambda: FakeDevice([ok, busy, busy, ok], "䑇B")),
        (["28e9:0189", "missing.bin"], lambda: FakeDevice([ok], "䑇B")),
        (["1234:5678", "small.bin"], lambda: FakeDevice([ok], "whatever")),
        (["nonsense", "small.bin"], lambda: FakeDevice([ok], "whatever")),
        (["zz:yy", "small.bin"], lambda: FakeDevice([ok], "whatever")),
        (["28e9:0189"], lambda: None),
        ([], lambda: None),
    ]
    for argv, make_device in cases:
        a = run_dfu_cli(old, argv, make_device(), files_dir)
        b = run_dfu_cli(new, argv, make_device(), files_dir)
        check("dfu:cli", a, b, f"argv={argv}")
    print(f"  dfu: {len(cases)} flasher runs against a fake device")


# --------------------------------------------------------------------------


def main():
    # some of the random expressions make the compiler warn (in both versions alike)
    warnings.simplefilter("ignore", SyntaxWarning)
    rng = random.Random(SEED)
    tmp = tempfile.mkdtemp(prefix="bb_equiv_")
    start_dir = os.getcwd()
    try:
        pkg = prepare_original(tmp)
        old_asm_path = os.path.join(pkg, "asm.py")
        new_asm_path = os.path.join(HERE, "bronzebeard", "asm.py")
        old = load_module("bronzebeard_orig_asm", old_asm_path)
        new = load_module("bronzebeard_new_asm", new_asm_path)
        with open(new_asm_path) as handle:
            assert handle.read() != git_show("asm"), "the working tree copy is not modernised?"

        # files that include / include_bytes lines can refer to
        workdir = os.path.join(tmp, "work")
        os.makedirs(os.path.join(workdir, "sub"))
        with open(os.path.join(workdir, "inc.asm"), "w") as out:
            out.write("# included\nINCLUDED = 99\ninc_label:\n    addi t0, t0, INCLUDED\n")
        with open(os.path.join(workdir, "sub", "deep.asm"), "w") as out:
            out.write("DEEP = 1\ninclude_bytes blob.bin\n")
        with open(os.path.join(workdir, "data.bin"), "wb") as out:
            out.write(bytes(range(37)))
        with open(os.path.join(workdir, "empty.bin"), "wb") as out:
            pass
        with open(os.path.join(workdir, "sub", "blob.bin"), "wb") as out:
            out.write(b"\xde\xad\xbe\xef\x00")
        os.chdir(workdir)

        print("static tables / names / signatures")
        compare_static(old, new, "asm")
        print("direct calls of helpers and encoders")
        compare_direct(old, new, rng)
        print("item and expression classes")
        compare_classes(old, new, rng)
        print("lexer / parser on random lines")
        compare_lines(old, new, rng)
        print("assemble() on random programs")
        compare_programs(old, new, rng, workdir)
        print("examples/")
        compare_examples(old, new)
        os.chdir(start_dir)
        print("command line")
        compare_cli(old_asm_path, new_asm_path, tmp)
        print("dfu")
        old_dfu = load_module("bronzebeard_orig_dfu", os.path.join(pkg, "dfu.py"))
        new_dfu = load_module("bronzebeard_new_dfu", os.path.join(HERE, "bronzebeard", "dfu.py"))
        compare_dfu(old_dfu, new_dfu, tmp)
    finally:
        os.chdir(start_dir)
        shutil.rmtree(tmp, ignore_errors=True)

    total = sum(COUNTS.values())
    print()
    for kind in sorted(COUNTS):
        print(f"  {kind:28} {COUNTS[kind]:7} comparisons")
    print(f"  {'total':28} {total:7} comparisons")
    if FAILURES:
        kinds = sorted({k for k, _ in FAILURES})
        print(f"\nFAILED: {len(FAILURES)} mismatches ({', '.join(kinds)})")
        return 1
    print("\nOK: the modernised modules behave exactly like the originals")
    return 0


if __name__ == "__main__":
    sys.exit(main())
