"""Obligations shared by C01 / C02 / C06: encoder level, front-end wiring, table and class invariants."""
import ast

from .core import AnalysisError, Finding
from .astutil import unparse, dotted, walk_no_nested, fold, NotConstant
from . import oracle, docs
from .encsum import (all_summaries, summary_of, oracle_spec, compare_with_oracle, injectivity, mask_after_guard, derived_operand,
                     canon, show_cells)
from .wiring import parse_item_outcomes, admits

ASM = 'bronzebeard/asm.py'


def fn_line(facts, name):
    f = facts.funcs.get(name)
    return f.lineno if f is not None else None


def binding_line(facts, mnemonic):
    try:
        return facts.binding(mnemonic).node.lineno
    except AnalysisError:
        return None


def attempt(report, rule_fn, *args, **kwargs):
    """Run one rule group; an AnalysisError inside it is a deferred no-verdict (Report.undecided), so that it cannot mask a violation
    another rule group of the same run establishes."""
    try:
        return rule_fn(*args, **kwargs)
    except AnalysisError as e:
        report.undecided(str(e))
        return None


def check_tables(report, facts, rule, want, compressed):
    """Mnemonic table keys == oracle keys (missing / extra mnemonics)."""
    have = {m for m in facts.instructions() if m.startswith('c.') == compressed}
    report.count('mnemonic bindings', len(have))
    for m in sorted(set(want) - have):
        report.fail(Finding(rule, 'INSTRUCTIONS', 'missing ' + m, 'mnemonic {} of the ISA subset is not in INSTRUCTIONS'.format(m),
                            line=facts.assign_nodes['INSTRUCTIONS'].lineno))
    for m in sorted(have - set(want)):
        # an additional mnemonic is outside the quantifier of the property and outside the reference table: not analysed
        report.note('mnemonic {} has no reference encoding in the oracle table: not analysed (outside the property\'s quantifier)'.format(m))
    if set(want) <= have:
        report.ok(rule, 'keys of INSTRUCTIONS ({}) == oracle'.format('c.*' if compressed else '32-bit'))
    return sorted(have & set(want))


def check_layout(report, facts, mnemonics, rule):
    """(a)+(b): constant bits and operand bit positions equal the oracle; no overlapping fields."""
    sums = all_summaries(facts)
    for m in mnemonics:
        s = summary_of(report, sums, m)
        if s is None:
            continue
        spec = oracle_spec(m)
        report.count('encoder summaries')
        if s.always_refused:
            report.fail(Finding(rule, '{}:{}'.format(s.encoder, m), 'always refused',
                                '{} can never be encoded: every path through {} raises'.format(m, s.encoder),
                                line=binding_line(facts, m)))
            continue
        mism = [x for x in compare_with_oracle(s, spec) if not x[0].startswith('accepted')]
        if not mism:
            report.ok(rule, '{}: all {} bits at ISA positions ({})'.format(m, spec['width'], s.encoder))
        for aspect, msg in mism:
            report.fail(Finding(rule, '{}:{}'.format(s.encoder, m), aspect + ' ' + msg.split(' is ')[0] if aspect == 'bit' else aspect,
                                '{}: {}'.format(m, msg), line=fn_line(facts, s.encoder),
                                detail={'summary': s.describe()}), instance='{} {}'.format(m, msg[:40]))
        report.sample(s.describe())


def check_injective(report, facts, mnemonics, rule):
    sums = all_summaries(facts)
    for m in mnemonics:
        s = summary_of(report, sums, m)
        if s is None or s.always_refused:
            continue
        probs = injectivity(s)
        if not probs:
            report.ok(rule, '{}: operand tuple -> word is injective on the accepted set'.format(m))
        for p, why in probs:
            report.fail(Finding(rule, '{}:{}'.format(s.encoder, m), 'operand ' + p,
                                '{}: operand {}: {}'.format(m, p, why), line=fn_line(facts, s.encoder)),
                        instance='{} {}'.format(m, p))


def check_disjoint(report, facts, mnemonics, rule, width):
    """(d): no word belongs to two mnemonics (pairwise disjoint constant patterns)."""
    sums = all_summaries(facts)
    pats = []
    for m in mnemonics:
        s = summary_of(report, sums, m)
        if s is None or s.always_refused or s.bits is None:
            continue
        pats.append((m,) + s.const_mask_match(width))
    n = 0
    for i in range(len(pats)):
        for j in range(i + 1, len(pats)):
            a, b = pats[i], pats[j]
            common = a[1] & b[1]
            n += 1
            if (a[2] & common) == (b[2] & common):
                # constant bits do not separate the two: operand constraints must (c.* only); decided by C02 reverse walk
                if width == 32:
                    report.fail(Finding(rule, 'INSTRUCTIONS', '{} vs {}'.format(a[0], b[0]),
                                        'mnemonics {} and {} share constant bits: some word encodes both'.format(a[0], b[0]),
                                        line=binding_line(facts, a[0])))
    report.count('pattern pairs compared', n)
    report.ok(rule, '{} pairs of {}-bit patterns pairwise distinguishable'.format(n, width), nontrivial=n > 0)


def check_acceptance(report, facts, mnemonics, rule):
    """(c): accepted set == legal set, both inclusions, per operand."""
    sums = all_summaries(facts)
    for m in mnemonics:
        s = summary_of(report, sums, m)
        if s is None:
            continue
        spec = oracle_spec(m)
        if s.always_refused:
            report.fail(Finding(rule, '{}:{}'.format(s.encoder, m), 'always refused',
                                '{} refuses every operand tuple'.format(m), line=binding_line(facts, m)))
            continue
        mism = [x for x in compare_with_oracle(s, spec) if x[0].startswith('accepted') or x[0] in ('arity', 'operand')]
        n_ops = len(spec['operands'])
        if not mism and s.imprecise:
            report.undecided('{}: accepted set could only be over-approximated (a test on already extracted bits); '
                             'no verdict on its equality with the legal set'.format(m))
            continue
        if not mism:
            report.ok(rule, '{}: accepted set == legal set for {} operand(s)'.format(m, n_ops), nontrivial=n_ops > 0)
        for aspect, msg in mism:
            report.fail(Finding(rule, '{}:{}'.format(s.encoder, m), aspect, '{}: {}'.format(m, msg),
                                line=fn_line(facts, s.encoder)), instance='{} {}'.format(m, aspect))


def check_mask_guard(report, facts, mnemonics, rule):
    sums = all_summaries(facts)
    seen = set()
    for m in mnemonics:
        s = summary_of(report, sums, m)
        if s is None:
            continue
        bad = mask_after_guard(s)
        report.count('mask sites examined', len(s.masks))
        for ev, msg in bad:
            key = (ev['fn'], unparse(ev['node']))
            if key in seen:
                continue
            seen.add(key)
            report.fail(Finding(rule, ev['fn'], ev['node'], msg + ' (reached via {})'.format(m), line=ev['node'].lineno),
                        instance='{} {}'.format(ev['fn'], unparse(ev['node'])))
        if not bad and s.masks:
            report.ok(rule, '{}: {} mask(s) each dominated by a fitting range guard'.format(m, len(s.masks)))


# -------------------------------------------------------------------------------------------------------------
# front end wiring

ROLE_SYNONYMS = {
    'rd': {'rd', 'rd_rs1'}, 'rs1': {'rs1', 'rd_rs1'}, 'rs2': {'rs2'}, 'rd/rs1': {'rd_rs1'},
    'imm': {'imm'}, 'nzimm': {'imm'}, 'uimm': {'imm', 'uimm'}, 'nzuimm': {'imm'}, 'nziumm': {'imm'},
    'shamt': {'shamt'}, 'csr': {'csr'}, 'succ': {'succ'}, 'pred': {'pred'}, 'aq': {'aq'}, 'rl': {'rl'},
    'offset': {'imm'},
}


def pc_relative(mnemonic):
    """Does the ISA define the immediate of this mnemonic as an offset from the instruction's own address?  (B / J formats, and the
    compressed mnemonics whose expansion is one of those: c.j, c.jal, c.beqz, c.bnez.)  Taken from the oracle, not from the code."""
    if oracle.RV32_FORMAT.get(mnemonic) in ('B', 'J'):
        return True
    spec = oracle.RVC.get(mnemonic)
    return spec is not None and oracle.RV32_FORMAT.get(spec['expands'][0]) in ('B', 'J')


def class_tables(facts):
    """{class name: set of table names} and {table name: [Outcome]}: for every mnemonic table, the parse_item outcomes a line that
    starts with one of its mnemonics can reach (decided from each path's facts about the first token, so it does not matter
    whether parse_item dispatches on the tables, on single names, through a dispatch dict or an ordered list of parsers)."""
    arms, else_outs = parse_item_outcomes(facts)
    outcomes = [o for _, _, outs in arms for o in outs] + list(else_outs)
    cls_tables = {}
    table_outcomes = {}
    for tname, table in facts.instruction_tables().items():
        for o in outcomes:
            if not o.path.head_facts or not any(f[2] for f in o.path.head_facts):
                continue            # a path that never asked about the mnemonic (labels, constants, the final refusal)
            if any(admits(facts, o.path, m) for m in table):
                table_outcomes.setdefault(tname, []).append(o)
                if o.kind == 'return' and (not o.cls or o.cls not in facts.classes):
                    raise AnalysisError('parse_item: which item class is built for the mnemonics of {} is not understood ({})'.format(
                        tname, o.cls or 'a value that is not a constructor call'))
                if o.kind == 'return' and o.cls:
                    cls_tables.setdefault(o.cls, set()).add(tname)
    return cls_tables, table_outcomes


def operand_index(prov):
    """Which source operand (token index) a constructor argument comes from, and in which shape."""
    if prov[0] == 'tok':
        return prov[1], 'token'
    if prov[0] == 'lower' and prov[1][0] == 'tok':
        return prov[1][1], 'token'
    if prov[0] == 'imm':
        inner = prov[1]
        if inner[0] == 'rest' and inner[2] == 0:
            return inner[1], 'imm-rest'
        if inner[0] == 'list':
            toks = [x for x in inner[1] if x[0] == 'tok']
            consts = [x[1] for x in inner[1] if x[0] == 'const']
            if len(toks) == 1:
                return toks[0][1], 'imm-offset' if '%offset' in consts else 'imm-token'
    if prov[0] == 'call' and prov[1] in ('Offset', 'Arithmetic') and len(prov[2]) == 1 and not prov[3] and prov[2][0][0] == 'tok':
        # the expression node built directly: Offset(tok) is what parse_immediate(['%offset', tok]) returns, Arithmetic(tok) what
        # parse_immediate([tok]) returns for a token that is not a modifier
        return prov[2][0][1], 'imm-offset' if prov[1] == 'Offset' else 'imm-token'
    if prov[0] == 'const':
        return None, 'const'
    return None, 'other'


def check_wiring(report, facts, rule, compressed, doc_text):
    """asm operand k -> parse_item unpacking -> constructor parameter -> attribute -> args() index -> encoder
    positional parameter k, for every mnemonic table; paren form routes by role."""
    cls_tables, table_outcomes = class_tables(facts)
    syntax, _ = docs.instruction_syntax(doc_text)
    tables = facts.instruction_tables()
    sums = all_summaries(facts)
    all_arms, else_outs = parse_item_outcomes(facts)
    opaque_returns = [o for _, _, outs_ in list(all_arms) + [(None, None, else_outs)] for o in outs_
                      if o.kind == 'return' and (o.cls is None or o.cls not in facts.classes)]
    unknown_head = [c for _, _, outs_ in list(all_arms) + [(None, None, else_outs)] for o in outs_ for c in getattr(o.path, 'unknown_head', ())]

    def not_consulted(what):
        """a mnemonic (table) for which no path was found is a finding only if every mnemonic test of parse_item was read"""
        if unknown_head:
            raise AnalysisError('parse_item: {}, but a test on the first token is not understood ({}): which lines reach which arm '
                                'is not decided'.format(what, unknown_head[0][:60]))

    for tname, table in tables.items():
        mns = [m for m in table if m.startswith('c.') == compressed]
        if not mns:
            continue
        outs = table_outcomes.get(tname)
        if opaque_returns:
            o = opaque_returns[0]
            raise AnalysisError('parse_item returns a value the token flow cannot follow ({}): which item is built for a line is '
                                'not understood'.format(unparse(o.node).split('\n')[0]))
        if outs is None:
            not_consulted('no path consults the mnemonic table {}'.format(tname))
            report.fail(Finding(rule, 'parse_item', 'no arm for ' + tname,
                                'mnemonic table {} is never consulted by parse_item: {} cannot be written'.format(tname, mns),
                                line=fn_line(facts, 'parse_item')))
            continue
        # the items this rule is about: instruction items.  A label / constant / directive built on a path that happens to know the
        # mnemonic (the format looked up before the chain of arms starts: `c.mv = 5` is a constant definition) is another rule's matter
        rets = [o for o in outs if o.kind == 'return' and o.cls != 'PseudoInstruction'
                and not (o.cls in facts.classes and not facts.is_subclass(o.cls, 'Instruction'))]
        if not rets:
            not_consulted('the arm for {} builds no instruction item'.format(tname))
            report.fail(Finding(rule, 'parse_item', 'no constructor for ' + tname,
                                'the arm for {} builds no instruction item'.format(tname), line=fn_line(facts, 'parse_item')))
            continue
        built = set()
        for o in rets:
            cls = o.cls
            report.count('parse paths analysed')
            if cls not in facts.classes:
                raise AnalysisError('parse_item builds unknown class {}'.format(cls))
            params = [p for p, _ in facts.init_params(cls)]
            attr_of_param = {src: attr for attr, src in facts.full_attr_order(cls) if src}
            args_attrs = facts.args_attrs(cls)
            if args_attrs is None:
                raise AnalysisError('args() of {} is not a literal list of attributes'.format(cls))
            is_comp_cls = facts.is_subclass(cls, 'CompressedInstruction')
            if is_comp_cls != compressed:
                report.fail(Finding(rule, 'parse_item', o.node, '{} mnemonics are built as {} whose size() is {}'.format(
                    tname, cls, 2 if is_comp_cls else 4), line=o.node.lineno))
            # ctor args -> params
            bound = {}
            for i, a in enumerate(o.args):
                if i < len(params):
                    bound[params[i]] = a
            for k, v in o.kwargs.items():
                bound[k] = v
            if not any(isinstance(a, tuple) and a and a[0] == 'star' for a in o.args):
                required = [p for p, d in facts.init_params(cls) if d is None]
                missing = [p for p in required if p not in bound]
                extra = len(o.args) - len(params)
                owner = facts.init_owner(cls)
                if missing or (extra > 0 and not (owner is not None and owner.init_vararg)) or any(k not in params for k in o.kwargs):
                    report.fail(Finding(rule, 'parse_item', o.node, '{} is built with {} argument(s) for the parameters {}{}: the line cannot be '
                                        'parsed'.format(cls, len(o.args) + len(o.kwargs), params,
                                                        ' (no value for {})'.format(missing) if missing else ''), line=o.node.lineno),
                                instance='{} arity {}'.format(cls, unparse(o.node)[:60]))
                    continue
            # name parameter: the constructor parameter stored into the attribute `name` (the key resolve_instructions looks the
            # encoder up with), whatever the parameter is called
            name_params = [src for attr, src, how in facts.attr_order_detailed(cls) if attr == 'name' and src and how in ('identity', 'idempotent')]
            if len(name_params) != 1:
                raise AnalysisError('{}: which constructor parameter fills the `name` attribute is not understood'.format(cls))
            nm = bound.get(name_params[0])
            if nm is not None and nm[0] not in ('tok', 'tokend', 'lower', 'const', 'imm', 'int', 'rest', 'list', 'line'):
                raise AnalysisError('parse_item: how the name field of {} is filled is not understood: {}'.format(cls, nm))
            if nm != ('lower', ('tok', 0)) and nm != ('tok', 0):
                report.fail(Finding(rule, 'parse_item', o.node, '{}: the mnemonic token does not reach the name field'.format(cls),
                                    line=o.node.lineno))
            paren = o.path.paren_form()
            # route: encoder positional index -> token index
            route = []
            ok_route = True
            detailed = {a_: (src_, how_) for a_, src_, how_ in facts.attr_order_detailed(cls)}
            for idx, attr in enumerate(args_attrs):
                param = next((p for p, a in attr_of_param.items() if a == attr), None)
                if param is None and detailed.get(attr, (None, None))[1] == 'idempotent':
                    param = detailed[attr][0]
                if param is None and detailed.get(attr, (None, 'other'))[1] != 'const':
                    # args() hands the encoder something that is not a constructor parameter stored as it came (a property, a
                    # computed attribute): where the operand comes from is not followed
                    raise AnalysisError('{}.args() returns {}, which the constructor does not store from one of its parameters: the '
                                        'route of that operand is not understood'.format(cls, attr))
                if param is None or param not in bound:
                    # default value (aq / rl / is_auipc_jump) / constant attribute
                    route.append((idx, attr, None, 'default'))
                    continue
                tok, shape = operand_index(bound[param])
                if shape == 'other':
                    raise AnalysisError('parse_item: how the {} field of {} is filled is not understood: {} ({})'.format(
                        attr, cls, bound[param], unparse(o.node).split('\n')[0]))
                route.append((idx, attr, tok, shape))
            for m in mns:
                if not admits(facts, o.path, m):
                    continue            # a line starting with m never takes this path
                built.add(m)
                s = summary_of(report, sums, m)
                spec = oracle_spec(m)
                if spec is None or s is None:
                    continue
                enc_params = s.params
                n_open = len(enc_params)
                label = '{} via {} [{}]'.format(m, cls, 'imm(reg) form' if paren else 'plain form')
                if len(args_attrs) != n_open:
                    report.fail(Finding(rule, cls + '.args', m, '{}: args() yields {} values but encoder {} takes {} operands {}'.format(
                        m, len(args_attrs), s.encoder, n_open, enc_params), line=facts.classes[cls].node.lineno), instance=label)
                    continue
                problems = []
                if not paren:
                    for idx, attr, tok, shape in route:
                        if shape in ('default', 'const'):
                            continue
                        if tok != idx + 1:
                            problems.append('source operand {} ({}) is handed to encoder parameter {} ({}) instead of parameter {}'.format(
                                tok, shape, idx + 1, enc_params[idx], tok))
                else:
                    # tokens: name A B ( C ) ; B = offset -> imm role, C = base -> rs1 role, A = the remaining register role
                    roles = [op['role'] for op in spec['operands']]
                    want = {}
                    for idx, role in enumerate(roles):
                        if role == 'rs1':
                            want[idx] = 4
                        elif role in ('imm',):
                            want[idx] = 2
                        else:
                            want[idx] = 1
                    for idx, attr, tok, shape in route:
                        if shape in ('default', 'const'):
                            continue
                        if idx in want and tok != want[idx]:
                            problems.append('in `{} A, B(C)` token {} reaches the {} field (expected token {})'.format(
                                m, tok, roles[idx], want[idx]))
                # immediates must go through parse_immediate, registers must stay raw tokens
                for idx, attr, tok, shape in route:
                    if idx >= len(spec['operands']):
                        continue
                    kind = spec['operands'][idx]['kind']
                    role = spec['operands'][idx]['role']
                    if role in ('aq', 'rl', 'succ', 'pred'):
                        continue
                    if kind == 'imm' and shape == 'token':
                        problems.append('immediate operand {} is not parsed by parse_immediate'.format(role))
                    if kind in ('reg', 'regc', 'num5') and shape.startswith('imm'):
                        problems.append('register operand {} is parsed as an immediate'.format(role))
                    if shape == 'imm-offset' and not pc_relative(m):
                        # `name operand` read as %offset(operand) = operand - position: only the target of a branch / jump is
                        # pc-relative (ISA formats B / J and the compressed forms that expand to them)
                        problems.append('a non-integer {} operand is wrapped in %offset (value - address of the instruction), but {} is not a '
                                        'branch / jump: its operand is a plain value, so the same line would encode differently depending on '
                                        'where it stands'.format(role, m))
                if problems and o.path.unknown_conds and not paren:
                    raise AnalysisError('parse_item: the path building {} for {} rests on a condition about the operand tokens that is not '
                                        'modelled ({}): whether it is the plain or the imm(reg) form is not decided'.format(
                                            cls, m, o.path.unknown_conds[0][:60]))
                if problems:
                    for pr in problems:
                        report.fail(Finding(rule, 'parse_item', o.node, '{}: {}'.format(label, pr), line=o.node.lineno), instance=label)
                else:
                    report.ok(rule, label + ': operand k -> encoder parameter k')
        for m in mns:
            if m not in built and oracle_spec(m) is not None:
                not_consulted('no path builds an item for {}'.format(m))
                report.fail(Finding(rule, 'parse_item', 'no constructor for ' + m,
                                    'no path of parse_item builds an instruction item for {} ({}): it cannot be written'.format(m, tname),
                                    line=fn_line(facts, 'parse_item')), instance=m)
        # documented syntax agrees with the oracle's operand roles
        for m in mns:
            spec = oracle_spec(m)
            doc_ops = syntax.get(m)
            if spec is None:
                continue
            if doc_ops is None:
                report.note('mnemonic {} is not documented in docs/instruction_reference.rst'.format(m))
                continue
            roles = [op['role'] for op in spec['operands']]
            opt = spec.get('optional', 0)
            cand = [roles, roles[:len(roles) - opt]] if opt else [roles]
            good = False
            for rl in cand:
                if len(rl) == len(doc_ops) and all(
                        r in ROLE_SYNONYMS.get(d.replace("'", ''), {d.replace("'", '')}) for d, r in zip(doc_ops, rl)):
                    good = True
            if good:
                report.ok(rule + '.doc', '{}: documented operand order {} == ISA roles'.format(m, doc_ops))
            else:
                report.fail(Finding(rule + '.doc', 'docs/instruction_reference.rst', m,
                                    '{}: documented operands {} do not match the roles {} the encoder implements'.format(m, doc_ops, roles),
                                    file='docs/instruction_reference.rst'), instance=m)


def rebuild_sites(facts):
    """Calls that rebuild an item from its attribute dict: ('positional', node) for `<class of item>(*d.values())`,
    ('keyword', node) for `<class of item>(**d)`, where <class of item> is `x.__class__` or `type(x)`."""
    out = []
    for fn in facts.funcs.values():
        for n in ast.walk(fn):
            if not isinstance(n, ast.Call):
                continue
            f = n.func
            dyn = (isinstance(f, ast.Attribute) and f.attr == '__class__') or \
                  (isinstance(f, ast.Call) and isinstance(f.func, ast.Name) and f.func.id == 'type' and len(f.args) == 1)
            if not dyn:
                continue
            if any(isinstance(a, ast.Starred) and isinstance(a.value, ast.Call) and isinstance(a.value.func, ast.Attribute)
                   and a.value.func.attr == 'values' for a in n.args):
                out.append(('positional', n))
            elif any(k.arg is None for k in n.keywords) and not n.args:
                out.append(('keyword', n))
            elif any(isinstance(a, ast.Starred) for a in n.args):
                out.append(('positional', n))
    return out


def tokens_reaching(prov, n_tokens):
    """(set of token indices the provenance carries, lowest index from which *all* later tokens are carried or None,
    opaque?)  opaque = the value contains an expression the token flow did not follow."""
    idx, tail, opaque = set(), None, False
    todo = [prov]
    while todo:
        v = todo.pop()
        if isinstance(v, dict):
            todo.extend(v.values())
            continue
        if isinstance(v, (list, tuple)) and (not v or not isinstance(v[0], str)):
            todo.extend(v)
            continue
        if not isinstance(v, tuple) or not v:
            continue
        k = v[0]
        if k == 'tok':
            idx.add(v[1])
        elif k == 'tokend':
            if n_tokens is not None:
                idx.add(n_tokens - v[1])
            else:
                opaque = True
        elif k == 'rest':
            if n_tokens is not None:
                idx.update(range(v[1], n_tokens - v[2]))
            else:
                tail = v[1] if tail is None else min(tail, v[1])
        elif k == 'expr':
            opaque = True
        elif k in ('const', 'line', 'ref', 'func', 'classref'):
            pass
        elif k in ('closure', 'obj'):
            opaque = True
        else:
            todo.extend(x for x in v[1:] if isinstance(x, (tuple, list, dict)))
    return idx, tail, opaque


def check_ignored_tokens(report, facts, rule):
    """Every token of an accepted instruction line must matter: on every parse_item path that builds an instruction item, each
    token of the line shape (all of them when the path fixes the number of tokens, else the mandatory ones) must

      * reach a constructor argument, or
      * be compared equal to a constant (punctuation: `(`), or
      * be validated against the one operand the form implies: `lookup_register(tok) == 2`, `tok in ('sp', 'x2')` (a literal
        collection whose members all denote one register / one spelling).

    A token that is bound and never looked at again, or only tested for membership in a table that admits different operands
    (`tok in REGISTERS`), is silently ignored: `c.lwsp x1, 8(x9)` would be accepted and encode the sp-relative form -> finding.
    A token examined by a test this rule does not understand -> no verdict (raised at the end, unless a finding was established).
    Known leniency, noted and not judged: the token after the base register of `imm(reg)` is never compared with `)`."""
    cls_tables, table_outcomes = class_tables(facts)
    arms, else_outs = parse_item_outcomes(facts)
    regs = facts.tables.get('REGISTERS') or {}
    undecided = []
    seen = set()
    n = 0
    for tname, table in facts.instruction_tables().items():
        for o in table_outcomes.get(tname, []):
            if o.kind != 'return' or not o.cls or o.cls not in facts.classes or id(o) in seen:
                continue
            if not facts.is_subclass(o.cls, 'Instruction') or o.cls == 'PseudoInstruction':
                continue
            seen.add(id(o))
            n += 1
            path = o.path
            total = path.exact_tokens
            idx, tail, opaque = tokens_reaching([o.args, o.kwargs], total)
            upto = total if total is not None else path.min_tokens
            if tail is not None:
                upto = min(upto, tail)
            who = sorted(m for m in table if admits(facts, path, m))
            label = '{} [{}]'.format(o.cls, ', '.join(who)[:40])
            paren_at = [f[1][1] for f in path.tok_facts if f[0] == 'tok_eq' and f[2] == '(' and f[3] and f[1][0] == 'tok']
            bad = False
            for k in range(upto):
                if k in idx:
                    continue
                tests = [t for t in path.tok_tests if t[0] == ('tok', k) or (total is not None and t[0] == ('tokend', total - k))]
                if total is not None and k == total - 1 and paren_at and min(paren_at) < k - 1:
                    report.note('the closing token of the `imm(reg)` form is never compared with `)` ({}): `lw x1, 8(x2 x3` is accepted; '
                                'noted, not judged'.format(tname))
                    continue

                def validates(t):
                    prov, kind, detail, pol, via = t
                    if not pol:
                        return False
                    if kind == 'eq':
                        return True
                    if kind == 'in':
                        vals = list(detail)
                        if len(vals) == 1:
                            return True
                        return bool(vals) and all(v in regs for v in vals) and len({regs[v] for v in vals}) == 1
                    return False
                if any(validates(t) for t in tests):
                    continue
                if opaque or any(t[1] == 'other' for t in tests) or any(t[1] == 'in-table' and t[2] != 'REGISTERS' and t[3] for t in tests):
                    undecided.append('{}: token {} does not reach the item and is examined by a test that is not understood as a validation ({})'.format(
                        label, k, '; '.join(str(t[2])[:50] for t in tests) or 'an argument the token flow did not follow'))
                    continue
                how = 'is only tested for membership in REGISTERS (any register is accepted) and then dropped' \
                    if any(t[1] == 'in-table' and t[3] for t in tests) else 'is bound and never looked at'
                bad = True
                report.fail(Finding(rule, 'parse_item', o.node,
                                    '{}: token {} of the accepted line shape ({} tokens) {}: it neither reaches a field of the item nor is it '
                                    'compared with the operand the form implies, so e.g. `{} ...` with any text in that position assembles as if it '
                                    'were not there: an operand the instruction cannot encode is not refused'.format(
                                        label, k, total if total is not None else 'at least {}'.format(upto), how, who[0] if who else tname),
                                    line=o.node.lineno), instance='{} token {}'.format(label, k))
            if not bad:
                report.ok(rule, '{} ({} tokens): every token reaches the item or is validated'.format(label, total if total is not None else '>= {}'.format(upto)))
    report.count('instruction parse paths checked for ignored tokens', n)
    if undecided and not report.findings:
        raise AnalysisError('parse_item: ' + undecided[0] + (' (+{} more)'.format(len(undecided) - 1) if len(undecided) > 1 else ''))


def check_rebuild_invariant(report, facts, rule):
    """Items are rebuilt from their attribute dict (`item.__class__(*vars(item).values())`): for a positional rebuild the attribute
    assignment order of __init__ must equal the constructor parameter order, each `self.x = x`; for a keyword rebuild
    (`item.__class__(**vars(item))`) every attribute must be stored under the name of the parameter it comes from (order free);
    without any rebuild site the order carries no meaning."""
    sites = rebuild_sites(facts)
    report.count('item rebuild sites', len(sites))
    positional = any(k == 'positional' for k, _ in sites)
    if not sites:
        report.note('no `item.__class__(*fields.values())` / `(**fields)` rebuild found: attribute order of the item classes is not load-bearing')
    n = 0
    for cname in facts.subclasses('Item'):
        ci = facts.classes[cname]
        if '__init__' not in ci.methods and not any('__init__' in facts.classes[b].methods for b in facts.mro(cname)[1:]):
            continue
        if any(isinstance(d, ast.Name) and d.id == 'abstractmethod' or (isinstance(d, ast.Attribute) and d.attr == 'abstractmethod')
               for m in ci.methods.values() for d in m.decorator_list):
            continue
        owner = facts.init_owner(cname)
        if owner is None:
            continue
        params = [p for p, _ in facts.init_params(cname)]
        order = facts.attr_order_detailed(cname)
        n += 1
        if owner.init_vararg:
            # PseudoInstruction(line, name, *args): never rebuilt positionally (no register/imm attributes)
            attrs = [a for a, _, _ in order]
            if {'rd', 'rs1', 'rs2', 'rd_rs1', 'imm'} & set(attrs):
                report.fail(Finding(rule, cname + '.__init__', 'vararg', 'class with *args constructor carries rebuildable fields',
                                    line=ci.node.lineno))
            else:
                report.ok(rule, cname + ': varargs class has no rebuildable fields')
            continue
        if not sites:
            report.ok(rule, '{}: never rebuilt from its attribute dict'.format(cname), nontrivial=False)
            continue
        if not facts.init_understood(cname):
            raise AnalysisError('{}.__init__ stores attributes in a way the class model does not follow (only `self.x = <parameter>` '
                                'statements and base-class calls are): whether a rebuild from vars(item) restores the item is not '
                                'decided'.format(cname))
        got = [(a, s_) for a, s_, _ in order]
        unknown = [a for a, s_, how in order if how == 'other' or (s_ is None and how != 'const')]
        if unknown:
            raise AnalysisError('{}.__init__: how the attribute(s) {} derive from the constructor parameters is not understood'.format(
                cname, unknown))
        # the i-th value of vars(item) is handed back as the i-th constructor argument (positional rebuild) / under its attribute
        # name (keyword rebuild): the item is restored iff that argument is the parameter the attribute was stored from, and storing
        # it again gives the same value (the parameter itself, or an idempotent conversion of it such as name.lower())
        if not positional:
            bad = [(a, s_) for a, s_ in got if a != s_]
            extra = [p_ for p_, d in facts.init_params(cname) if d is None and p_ not in [a for a, _ in got]]
            if not bad and not extra:
                report.ok(rule, '{}: attributes {} stored under their parameter names (keyword rebuild)'.format(cname, sorted(a for a, _ in got)))
                continue
        else:
            srcs = [s_ for _, s_ in got]
            tail_ok = all(d is not None for _, d in facts.init_params(cname)[len(srcs):])
            if srcs == params[:len(srcs)] and tail_ok:
                report.ok(rule, '{}: attribute order {} == parameter order'.format(cname, [a for a, _ in got]))
                continue
        report.fail(Finding(rule, cname + '.__init__', 'attribute order',
                            '{}: __init__ stores {} but its parameters are {}: {} rebuild would permute fields'.format(
                                cname, got, params, 'positional' if positional else 'keyword'), line=ci.node.lineno))
    report.count('item classes checked for the rebuild invariant', n)


def check_registers(report, facts, rule):
    """REGISTERS maps n, 'n', 'xn' and the ABI name of register n to n for n = 0..31 and nothing else."""
    # the table is the one the register operands are actually looked up in (read off the encoder summaries), whatever it is called
    used = set()
    sums = all_summaries(facts)
    for m in facts.instructions():
        if oracle_spec(m) is None:
            continue
        s_ = summary_of(report, sums, m)
        if s_ is not None:
            used |= set(getattr(s_, 'reg_tables', ()))
    if len(used) > 1:
        raise AnalysisError('register operands are looked up in several tables ({}): which spellings are accepted is not decided'.format(sorted(used)))
    tname = next(iter(used)) if used else 'REGISTERS'
    table = facts.tables.get(tname)
    if table is None:
        raise AnalysisError('anchor vanished: ' + tname)
    # entries added after the literal (REGISTERS['fp'] = 8, .update({...}), a setdefault loop) are folded by the program model; a write
    # it does not fold, or a function that fills the table at import time, is no verdict
    from . import tablefold
    tablefold.settle(facts, tname)
    want = {}
    for n in range(32):
        want[n] = n
        want[str(n)] = n
        want['x{}'.format(n)] = n
        want[oracle.ABI_NAMES[n]] = n
    want.update(oracle.ABI_EXTRA)
    line = getattr(facts.assign_nodes.get(tname), 'lineno', None)
    bad = 0
    for k in sorted(set(want) | set(table), key=str):
        if k not in table:
            report.fail(Finding(rule, tname, 'missing {!r}'.format(k), 'register spelling {!r} (x{}) is not accepted'.format(k, want[k]), line=line))
            bad += 1
        elif k not in want:
            report.fail(Finding(rule, tname, 'extra {!r}'.format(k), '{} accepts the non-standard spelling {!r}'.format(tname, k), line=line))
            bad += 1
        elif table[k] != want[k]:
            report.fail(Finding(rule, tname, 'entry {!r}'.format(k), 'register spelling {!r} maps to x{} instead of x{}'.format(k, table[k], want[k]), line=line))
            bad += 1
    report.count('register spellings checked', len(want))
    if not bad:
        report.ok(rule, '{}: {} spellings map to their architectural number'.format(tname, len(want)))


def check_resolve_instructions(report, facts, rule):
    """resolve_instructions, over its paths (helpers / closures / higher-order skeletons inlined): for every concrete Instruction
    class the word packed is the result of INSTRUCTIONS[item.name] called with the elements of item.args() in order (the last two
    as aq=, rl= exactly for the classes whose args() ends in aq, rl), packed '<H' exactly for CompressedInstruction else '<I'.
    See packrule.py."""
    from .packrule import check_pack_rule
    check_pack_rule(report, facts, rule)
