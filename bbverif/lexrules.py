"""Front-end rules of C13 (reader / lexer / hand-over to the parser / register numbers) stated over dataflow.

A small abstract interpreter follows *values* through a function of the analysed module: the text of a source line through
the string operations applied to it (strip / lower / replace / partition / re.sub / compiled-pattern methods ...), the token
list through splitting and filtering (comprehensions, filter(), `while '' in t: t.remove('')`, accumulator loops), the list of
physical lines through enumerate / zip(count()) / counters, Line and LineTokens objects through their constructors, and a
register operand through int(., 0) and try / except.  Local variables, tuple unpacking, conditional expressions, module-level
constants and precompiled patterns and calls of module-level (or nested) helper functions are followed; everything else becomes
`Unk`.  The rules are decided on the resulting abstract values, never on the spelling of a statement; a rule that meets `Unk`
where it needs a fact raises AnalysisError (no verdict) instead of reporting a Finding.

Nothing of the analysed repository is imported or executed; regular expressions are *parsed* with re._parser.
"""
import ast
import re
import re._parser as sre_parse
import re._constants as sre

from .core import AnalysisError, Finding
from .astutil import dotted, unparse, fold, NotConstant

MAX_INLINE_DEPTH = 4


# ================================================================================================================
# regular expressions (structure only)
# ================================================================================================================
SPACE = ('CATEGORY', str(sre.CATEGORY_SPACE))
COMMA = ('LITERAL', ord(','))


def regex_ast(pattern, flags=0):
    try:
        return sre_parse.parse(pattern, flags)
    except (re.error, TypeError, ValueError, RecursionError) as e:
        raise AnalysisError('regular expression {!r} does not parse: {}'.format(pattern, e))


def _class_items(av):
    """Items of a character class as a set, or None for a negated / unknown one."""
    out = set()
    for iop, iav in av:
        if iop == sre.LITERAL:
            out.add(('LITERAL', iav))
        elif iop == sre.CATEGORY:
            out.add(('CATEGORY', str(iav)))
        elif iop == sre.RANGE:
            lo, hi = iav
            if hi - lo > 64:
                return None
            for c in range(lo, hi + 1):
                out.add(('LITERAL', c))
        else:
            return None
    return out


class SepInfo:
    """What a split pattern consumes between tokens."""

    def __init__(self, chars, capturing, min_width, run, text, implicit_strip=False, understood=True):
        self.chars = frozenset(chars) if chars is not None else None
        self.capturing = capturing
        self.min_width = min_width
        self.run = run
        self.text = text
        self.implicit_strip = implicit_strip
        self.understood = understood

    def _key(self):
        return (self.chars, self.capturing, self.min_width, self.run, self.text, self.implicit_strip)

    def __eq__(self, other):
        return isinstance(other, SepInfo) and self._key() == other._key()

    def __hash__(self):
        return hash(self._key())

    def __repr__(self):
        return 'Sep({})'.format(self.text)


def regex_chars(tree):
    """(set of class items every match is made of, capturing?) - the set is None when the pattern can consume characters
    outside an explicit finite description (ANY, negated classes, look-arounds, back-references ...)."""
    items = set()
    state = {'capturing': False, 'ok': True}

    def walk(seq):
        for op, av in seq:
            if op == sre.LITERAL:
                items.add(('LITERAL', av))
            elif op == sre.IN:
                sub = _class_items(av)
                if sub is None:
                    state['ok'] = False
                else:
                    items.update(sub)
            elif op in (sre.MAX_REPEAT, sre.MIN_REPEAT) or str(op) == 'POSSESSIVE_REPEAT':
                walk(av[2])
            elif op == sre.SUBPATTERN:
                if av[0] is not None:
                    state['capturing'] = True
                walk(av[3])
            elif op == sre.BRANCH:
                for alt in av[1]:
                    walk(alt)
            elif str(op) == 'ATOMIC_GROUP':
                walk(av)
            else:
                state['ok'] = False
    walk(tree)
    return (items if state['ok'] else None), state['capturing']


def _is_run_of_one_class(tree):
    items = list(tree)
    if len(items) != 1:
        return False
    op, av = items[0]
    if op not in (sre.MAX_REPEAT, sre.MIN_REPEAT):
        return False
    lo, hi, sub = av
    if lo != 1 or hi != sre.MAXREPEAT:
        return False
    sub = list(sub)
    if len(sub) != 1:
        return False
    sop, sav = sub[0]
    if sop in (sre.IN, sre.LITERAL):
        return True
    if sop == sre.SUBPATTERN:
        inner = list(sav[3])
        if len(inner) == 1 and inner[0][0] == sre.BRANCH:
            return all(len(list(alt)) == 1 and list(alt)[0][0] in (sre.IN, sre.LITERAL) for alt in inner[0][1][1])
        if len(inner) == 1 and inner[0][0] in (sre.IN, sre.LITERAL):
            return True
    return False


def complement_run(pattern):
    """For a pattern `[^S]+` (greedy, no group): the class items S; also `\\S+` (S = whitespace).  None otherwise."""
    items = list(regex_ast(pattern))
    if len(items) != 1 or items[0][0] != sre.MAX_REPEAT:
        return None
    lo, hi, sub = items[0][1]
    sub = list(sub)
    if lo != 1 or hi != sre.MAXREPEAT or len(sub) != 1 or sub[0][0] != sre.IN:
        return None
    av = list(sub[0][1])
    if av and av[0][0] == sre.NEGATE:
        return _class_items(av[1:]) or None
    if len(av) == 1 and av[0][0] == sre.CATEGORY and str(av[0][1]) in ('CATEGORY_NOT_SPACE', 'CATEGORY_UNI_NOT_SPACE'):
        return {SPACE}
    return None


def separator_info(pattern):
    tree = regex_ast(pattern)
    chars, capturing = regex_chars(tree)
    lo, _hi = tree.getwidth()
    return SepInfo(chars, capturing, lo, _is_run_of_one_class(tree), repr(pattern), understood=chars is not None)


def _is_space_item(item):
    op, av = item
    if op == sre.IN:
        sub = _class_items(av)
        return sub is not None and bool(sub) and all(i == SPACE or (i[0] == 'LITERAL' and chr(i[1]).isspace()) for i in sub)
    if op == sre.LITERAL:
        return chr(av).isspace()
    return False


def flatten_groups(items):
    """The items of a pattern with plain groups (capturing or not, no inline flags, no alternation of their own) dissolved: for
    what a substitution removes, `#(.*)$` is `#.*$`."""
    out = []
    for op, av in items:
        if op == sre.SUBPATTERN and not av[1] and not av[2]:
            out.extend(flatten_groups(list(av[3])))
        else:
            out.append((op, av))
    return out


_COMPLEMENTS = [{'CATEGORY_SPACE', 'CATEGORY_NOT_SPACE'}, {'CATEGORY_DIGIT', 'CATEGORY_NOT_DIGIT'}, {'CATEGORY_WORD', 'CATEGORY_NOT_WORD'}]


def _is_any_to_eol(item):
    """One character of `anything up to the end of the line`."""
    op, av = item
    if op == sre.ANY:
        return True
    if op == sre.NOT_LITERAL:
        return av in (10, 13)
    if op == sre.IN:
        av = list(av)
        if (len(av) >= 2 and av[0][0] == sre.NEGATE
                and all(i[0] == sre.LITERAL and i[1] in (10, 13) for i in av[1:])):
            return True
        cats = {str(i[1]).replace('UNI_', '') for i in av if i[0] == sre.CATEGORY}
        return any(c <= cats for c in _COMPLEMENTS)          # [\s\S]: every character
    return False


def _is_optional_newline(item):
    op, av = item
    if op not in (sre.MAX_REPEAT, sre.MIN_REPEAT) or av[0] != 0:
        return False
    sub = list(av[2])
    if len(sub) != 1:
        return False
    if sub[0][0] == sre.LITERAL:
        return sub[0][1] in (10, 13)
    if sub[0][0] == sre.IN:
        return all(i[0] == sre.LITERAL and i[1] in (10, 13) for i in sub[0][1])
    return False


def _skip_optional_space(items):
    if items and items[0][0] in (sre.MAX_REPEAT, sre.MIN_REPEAT):
        lo, hi, sub = items[0][1]
        sub = list(sub)
        if lo == 0 and len(sub) == 1 and _is_space_item(sub[0]):
            return items[1:]
    return items


def is_comment_pattern(tree):
    """[optional whitespace] '#' followed by anything to the end of the line (a line never holds a line break)."""
    items = _skip_optional_space(flatten_groups(list(tree)))
    if len(items) < 2 or items[0] != (sre.LITERAL, ord('#')):
        return False
    op, av = items[1]
    if op not in (sre.MAX_REPEAT, sre.MIN_REPEAT) or av[0] != 0 or av[1] != sre.MAXREPEAT:
        return False
    sub = flatten_groups(list(av[2]))
    if len(sub) != 1 or not _is_any_to_eol(sub[0]):
        return False
    rest = items[2:]
    anchors = [r for r in rest if r[0] == sre.AT and r[1] in (sre.AT_END, sre.AT_END_STRING)]
    if not all(r in anchors or _is_optional_newline(r) for r in rest):
        return False
    if op == sre.MIN_REPEAT and not anchors:
        return False       # lazy and unanchored: removes the '#' only
    return True


COMMENT_WITNESS_LINES = ['addi x1, x0, 1 # set x1', 'x # a b', '# only a comment', 'lw a0, 4(sp) #c#d', 'nop #', 'li t0, 5\t# tab before']


def comment_witness(pattern, repl):
    """A source line on which re.sub(pattern, repl, line) leaves comment text behind (the pattern and the replacement are
    constants of the analysed module; only the library engine runs).  None when the samples show no difference."""
    try:
        rx = re.compile(pattern)
    except re.error:
        return None
    for line in COMMENT_WITNESS_LINES:
        try:
            got = rx.sub(repl, line)
        except (re.error, IndexError):
            return None
        if got.strip() != line.split('#')[0].strip():
            return line, got
    return None


PROGRAM_LINES_WITHOUT_HASH = ['VALUE = 100 // 7', 'addi t0, t0, 1 ; note', 'lw a0, 4(sp) ! note', "li a0, '/' @ note", 'li a0, 1 -- note', 'a = 6 /* c */ + 1',
                              'b = 7 % 3', 'c = d * 2', 'jal zero, loop', 'string a // b', 'bytes 1 2 3', 'x = (1 << 4) | 3', 'y = ~x & 0xff']


def ends_with_rest_of_line(tree):
    """The pattern ends in `anything up to the end of the line` (greedy, or anchored): whatever it starts at, it removes the
    rest of the line."""
    items = flatten_groups(list(tree))
    while items and (items[-1][0] == sre.AT and items[-1][1] in (sre.AT_END, sre.AT_END_STRING) or _is_optional_newline(items[-1])):
        items = items[:-1]
    if not items:
        return False
    op, av = items[-1]
    if op not in (sre.MAX_REPEAT, sre.MIN_REPEAT) or av[1] != sre.MAXREPEAT:
        return False
    sub = flatten_groups(list(av[2]))
    return len(sub) == 1 and _is_any_to_eol(sub[0])


def comment_start_witness(pattern, repl):
    """A program line without any `#` that re.sub(pattern, repl, line) cuts short (pattern and replacement are constants of the
    analysed module; only the library engine runs): the pattern starts comments at something that is program text.  -> (line,
    result) or None."""
    try:
        rx = re.compile(pattern)
    except re.error:
        return None
    for line in PROGRAM_LINES_WITHOUT_HASH:
        try:
            got = rx.sub(repl, line)
        except (re.error, IndexError):
            return None
        if got.split() != line.split():
            return line, got
    return None


def starts_with_hash(tree):
    items = _skip_optional_space(flatten_groups(list(tree)))
    return bool(items) and items[0] == (sre.LITERAL, ord('#'))


def parse_template(repl):
    """A replacement template as [('lit', text) | ('ref', group number)]; None when it uses forms not followed here."""
    out, buf, i = [], '', 0
    esc = {'n': '\n', 't': '\t', 'r': '\r', 'f': '\f', 'v': '\v', '\\': '\\'}
    while i < len(repl):
        c = repl[i]
        if c != '\\':
            buf += c
            i += 1
            continue
        if i + 1 >= len(repl):
            return None
        d = repl[i + 1]
        if d.isdigit():
            j = i + 2
            while j < len(repl) and repl[j].isdigit():
                j += 1
            digits = repl[i + 1:j]
            if digits[0] == '0' or len(digits) > 2:
                return None                     # octal escapes
            if buf:
                out.append(('lit', buf))
                buf = ''
            out.append(('ref', int(digits)))
            i = j
        elif d == 'g':
            m = re.match(r'g<(\d+)>', repl[i + 1:])
            if m is None:
                return None
            if buf:
                out.append(('lit', buf))
                buf = ''
            out.append(('ref', int(m.group(1))))
            i += 1 + m.end()
        elif d in esc:
            buf += esc[d]
            i += 2
        else:
            return None
    if buf:
        out.append(('lit', buf))
    return out


def single_char_set(item):
    """(set of characters, capturing group number or None) when the pattern item matches exactly one character out of a finite
    set that is spelled out; None otherwise."""
    op, av = item
    if op == sre.LITERAL:
        return {chr(av)}, None
    if op == sre.IN:
        out = set()
        for iop, iav in av:
            if iop == sre.LITERAL:
                out.add(chr(iav))
            elif iop == sre.RANGE and iav[1] - iav[0] <= 64:
                out.update(chr(c) for c in range(iav[0], iav[1] + 1))
            else:
                return None
        return (out, None) if out else None
    if op == sre.SUBPATTERN:
        group, add, dele, inner = av
        inner = list(inner)
        if add or dele or len(inner) != 1:
            return None
        r = single_char_set(inner[0])
        if r is None or r[1] is not None:
            return None
        return r[0], group
    if op == sre.BRANCH:
        out = set()
        for alt in av[1]:
            alt = list(alt)
            if len(alt) != 1:
                return None
            r = single_char_set(alt[0])
            if r is None or r[1] is not None:
                return None
            out |= r[0]
        return out, None
    return None


def padding_substitution(tree, repl):
    """re.sub(pattern, repl, .) as a rewrite that keeps one matched character and surrounds it with blanks.
    ('pad', [(char, replacement)]) - the same as str.replace per character; ('deletes', description) - the match also covers
    text that the template does not reproduce and that need not be blank; None - something else."""
    tpl = parse_template(repl)
    if tpl is None:
        return None
    refs = [(i, n) for i, (k, n) in enumerate(tpl) if k == 'ref']
    if len(refs) != 1 or not all(c in ' \t' for k, t in tpl if k == 'lit' for c in t):
        return None
    at, ref = refs[0]
    pre = ''.join(t for k, t in tpl[:at] if k == 'lit')
    post = ''.join(t for k, t in tpl[at + 1:] if k == 'lit')
    items = list(tree)
    parts = [(it, single_char_set(it)) for it in items]
    if len(parts) == 1 and parts[0][1] is not None:
        chars, group = parts[0][1]
        if ref == 0 or (group is not None and ref == group):
            if any(c.isspace() for c in chars):
                return None
            return 'pad', [(c, pre + c + post) for c in sorted(chars)]
        return None
    kept = [i for i, (it, r) in enumerate(parts) if r is not None and r[1] is not None and r[1] == ref]
    if len(kept) != 1:
        return None
    chars = parts[kept[0]][1][0]
    if any(c.isspace() for c in chars):
        return None
    dropped_text = False
    for i, (it, r) in enumerate(parts):
        if i == kept[0]:
            continue
        if it[0] == sre.AT:
            return None
        cs, _cap = regex_chars([it])
        if cs is None or not all(x == SPACE or x == COMMA or (x[0] == 'LITERAL' and chr(x[1]).isspace()) for x in cs):
            dropped_text = True          # (blanks and commas are separators either way - R13.3 - and the template writes blanks back)
    if dropped_text:
        return 'deletes', 'the match extends over text next to {} that the replacement {!r} does not put back'.format(sorted(chars), repl)
    if pre and post:
        return 'pad', [(c, pre + c + post) for c in sorted(chars)]      # blanks around the character are swallowed and re-inserted
    return None


def _sepish(c):
    return c.isspace() or c == ','


# ================================================================================================================
# abstract values
# ================================================================================================================
class Val:
    def _key(self):
        return ()

    def __eq__(self, other):
        return type(self) is type(other) and self._key() == other._key()

    def __ne__(self, other):
        return not self.__eq__(other)

    def __hash__(self):
        return hash((type(self).__name__, self._key()))

    def __repr__(self):
        return '{}{}'.format(type(self).__name__, self._key())


class Unk(Val):
    def __init__(self, why=''):
        self.why = why

    def _key(self):
        return (self.why,)


class K(Val):
    """A constant."""

    def __init__(self, value):
        self.value = value

    def _key(self):
        try:
            hash(self.value)
            return (type(self.value).__name__, self.value)
        except TypeError:
            return (type(self.value).__name__, repr(self.value))


class Op:
    def __init__(self, kind, *args, node=None):
        self.kind, self.args, self.node = kind, args, node

    def __eq__(self, other):
        return isinstance(other, Op) and (self.kind, self.args) == (other.kind, other.args)

    def __hash__(self):
        return hash((self.kind, self.args))

    def __repr__(self):
        return self.kind + (repr(self.args) if self.args else '')


class Text(Val):
    """A string derived from a named root text by a chain of operations."""

    def __init__(self, root, ops=()):
        self.root, self.ops = root, tuple(ops)

    def then(self, op):
        return Text(self.root, self.ops + (op,))

    def _key(self):
        return (self.root, self.ops)


class Toks(Val):
    """A list of tokens: `text` split by `sep`; nonempty = the empty strings were dropped."""

    def __init__(self, text, sep, nonempty, node=None, cut=None):
        self.text, self.sep, self.nonempty, self.node, self.cut = text, sep, nonempty, node, cut

    def _key(self):
        return (self.text, self.sep, self.nonempty, self.cut)

    def with_nonempty(self):
        return Toks(self.text, self.sep, True, self.node, None)


class TokEl(Val):
    """One element of a token list."""

    def __init__(self, toks):
        self.toks = toks

    def _key(self):
        return (self.toks,)


class Rx(Val):
    def __init__(self, pattern, flags=False):
        self.pattern, self.flags = pattern, flags

    def _key(self):
        return (self.pattern, self.flags)


class Match(Val):
    def __init__(self, rx, text, how='match'):
        self.rx, self.text, self.how = rx, text, how

    def _key(self):
        return (self.rx, self.text, self.how)


class Tup(Val):
    def __init__(self, items):
        self.items = tuple(items)

    def _key(self):
        return (self.items,)


class ListLit(Val):
    def __init__(self, items):
        self.items = tuple(items)

    def _key(self):
        return (self.items,)


class Len(Val):
    def __init__(self, of):
        self.of = of

    def _key(self):
        return (self.of,)


class LineV(Val):
    """A Line object.  screened = it passed a condition on its text that the rules do not classify (so what lexing it yields is
    no longer `any line of the source`)."""

    def __init__(self, contents, number, screened=False):
        self.contents, self.number, self.screened = contents, number, screened

    def _key(self):
        return (self.contents, self.number, self.screened)


class LT(Val):
    """A LineTokens object; nonempty = known to hold at least one token."""

    def __init__(self, line, toks, nonempty=False):
        self.line, self.toks, self.nonempty = line, toks, nonempty

    def _key(self):
        return (self.line, self.toks, self.nonempty)


class LexedToks(Val):
    """The token list of a LineTokens object produced by lex_tokens (content not followed here)."""

    def __init__(self, line):
        self.line = line

    def _key(self):
        return (self.line,)


class Seq(Val):
    """A homogeneous list.  kind: 'physical' (the physical lines of the source text), 'lines' (what read_lines returns),
    'derived'.  filtered = elements were dropped on the way."""

    def __init__(self, kind, elem, filtered=False, origin=''):
        self.kind, self.elem, self.filtered, self.origin = kind, elem, filtered, origin

    def _key(self):
        return (self.kind, self.elem, self.filtered, self.origin)


class Enum(Val):
    def __init__(self, seq, start):
        self.seq, self.start = seq, start

    def _key(self):
        return (self.seq, self.start)


class Count(Val):
    def __init__(self, start):
        self.start = start

    def _key(self):
        return (self.start,)


class Idx(Val):
    """base + position of the current element in `seq`; late = advanced after elements may already have been skipped."""

    def __init__(self, seq, base, late=False):
        self.seq, self.base, self.late = seq, base, late

    def _key(self):
        return (self.seq, self.base, self.late)


class Reg(Val):
    """A register operand as passed in: state 'raw' | 'int' (int(raw, base) succeeded) | 'norm' (int(raw, base) where that
    succeeds, the operand itself otherwise)."""

    def __init__(self, state, base=None):
        self.state, self.base = state, base

    def _key(self):
        return (self.state, self.base)


class Func(Val):
    def __init__(self, node, closure=None):
        self.node, self.closure = node, closure

    def _key(self):
        return (id(self.node),)


class Rec(Val):
    """A record: namedtuple instance, or an object of a small class whose __init__ stores its parameters."""

    def __init__(self, cls, fields):
        self.cls, self.fields = cls, tuple(fields)       # ((name, value), ...)

    def _key(self):
        return (self.cls, self.fields)

    def get(self, name):
        for k, v in self.fields:
            if k == name:
                return v
        return None


class RecType(Val):
    """namedtuple('Name', fields)"""

    def __init__(self, name, names):
        self.name, self.names = name, tuple(names)

    def _key(self):
        return (self.name, self.names)


class Truth(Val):
    """Result of a predicate that the rules classify from its syntax (kept so that helper predicates can be inlined)."""

    def __init__(self, what, arg):
        self.what, self.arg = what, arg

    def _key(self):
        return (self.what, self.arg)


def merge(a, b):
    if a == b:
        return a
    if isinstance(a, Rec) and isinstance(b, Rec) and a.cls == b.cls and [k for k, _ in a.fields] == [k for k, _ in b.fields]:
        return Rec(a.cls, [(k, merge(v, w)) for (k, v), (_, w) in zip(a.fields, b.fields)])
    if isinstance(a, Tup) and isinstance(b, Tup) and len(a.items) == len(b.items):
        return Tup([merge(v, w) for v, w in zip(a.items, b.items)])
    if isinstance(a, LineV) and isinstance(b, LineV) and a.contents == b.contents:
        return LineV(a.contents, Unk('number'), a.screened or b.screened)
    for x, y in ((a, b), (b, a)):
        if isinstance(x, Reg) and isinstance(y, Reg) and x.state == 'raw' and y.state == 'int':
            return Reg('norm', y.base)
        if isinstance(x, Reg) and isinstance(y, Reg) and x.state == 'norm' and y.state in ('raw', 'int') and (y.state == 'raw' or y.base == x.base):
            return x
    return Unk('merge of {!r} and {!r}'.format(a, b))


def str_test(test):
    """(polarity, subject node): polarity True when the test holds exactly when its subject is a str, False when exactly when
    it is not (for the operands the rules follow: str or int); None for anything else."""
    if isinstance(test, ast.UnaryOp) and isinstance(test.op, ast.Not):
        r = str_test(test.operand)
        return None if r is None else (not r[0], r[1])
    if (isinstance(test, ast.Call) and isinstance(test.func, ast.Name) and test.func.id == 'isinstance' and len(test.args) == 2
            and isinstance(test.args[1], ast.Name)):
        if test.args[1].id == 'str':
            return (True, test.args[0])
        if test.args[1].id in ('int', 'Line'):
            return (False, test.args[0])
    if isinstance(test, ast.Compare) and len(test.ops) == 1 and isinstance(test.comparators[0], ast.Name):
        l = test.left
        if isinstance(l, ast.Call) and isinstance(l.func, ast.Name) and l.func.id == 'type' and len(l.args) == 1:
            pos = isinstance(test.ops[0], (ast.Eq, ast.Is))
            neg = isinstance(test.ops[0], (ast.NotEq, ast.IsNot))
            if (pos or neg) and test.comparators[0].id == 'str':
                return (pos, l.args[0])
            if (pos or neg) and test.comparators[0].id in ('int', 'Line'):
                return (not pos, l.args[0])
    return None


def str_test_polarity(test):
    r = str_test(test)
    return None if r is None else r[0]


def is_empty_list(v):
    return (isinstance(v, ListLit) and not v.items) or (isinstance(v, K) and v.value == [])


# ================================================================================================================
# the interpreter
# ================================================================================================================
def assigned_names(stmts):
    out = set()

    def targets(t):
        if isinstance(t, ast.Name):
            out.add(t.id)
        elif isinstance(t, (ast.Tuple, ast.List)):
            for e in t.elts:
                targets(e)
        elif isinstance(t, ast.Starred):
            targets(t.value)

    def walk(node):
        for n in ast.iter_child_nodes(node):
            if isinstance(n, (ast.FunctionDef, ast.AsyncFunctionDef, ast.ClassDef, ast.Lambda)):
                if not isinstance(n, ast.Lambda):
                    out.add(n.name)
                continue
            if isinstance(n, ast.Assign):
                for t in n.targets:
                    targets(t)
            elif isinstance(n, (ast.AugAssign, ast.AnnAssign)):
                targets(n.target)
            elif isinstance(n, (ast.For, ast.AsyncFor)):
                targets(n.target)
            elif isinstance(n, (ast.With, ast.AsyncWith)):
                for it in n.items:
                    if it.optional_vars is not None:
                        targets(it.optional_vars)
            elif isinstance(n, ast.NamedExpr):
                targets(n.target)
            elif isinstance(n, ast.ExceptHandler) and n.name:
                out.add(n.name)
            walk(n)
    holder = ast.Module(body=list(stmts), type_ignores=[])
    walk(holder)
    return out


def lift(v):
    """A folded Python constant as an abstract value (containers element-wise)."""
    if isinstance(v, tuple):
        return Tup([lift(x) for x in v])
    if isinstance(v, list):
        return ListLit([lift(x) for x in v])
    return K(v)


def literal_items(v):
    """The elements of a literal list / tuple value, or None."""
    if isinstance(v, (ListLit, Tup)):
        return list(v.items)
    if isinstance(v, K) and isinstance(v.value, (list, tuple)):
        return [lift(x) for x in v.value]
    return None


def leaves_iteration_early(body):
    """break / continue that belong to this loop (not to a nested one)."""
    todo = list(body)
    while todo:
        n = todo.pop()
        if isinstance(n, (ast.Break, ast.Continue)):
            return True
        if isinstance(n, (ast.For, ast.AsyncFor, ast.While)):
            todo.extend(n.orelse)
            continue
        if isinstance(n, (ast.FunctionDef, ast.AsyncFunctionDef, ast.ClassDef, ast.Lambda)):
            continue
        todo.extend(ast.iter_child_nodes(n))
    return False


def target_names(t):
    if isinstance(t, ast.Name):
        return {t.id}
    if isinstance(t, (ast.Tuple, ast.List)):
        out = set()
        for e in t.elts:
            out |= target_names(e)
        return out
    if isinstance(t, ast.Starred):
        return target_names(t.value)
    return set()


class LoopCtx:
    def __init__(self, it, elem, pre_env, guard_base, node=None):
        self.it, self.elem, self.pre_env, self.guard_base = it, elem, pre_env, guard_base
        self.may_skip = False      # a statement that can end the iteration early was already passed
        self.acc = {}              # accumulator name -> (nonempty flag, appended value) or None for not understood
        self.node = node
        self.counters = set()


class Flow:
    """Abstract interpretation of one function of the analysed module."""

    def __init__(self, facts, special_calls=None, depth=0, events=None, stack=(), follow=None):
        self.facts = facts
        self.follow = follow      # None: follow every helper; else the set of module-level function names to follow
        self.special = special_calls or {}
        self.depth = depth
        self.events = events if events is not None else []
        self.stack = stack
        self.guards = []        # [(test node, truth, env at the test)]
        self.returns = []       # [(value, guards, node)]
        self.loops = []
        self.try_ok = []
        self.decisions = {}      # id(If node) -> arm taken on this run (path splitting, see run_function)
        self.lossy = []          # If nodes (outside loops) whose join lost a value that each arm knew
        self.str_guard = 0       # > 0: inside a branch taken only when the register operand is a str
        self._module_cache = {}

    # -- module level ---------------------------------------------------------------------------------------------
    def module_value(self, name):
        if name in self._module_cache:
            return self._module_cache[name]
        v = self._module_value(name)
        self._module_cache[name] = v
        return v

    def _module_value(self, name):
        f = self.facts
        if name in f.funcs:
            return Func(f.funcs[name])
        st = f.assign_nodes.get(name)
        if st is not None and isinstance(st.value, ast.Call) and dotted(st.value.func) == 're.compile':
            return self.eval(st.value, {})
        if st is not None and isinstance(st.value, ast.Call) and dotted(st.value.func) in ('namedtuple', 'collections.namedtuple') and len(st.value.args) >= 2:
            try:
                names = fold(st.value.args[1], f.consts)
            except NotConstant:
                return Unk('namedtuple with computed fields')
            if isinstance(names, str):
                names = names.replace(',', ' ').split()
            if isinstance(names, (list, tuple)) and all(isinstance(x, str) for x in names) and len(st.value.args) == 2 and not st.value.keywords:
                return RecType(name, names)
            return Unk('namedtuple form not followed')
        if st is not None and isinstance(st.value, (ast.List, ast.Tuple)) and name not in f.consts:
            return self.eval(st.value, {})          # a literal table whose entries are not all constants (compiled patterns ...)
        if name in f.consts:
            v = f.consts[name]
            if isinstance(v, (str, int, bool, type(None), bytes, tuple, list, float)):
                return K(v)
        return Unk('module name ' + name)

    # -- helpers ----------------------------------------------------------------------------------------------------
    def const(self, node, env):
        v = self.eval(node, env)
        if isinstance(v, K):
            return v.value
        raise NotConstant(unparse(node))

    def event(self, kind, value, node, env):
        self.events.append((kind, value, node, tuple(self.guards), self.stack))

    # -- expressions --------------------------------------------------------------------------------------------------
    def eval(self, node, env):
        m = getattr(self, 'e_' + type(node).__name__, None)
        if m is None:
            for ch in ast.iter_child_nodes(node):
                if isinstance(ch, ast.expr):
                    self.eval(ch, env)      # events inside
            return Unk(unparse(node)[:60])
        return m(node, env)

    def e_Constant(self, node, env):
        return K(node.value)

    def e_Name(self, node, env):
        if node.id in env:
            return env[node.id]
        if node.id in ('True', 'False', 'None'):
            return K({'True': True, 'False': False, 'None': None}[node.id])
        return self.module_value(node.id)

    def e_NamedExpr(self, node, env):
        v = self.eval(node.value, env)
        self.bind(node.target, v, env)
        return v

    def e_JoinedStr(self, node, env):
        for ch in ast.walk(node):
            if isinstance(ch, ast.FormattedValue):
                self.eval(ch.value, env)
        return Unk('f-string')

    def e_Tuple(self, node, env):
        return Tup([self.eval(e, env) for e in node.elts])

    def e_List(self, node, env):
        items = [self.eval(e, env) for e in node.elts]
        return ListLit(items)

    def e_IfExp(self, node, env):
        self.eval(node.test, env)
        et, ef = dict(env), dict(env)
        self.refine(et, node.test, True)
        self.refine(ef, node.test, False)
        a = self.eval(node.body, et)
        b = self.eval(node.orelse, ef)
        return self.merge_under(node.test, env, a, b)

    def e_BoolOp(self, node, env):
        vals = [self.eval(v, env) for v in node.values]
        if isinstance(node.op, ast.Or) and len(vals) == 2 and isinstance(vals[0], Toks) and is_empty_list(vals[1]):
            return vals[0]           # `tokens or []`
        return Unk('bool')

    def e_UnaryOp(self, node, env):
        v = self.eval(node.operand, env)
        if isinstance(v, K) and isinstance(node.op, ast.USub) and isinstance(v.value, int):
            return K(-v.value)
        return Unk('unary')

    def e_Compare(self, node, env):
        left = self.eval(node.left, env)
        for c in node.comparators:
            self.eval(c, env)
        if (len(node.ops) == 1 and isinstance(node.ops[0], (ast.In, ast.NotIn)) and isinstance(node.comparators[0], ast.Name)
                and node.comparators[0].id == 'REGISTERS' and 'REGISTERS' not in env):
            self.event('reg-lookup', left, node, env)
        return Unk('compare')

    def e_BinOp(self, node, env):
        a, b = self.eval(node.left, env), self.eval(node.right, env)
        if isinstance(node.op, (ast.Add, ast.Sub)):
            sign = 1 if isinstance(node.op, ast.Add) else -1
            if isinstance(a, Idx) and isinstance(b, K) and isinstance(b.value, int):
                return Idx(a.seq, a.base + sign * b.value, a.late)
            if isinstance(b, Idx) and isinstance(a, K) and isinstance(a.value, int) and sign == 1:
                return Idx(b.seq, b.base + a.value, b.late)
            if isinstance(a, K) and isinstance(b, K):
                try:
                    return K(a.value + b.value if sign == 1 else a.value - b.value)
                except Exception:
                    return Unk('binop')
        return Unk('binop ' + unparse(node)[:40])

    def e_Attribute(self, node, env):
        base = self.eval(node.value, env)
        if isinstance(base, LineV):
            if node.attr == 'contents':
                return base.contents
            if node.attr == 'number':
                return base.number
        if isinstance(base, LT):
            if node.attr == 'tokens':
                return base.toks
            if node.attr == 'line':
                return base.line
        if isinstance(base, Rec):
            v = base.get(node.attr)
            if v is not None:
                return v
        return Unk(unparse(node)[:60])

    def e_Subscript(self, node, env):
        base = self.eval(node.value, env)
        if isinstance(node.ctx, ast.Load) and isinstance(node.value, ast.Name) and node.value.id == 'REGISTERS' and 'REGISTERS' not in env:
            key = self.eval(node.slice, env)
            self.event('reg-lookup', key, node, env)
            return Unk('register number')
        idx = self.eval(node.slice, env) if not isinstance(node.slice, ast.Slice) else None
        if isinstance(base, Tup) and isinstance(idx, K) and isinstance(idx.value, int) and -len(base.items) <= idx.value < len(base.items):
            return base.items[idx.value]
        if isinstance(base, Rec) and isinstance(idx, K) and isinstance(idx.value, int) and -len(base.fields) <= idx.value < len(base.fields):
            return base.fields[idx.value][1]
        if isinstance(base, Seq) and isinstance(idx, Idx) and idx.seq == base and idx.base == 0 and not idx.late:
            return base.elem
        if isinstance(base, Toks) and base.cut is not None and isinstance(idx, K) and idx.value == 0:
            return self.cut_before(base.text, base.cut, node)
        return Unk(unparse(node)[:60])

    def cut_before(self, text, sep, node):
        if sep == '#':
            return text.then(Op('comment', node=node))
        return text.then(Op('unknown', 'text cut at {!r}'.format(sep), node=node))

    def e_Lambda(self, node, env):
        return Func(node, dict(env))

    def e_ListComp(self, node, env):
        return self.comprehension(node, env)

    def e_GeneratorExp(self, node, env):
        return self.comprehension(node, env)

    def comprehension(self, node, env):
        if len(node.generators) != 1 or node.generators[0].is_async:
            return Unk('nested comprehension')
        gen = node.generators[0]
        it = self.eval(gen.iter, env)
        sub = dict(env)
        if isinstance(it, Toks):
            el = TokEl(it)
            self.bind(gen.target, el, sub)
            nonempty = it.nonempty
            for c in gen.ifs:
                cls = self.emptiness(c, sub)
                if cls is not None and cls[0] == el and cls[1] is False:
                    nonempty = True
                else:
                    self.eval(node.elt, sub)
                    return Unk('token filter ' + unparse(c)[:40])
            v = self.eval(node.elt, sub)
            if v == el:
                return Toks(it.text, it.sep, nonempty, it.node)
            return Unk('token map ' + unparse(node.elt)[:40])
        if isinstance(it, (Seq, Enum)):
            seq = it.seq if isinstance(it, Enum) else it
            self.bind_iteration(gen.target, it, sub)
            ng = len(self.guards)
            for c in gen.ifs:
                self.eval(c, sub)
                self.guards.append((c, True, dict(sub)))
                self.refine(sub, c, True)
            v = self.eval(node.elt, sub)
            del self.guards[ng:]
            filtered = seq.filtered or bool(gen.ifs)
            same = isinstance(gen.target, ast.Name) and isinstance(node.elt, ast.Name) and node.elt.id == gen.target.id
            kind = seq.kind if same else 'derived'
            return Seq(kind, v, filtered, seq.origin)
        self.bind(gen.target, Unk('element'), sub)
        for c in gen.ifs:
            self.eval(c, sub)
        self.eval(node.elt, sub)
        return Unk('comprehension over ' + unparse(gen.iter)[:40])

    def bind_iteration(self, target, it, env):
        """Bind a loop / comprehension target to one element of `it`."""
        if isinstance(it, Enum) and it.start is None:
            self.bind(target, Idx(it.seq, 0), env)
        elif isinstance(it, Enum):
            if isinstance(target, (ast.Tuple, ast.List)) and len(target.elts) == 2:
                self.bind(target.elts[0], Idx(it.seq, it.start), env)
                self.bind(target.elts[1], it.seq.elem, env)
            else:
                self.bind(target, Unk('enumerate pair'), env)
        elif isinstance(it, Seq):
            self.bind(target, it.elem, env)
        elif isinstance(it, Toks):
            self.bind(target, TokEl(it), env)
        else:
            self.bind(target, Unk('element of ' + repr(it)[:40]), env)

    # -- calls ------------------------------------------------------------------------------------------------------
    def e_Call(self, node, env):
        fname = dotted(node.func)
        args = [self.eval(a, env) for a in node.args if not isinstance(a, ast.Starred)]
        kw = {k.arg: self.eval(k.value, env) for k in node.keywords if k.arg is not None}
        starred = any(isinstance(a, ast.Starred) for a in node.args) or any(k.arg is None for k in node.keywords)
        if starred:
            for a in node.args:
                if isinstance(a, ast.Starred):
                    self.eval(a.value, env)
            return Unk('call with * / **')
        if fname and fname.startswith('re.') and 're' not in env:
            return self.call_re(fname[3:], None, args, kw, node)
        if isinstance(node.func, ast.Attribute):
            recv = self.eval(node.func.value, env)
            return self.call_method(recv, node.func.attr, args, kw, node, env)
        if isinstance(node.func, ast.Name):
            name = node.func.id
            if name in env:
                f = env[name]
                if isinstance(f, Func):
                    return self.inline(f, args, kw, node)
                return Unk('call of local ' + name)
            if name in self.special:
                return self.special[name](self, args, kw, node, env)
            rt = self.module_value(name) if name not in self.facts.funcs and name not in self.facts.classes else None
            if isinstance(rt, RecType):
                if len(args) > len(rt.names) or set(kw) - set(rt.names):
                    return Unk('record arity')
                bound = dict(zip(rt.names, args))
                bound.update(kw)
                if set(bound) != set(rt.names):
                    return Unk('record with defaults')
                return Rec(rt.name, [(k, bound[k]) for k in rt.names])
            b = getattr(self, 'b_' + name, None)
            if b is not None and name not in self.facts.funcs and name not in self.facts.classes:
                return b(args, kw, node, env)
            if name in self.facts.classes:
                return self.construct(name, args, kw, node, env)
            if name in self.facts.funcs:
                return self.inline(Func(self.facts.funcs[name]), args, kw, node)
            return Unk('call of ' + name)
        self.eval(node.func, env)
        return Unk('call')

    def _str(self, v):
        return v.value if isinstance(v, K) and isinstance(v.value, str) else None

    def call_re(self, meth, rx, args, kw, node):
        """re.<meth>(pattern, ...) when rx is None, <compiled>.<meth>(...) otherwise."""
        if meth == 'compile' and rx is None:
            p = self._str(args[0]) if args else None
            if p is None:
                return Unk('re.compile of a non-literal')
            return Rx(p, flags=len(args) > 1 or 'flags' in kw)
        if rx is None:
            p = self._str(args[0]) if args else self._str(kw.get('pattern', Unk()))
            if p is None:
                return Unk('re.{} with a non-literal pattern'.format(meth))
            rx = Rx(p, flags='flags' in kw)
            args = args[1:]
        if meth == 'sub':
            names = ['repl', 'string', 'count', 'flags']
            a = dict(zip(names, args))
            a.update(kw)
            subject, repl = a.get('string'), a.get('repl')
            if 'flags' in a or rx.flags or 'count' in a and a['count'] != K(0):
                return Unk('re.sub with count / flags')
            if not isinstance(subject, Text):
                return Unk('re.sub on ' + repr(subject)[:40])
            r = self._str(repl)
            if r is None:
                return subject.then(Op('unknown', 're.sub with a computed replacement', node=node))
            out = subject
            for op in self.sub_ops(rx.pattern, r, node):
                out = out.then(op)
            return out
        if meth == 'split':
            names = ['string', 'maxsplit', 'flags']
            a = dict(zip(names, args))
            a.update(kw)
            subject = a.get('string')
            if 'flags' in a or rx.flags or ('maxsplit' in a and a['maxsplit'] != K(0)):
                return Unk('re.split with maxsplit / flags')
            if not isinstance(subject, Text):
                return Unk('re.split on ' + repr(subject)[:40])
            return Toks(subject, separator_info(rx.pattern), False, node)
        if meth == 'findall':
            subject = args[0] if args else kw.get('string')
            if len(args) > 1 or set(kw) - {'string'} or rx.flags or not isinstance(subject, Text):
                return Unk('re.findall with flags / positions / on ' + repr(subject)[:40])
            sep = complement_run(rx.pattern)
            if sep is None:
                return Unk('re.findall({!r}) is not `maximal runs of everything but a set of separators`'.format(rx.pattern))
            # the maximal runs of non-separators: what splitting at runs of the separators leaves, minus the empty strings
            return Toks(subject, SepInfo(sep, False, 1, True, 'findall ' + repr(rx.pattern), implicit_strip=False), True, node)
        if meth in ('match', 'search', 'fullmatch'):
            subject = args[0] if args else kw.get('string')
            return Match(rx, subject, meth)
        return Unk('re.' + meth)

    def sub_ops(self, pattern, repl, node):
        """The operations on the line text that re.sub(pattern, repl, text) amounts to (decided from the pattern AST and the
        replacement template)."""
        tree = regex_ast(pattern)
        if is_comment_pattern(tree) and all(c.isspace() for c in repl):
            return [Op('comment', node=node)]
        if starts_with_hash(tree):
            # not recognised as `# to the end of the line`: wrong only with a witness line; agreement on the samples proves nothing
            w = comment_witness(pattern, repl)
            if w is not None:
                return [Op('hash-other', pattern, w, node=node)]
            return [Op('unknown', 're.sub({!r}, {!r}): removes comments on the sample lines, not recognised in general'.format(pattern, repl), node=node)]
        if ends_with_rest_of_line(tree) and all(c.isspace() for c in repl):
            # comment-shaped, but not `# to the end of the line`: does it start at program text?
            w = comment_start_witness(pattern, repl)
            if w is not None:
                also_hash = comment_witness(pattern, repl) is None
                return [Op('comment-extra', pattern, w, also_hash, node=node)]
        chars, _cap = regex_chars(tree)
        lo, _hi = tree.getwidth()
        if (chars is not None and lo >= 1 and repl and all(_sepish(c) for c in repl)
                and all(i == SPACE or i == COMMA or (i[0] == 'LITERAL' and chr(i[1]).isspace()) for i in chars)):
            return [Op('sepnorm', pattern, repl, node=node)]
        pads = padding_substitution(tree, repl)
        if pads is not None:
            kind, detail = pads
            if kind == 'pad':
                return [Op('replace', c, new, node=node) for c, new in detail]
            return [Op('deletes', pattern, repl, detail, node=node)]
        return [Op('unknown', 're.sub({!r}, {!r})'.format(pattern, repl), node=node)]

    def call_method(self, recv, attr, args, kw, node, env):
        if isinstance(recv, Rx):
            return self.call_re(attr, recv, args, kw, node)
        if isinstance(node.func.value, ast.Name) and node.func.value.id == 'REGISTERS' and 'REGISTERS' not in env and attr in ('get', '__getitem__') and args:
            self.event('reg-lookup', args[0], node, env)
            return Unk('register number')
        if isinstance(recv, (Text, TokEl)) and attr in ('startswith', 'endswith', 'isspace', 'isdigit', 'isalpha', 'isidentifier'):
            if attr == 'startswith' and isinstance(recv, Text) and len(args) == 1:
                prefixes = None
                if isinstance(args[0], K) and isinstance(args[0].value, str):
                    prefixes = (args[0].value,)
                elif isinstance(args[0], K) and isinstance(args[0].value, tuple) and all(isinstance(x, str) for x in args[0].value):
                    prefixes = args[0].value
                elif isinstance(args[0], Tup) and all(isinstance(x, K) and isinstance(x.value, str) for x in args[0].items):
                    prefixes = tuple(x.value for x in args[0].items)
                self.event('startswith', (recv, prefixes), node, env)
            return Truth(attr, recv)
        if isinstance(recv, Text):
            return self.text_method(recv, attr, args, kw, node)
        if isinstance(recv, TokEl) and attr in ('strip', 'lstrip', 'rstrip') and not args and not kw and SPACE in (recv.toks.sep.chars or ()):
            return recv          # a token split off at whitespace has none to strip
        if isinstance(recv, Match):
            return Unk('match.' + attr)
        if attr == 'read' and not args and not kw and isinstance(recv, Unk):
            return Text('source')
        if attr in ('count',) and dotted(node.func) in ('itertools.count',):
            return self.b_count(args, kw, node, env)
        # mutation of a local list through a method
        if isinstance(node.func.value, ast.Name) and node.func.value.id in env:
            name = node.func.value.id
            if attr == 'append' and len(args) == 1:
                return self.on_append(name, recv, args[0], env)
            if attr in ('append', 'extend', 'insert', 'remove', 'pop', 'clear', 'sort', 'reverse', '__setitem__', '__delitem__') and isinstance(recv, (Toks, Seq, ListLit, K)):
                env[name] = Unk('{} mutated by .{}'.format(name, attr))
        return Unk('method ' + attr)

    def on_append(self, name, recv, value, env):
        for ctx in reversed(self.loops):
            if name in ctx.pre_env and is_empty_list(ctx.pre_env[name]):
                if ctx is not self.loops[-1] or name in ctx.acc:
                    ctx.acc[name] = None
                    return Unk('append')
                inner = self.guards[ctx.guard_base:]
                flag = False
                ok = value == ctx.elem
                for test, truth, genv in inner:
                    cls = self.emptiness(test, genv)
                    if cls is not None and cls[0] == ctx.elem and cls[1] is (not truth):
                        flag = True
                    else:
                        ok = False
                ctx.acc[name] = (flag, value) if ok else None
                return Unk('append')
        if isinstance(recv, (Toks, Seq, ListLit, K)):
            env[name] = Unk(name + ' mutated by .append')
        return Unk('append')

    def text_method(self, recv, attr, args, kw, node):
        if attr in ('strip', 'lstrip', 'rstrip') and not kw:
            side = {'strip': 'both', 'lstrip': 'left', 'rstrip': 'right'}[attr]
            if not args or args[0] == K(None):
                return recv.then(Op('strip', side, None, node=node))
            chars = self._str(args[0])
            if chars is None:
                return recv.then(Op('unknown', attr + ' of computed characters', node=node))
            return recv.then(Op('strip', side, chars, node=node))
        if attr in ('lower', 'upper', 'casefold', 'swapcase', 'title', 'capitalize') and not args:
            return recv.then(Op('case', attr, node=node))
        if attr == 'replace' and len(args) == 2 and not kw:
            a, b = self._str(args[0]), self._str(args[1])
            if a is None or b is None:
                return recv.then(Op('unknown', 'replace of computed text', node=node))
            return recv.then(Op('replace', a, b, node=node))
        if attr == 'split':
            sep = args[0] if args else kw.get('sep', K(None))
            limited = len(args) > 1 or 'maxsplit' in kw
            if recv.root == 'source':
                if sep == K('\n') and not limited and not recv.ops:
                    # the same positions as splitlines() for \n / \r\n files; each line may still end in its carriage return
                    return Seq('physical', Text('raw', (Op('cr-tail', node=node),)), False, "split('\\n')")
                return Unk('split of the source text (only splitlines() and split(newline) are followed)')
            if sep == K(None):
                if limited:
                    return Unk('split with maxsplit')
                info = SepInfo({SPACE}, False, 1, True, 'str.split()', implicit_strip=True)
                return Toks(recv, info, True, node)
            s = self._str(sep)
            if s is None or not s:
                return Unk('split on computed separator')
            if limited:
                mx = args[1] if len(args) > 1 else kw.get('maxsplit')
                if mx == K(1):
                    return Toks(recv, SepInfo(None, False, len(s), False, 'cut at ' + repr(s), understood=False), False, node, cut=s)
                return Unk('split with maxsplit')
            if len(s) == 1:
                return Toks(recv, SepInfo({('LITERAL', ord(s))}, False, 1, False, 'str.split({!r})'.format(s)), False, node, cut=s)
            return Toks(recv, SepInfo(None, False, len(s), False, 'str.split({!r})'.format(s), understood=False), False, node, cut=s)
        if attr == 'partition' and len(args) == 1:
            s = self._str(args[0])
            if s:
                return Tup([self.cut_before(recv, s, node), Unk('partition separator'), Unk('partition tail')])
        if attr == 'splitlines' and not args and not kw:
            if recv.root == 'source' and not recv.ops:
                return Seq('physical', Text('raw'), False, 'splitlines')
            return Unk('splitlines of rewritten text')
        if attr in ('format', 'encode', 'join', 'find', 'index', 'rfind', 'rindex', 'count', 'rpartition', 'rsplit', 'expandtabs', 'translate'):
            return Unk('str.' + attr)
        return Unk('str.' + attr)

    # builtins ------------------------------------------------------------------------------------------------------
    def b_len(self, args, kw, node, env):
        return Len(args[0]) if len(args) == 1 else Unk('len')

    def b_str(self, args, kw, node, env):
        if len(args) == 1 and isinstance(args[0], (Text, TokEl)):
            return args[0]
        return Unk('str()')

    def b_bool(self, args, kw, node, env):
        return Truth('bool', args[0]) if len(args) == 1 else Unk('bool')

    def b_list(self, args, kw, node, env):
        if not args:
            return ListLit(())
        if len(args) == 1 and isinstance(args[0], (Toks, Seq)):
            return args[0]
        return Unk('list()')

    b_tuple = b_list

    def b_iter(self, args, kw, node, env):
        return args[0] if len(args) == 1 else Unk('iter')

    def b_filter(self, args, kw, node, env):
        if len(args) != 2:
            return Unk('filter')
        f, it = args
        fnode = node.args[0]
        truthy = f == K(None) or (isinstance(fnode, ast.Name) and fnode.id in ('bool', 'len') and fnode.id not in env and fnode.id not in self.facts.funcs)
        if (isinstance(fnode, ast.Attribute) and fnode.attr in ('__len__', '__bool__') and isinstance(fnode.value, ast.Name) and fnode.value.id == 'LineTokens'
                and isinstance(it, Seq) and isinstance(it.elem, LT)):
            truthy = True            # filter(LineTokens.__len__, xs): judged by require_lt_len below
        if isinstance(it, Toks):
            if truthy:
                return it.with_nonempty()
            if isinstance(f, Func) and isinstance(f.node, ast.Lambda) and len(f.node.args.args) == 1:
                sub = dict(f.closure or {})
                el = TokEl(it)
                sub[f.node.args.args[0].arg] = el
                cls = self.emptiness(f.node.body, sub)
                if cls is not None and cls[0] == el and cls[1] is False:
                    return it.with_nonempty()
            return Unk('filter of tokens by ' + unparse(fnode)[:40])
        if isinstance(it, Seq):
            elem = it.elem
            if truthy and isinstance(elem, LT):
                self.require_lt_len()
                elem = LT(elem.line, elem.toks, True)
            elif isinstance(f, Func) and isinstance(f.node, ast.Lambda) and len(f.node.args.args) == 1:
                sub = dict(f.closure or {})
                sub[f.node.args.args[0].arg] = elem
                self.refine(sub, f.node.body, True)
                elem = sub[f.node.args.args[0].arg]
            elif isinstance(f, Func) and isinstance(f.node, ast.FunctionDef) and len(f.node.args.args) == 1:
                call = ast.Call(func=ast.Name(id=f.node.name, ctx=ast.Load()), args=[ast.Name(id='__el', ctx=ast.Load())], keywords=[])
                sub = dict(f.closure or {})
                sub['__el'] = elem
                sub.setdefault(f.node.name, f)
                self.refine(sub, call, True)
                elem = sub['__el']
            elif isinstance(elem, LT) and elem.nonempty is False:
                elem = LT(elem.line, elem.toks, None)        # kept by a test the rules do not classify
            elif isinstance(elem, LineV):
                elem = LineV(elem.contents, elem.number, True)
            return Seq(it.kind, elem, True, it.origin)
        return Unk('filter')

    def b_map(self, args, kw, node, env):
        if len(args) != 2 or not isinstance(args[1], Seq):
            return Unk('map')
        f, it = args
        fnode = node.args[0]
        if isinstance(fnode, ast.Name) and fnode.id in self.special and fnode.id not in env:
            v = self.special[fnode.id](self, [it.elem], {}, node, env)
            return Seq('derived', v, it.filtered, it.origin)
        if isinstance(f, Func):
            v = self.inline(f, [it.elem], {}, node)
            return Seq('derived', v, it.filtered, it.origin)
        return Unk('map')

    def b_enumerate(self, args, kw, node, env):
        if not args or not isinstance(args[0], Seq):
            return Unk('enumerate of ' + (repr(args[0])[:40] if args else 'nothing'))
        start = args[1] if len(args) > 1 else kw.get('start', K(0))
        if not (isinstance(start, K) and isinstance(start.value, int)):
            return Unk('enumerate with computed start')
        return Enum(args[0], start.value)

    def b_count(self, args, kw, node, env):
        start = args[0] if args else kw.get('start', K(0))
        if len(args) > 1 or 'step' in kw or not (isinstance(start, K) and isinstance(start.value, int)):
            return Unk('count')
        return Count(start.value)

    def b_range(self, args, kw, node, env):
        if len(args) == 1 and isinstance(args[0], Len) and isinstance(args[0].of, Seq):
            return Enum(args[0].of, None)          # positions only
        return Unk('range')

    def b_zip(self, args, kw, node, env):
        if len(args) == 2 and isinstance(args[0], Count) and isinstance(args[1], Seq):
            return Enum(args[1], args[0].start)
        return Unk('zip')

    def b_int(self, args, kw, node, env):
        if not args or not isinstance(args[0], Reg) or args[0].state != 'raw':
            return Unk('int()')
        base = args[1] if len(args) > 1 else kw.get('base', K(10))
        if not (isinstance(base, K) and isinstance(base.value, int)):
            return Unk('int() with computed base')
        if self.try_ok and not self.try_ok[-1]:
            return Unk('int() whose failure is only partly handled (ValueError for names, TypeError for numbers)')
        return Reg('int', base.value)

    def construct(self, cname, args, kw, node, env):
        if cname in ('Line', 'LineTokens'):
            params = [p for p, _ in self.facts.init_params(cname)]
            bound = dict(zip(params, args))
            bound.update(kw)
            if cname == 'Line':
                if 'contents' not in params or 'number' not in params:
                    raise AnalysisError('anchor vanished: Line(file, number, contents)')
                contents = bound.get('contents', Unk('missing'))
                if isinstance(contents, LineV):
                    contents = contents.contents
                v = LineV(contents, bound.get('number', Unk('missing')))
                self.event('Line', v, node, env)
                return v
            if 'line' not in params or 'tokens' not in params:
                raise AnalysisError('anchor vanished: LineTokens(line, tokens)')
            return LT(bound.get('line', Unk('missing')), bound.get('tokens', Unk('missing')))
        # a small class whose __init__ stores its parameters: a record
        ci = self.facts.classes.get(cname)
        try:
            order = self.facts.full_attr_order(cname) if ci is not None else []
            params = [p for p, _ in self.facts.init_params(cname)]
        except Exception:
            order, params = [], []
        if order and params and len(args) <= len(params) and not (set(kw) - set(params)) and all(src in params for _a, src in order):
            bound = dict(zip(params, args))
            bound.update(kw)
            if all(src in bound for _a, src in order) and len({a for a, _ in order}) == len(order):
                return Rec(cname, [(a, bound[src]) for a, src in order])
        return Unk('instance of ' + cname)

    def inline(self, f, args, kw, node):
        fn = f.node
        if self.depth >= MAX_INLINE_DEPTH or id(fn) in self.stack:
            return Unk('call not followed: ' + getattr(fn, 'name', 'lambda'))
        if self.follow is not None and f.closure is None and getattr(fn, 'name', None) not in self.follow:
            return Unk('call not followed: ' + getattr(fn, 'name', 'lambda'))
        a = fn.args
        if a.vararg or a.kwarg or a.posonlyargs:
            return Unk('call of a variadic helper')
        env = dict(f.closure or {})
        params = [p.arg for p in a.args]
        if len(args) > len(params):
            return Unk('arity')
        defaults = dict(zip(params[len(params) - len(a.defaults):], a.defaults))
        for p, d in zip([p.arg for p in a.kwonlyargs], a.kw_defaults):
            if d is not None:
                defaults[p] = d
        for p in params + [p.arg for p in a.kwonlyargs]:
            env[p] = Unk('parameter ' + p)
        for p, d in defaults.items():
            env[p] = self.eval(d, {})
        for p, v in zip(params, args):
            env[p] = v
        for k, v in kw.items():
            if k not in env:
                return Unk('unknown keyword')
            env[k] = v
        sub = Flow(self.facts, self.special, self.depth + 1, self.events, self.stack + (id(fn),), self.follow)
        sub.guards = list(self.guards)
        sub.try_ok = list(self.try_ok)
        sub.decisions = self.decisions
        sub.lossy = self.lossy
        sub.str_guard = self.str_guard
        if isinstance(fn, ast.Lambda):
            return sub.eval(fn.body, env)
        sub.run_block(fn.body, env)
        vals = [r[0] for r in sub.returns]
        if not vals:
            return K(None)
        out = vals[0]
        for v in vals[1:]:
            out = merge(out, v)
        return out

    # -- tests -----------------------------------------------------------------------------------------------------
    def emptiness(self, test, env):
        """(subject value, True if the test holds exactly when the subject is empty / False if exactly when non-empty,
        subject node); None when the test is not an emptiness test."""
        if isinstance(test, ast.UnaryOp) and isinstance(test.op, ast.Not):
            r = self.emptiness(test.operand, env)
            return None if r is None else (r[0], not r[1], r[2])
        if isinstance(test, ast.NamedExpr) and isinstance(test.target, ast.Name):
            self.eval(test, env)
            return self.emptiness(test.target, env)
        if isinstance(test, ast.Call) and isinstance(test.func, ast.Name) and test.func.id == 'bool' and len(test.args) == 1 and 'bool' not in env:
            return self.emptiness(test.args[0], env)
        if (isinstance(test, ast.Call) and isinstance(test.func, ast.Name) and len(test.args) == 1 and not test.keywords
                and not isinstance(test.args[0], ast.Starred) and self.depth < MAX_INLINE_DEPTH):
            # a helper predicate `def has_tokens(x): return len(x) > 0`
            f = env.get(test.func.id)
            if f is None and test.func.id in self.facts.funcs and test.func.id not in self.special:
                f = Func(self.facts.funcs[test.func.id])
            if isinstance(f, Func) and isinstance(f.node, ast.FunctionDef) and len(f.node.args.args) == 1 and not f.node.args.kwonlyargs:
                body = [st for st in f.node.body if not (isinstance(st, ast.Expr) and isinstance(st.value, ast.Constant))]
                if len(body) == 1 and isinstance(body[0], ast.Return) and body[0].value is not None:
                    sub = dict(f.closure or {})
                    sub[f.node.args.args[0].arg] = self.eval(test.args[0], env)
                    self.depth += 1
                    try:
                        return self.emptiness(body[0].value, sub)
                    finally:
                        self.depth -= 1
        if isinstance(test, ast.Compare) and len(test.ops) == 1:
            left, op, right = test.left, test.ops[0], test.comparators[0]
            lv, rv = self.eval(left, env), self.eval(right, env)
            if isinstance(rv, Len) and isinstance(lv, K):
                lv, rv, left, right = rv, lv, right, left
                op = {ast.Lt: ast.Gt, ast.Gt: ast.Lt, ast.LtE: ast.GtE, ast.GtE: ast.LtE}.get(type(op), type(op))()
            if isinstance(lv, Len) and isinstance(rv, K) and isinstance(rv.value, int) and not isinstance(rv.value, bool):
                n = rv.value
                table = {(ast.Eq, 0): True, (ast.LtE, 0): True, (ast.Lt, 1): True,
                         (ast.NotEq, 0): False, (ast.Gt, 0): False, (ast.GtE, 1): False}
                r = table.get((type(op), n))
                if r is None:
                    return None
                return (lv.of, r, left.args[0] if isinstance(left, ast.Call) and left.args else left)
            for a, b, an in ((lv, rv, left), (rv, lv, right)):
                if (b == K('') or is_empty_list(b)) and isinstance(a, (Text, Toks, TokEl, LT, LexedToks)) and isinstance(op, (ast.Eq, ast.NotEq)):
                    if is_empty_list(b) and isinstance(a, (Text, TokEl, LT)):
                        return None
                    if b == K('') and isinstance(a, (Toks, LT, LexedToks)):
                        return None
                    return (a, isinstance(op, ast.Eq), an)
            return None
        v = self.eval(test, env)
        if isinstance(v, Len):
            return (v.of, False, test.args[0] if isinstance(test, ast.Call) and test.args else test)
        if isinstance(v, (Text, Toks, TokEl, LT, LexedToks)):
            return (v, False, test)
        if isinstance(v, Truth) and v.what == 'bool':
            return (v.arg, False, test)
        return None

    def require_lt_len(self):
        """len(x) / truth of a LineTokens object means `it has tokens` only through LineTokens.__len__."""
        ci = self.facts.classes.get('LineTokens')
        if ci is None:
            raise AnalysisError('anchor vanished: class LineTokens')
        if '__bool__' in ci.methods:
            raise AnalysisError('LineTokens defines __bool__: truthiness of a token line is outside the rules')
        m = ci.methods.get('__len__')
        ok = False
        if m is not None:
            body = [s for s in m.body if not (isinstance(s, ast.Expr) and isinstance(s.value, ast.Constant))]
            if len(body) == 1 and isinstance(body[0], ast.Return) and body[0].value is not None:
                ok = unparse(body[0].value) in ('len(self.tokens)', 'self.tokens.__len__()')
        if not ok:
            raise AnalysisError('LineTokens.__len__ is not len(self.tokens): emptiness tests on token lines cannot be decided')

    def refine(self, env, test, truth):
        """Strengthen env with what `test == truth` implies (only facts the rules use)."""
        if isinstance(test, ast.UnaryOp) and isinstance(test.op, ast.Not):
            return self.refine(env, test.operand, not truth)
        if isinstance(test, ast.BoolOp):
            if (isinstance(test.op, ast.And) and truth) or (isinstance(test.op, ast.Or) and not truth):
                for v in test.values:
                    self.refine(env, v, truth)
            return
        # the parameter is a plain string rather than a Line object
        r = str_test(test)
        if r is not None:
            pol, subj = r
            if isinstance(subj, ast.Name) and isinstance(env.get(subj.id), LineV) and pol == truth:
                env[subj.id] = env[subj.id].contents
            return
        cls = self.emptiness(test, env)
        if cls is None:
            # a condition on a token line that the rules do not understand: whether it has tokens is no longer known
            for n in ast.walk(test):
                if not isinstance(n, ast.Name):
                    continue
                v = env.get(n.id)
                if isinstance(v, Len):
                    v = v.of
                if isinstance(v, LexedToks):
                    v = next((w for w in env.values() if isinstance(w, LT) and w.toks == v), None)
                if isinstance(v, LT) and v.nonempty is False:
                    for k, w in list(env.items()):
                        if w == v:
                            env[k] = LT(v.line, v.toks, None)
                v = env.get(n.id)
                if isinstance(v, LineV) and not v.screened:
                    env[n.id] = LineV(v.contents, v.number, True)
            return
        subj, empty_when, _snode = cls
        nonempty = (empty_when != truth)
        if isinstance(subj, Text) and subj.root == 'contents' and subj.ops:
            # a condition on a rewritten line text (comment cut off, stripped ...): the lines that pass are a selection
            for k, w in list(env.items()):
                if isinstance(w, LineV) and not w.screened and w.contents.root == 'contents':
                    env[k] = LineV(w.contents, w.number, True)
            return
        if isinstance(subj, LT):
            self.require_lt_len()
            hit = [k for k, w in env.items() if w == subj]
        elif isinstance(subj, LexedToks):
            hit = [k for k, w in env.items() if isinstance(w, LT) and w.toks == subj]
        else:
            return
        if nonempty:
            for k in hit:
                lt = env[k]
                env[k] = LT(lt.line, lt.toks, True)

    def merge_under(self, test, env, a, b):
        """Join of the values of the two arms of `test` (a: test true)."""
        if a == b:
            return a
        # if '#' in text: text = <text up to the '#'>   (cutting at a '#' that is not there changes nothing)
        if (isinstance(test, ast.Compare) and len(test.ops) == 1 and isinstance(test.ops[0], (ast.In, ast.NotIn))
                and isinstance(a, Text) and isinstance(b, Text) and self.eval(test.left, dict(env)) == K('#')):
            cut, kept = (a, b) if isinstance(test.ops[0], ast.In) else (b, a)
            subject = self.eval(test.comparators[0], dict(env))
            if (subject == kept and cut.root == kept.root and len(cut.ops) == len(kept.ops) + 1 and cut.ops[:-1] == kept.ops
                    and cut.ops[-1].kind == 'comment'):
                return cut
        cls = self.emptiness(test, env)
        if cls is not None and isinstance(cls[0], Text):
            empty_when = cls[1]
            t, e = (a, b) if not empty_when else (b, a)      # t: arm taken when the text is non-empty
            if isinstance(t, Toks) and is_empty_list(e) and t.text.root == cls[0].root:
                return t
        if isinstance(test, ast.Call) and isinstance(test.func, ast.Name):
            # if <int(x, 0) would succeed>: x = int(x, 0)
            if self.is_int_predicate(test.func.id) and isinstance(a, Reg) and isinstance(b, Reg) and a.state == 'int' and b.state == 'raw' and a.base == 0:
                return Reg('norm', 0)
        pol = str_test_polarity(test)
        if pol is not None and isinstance(a, Reg) and isinstance(b, Reg):
            s_arm, o_arm = (a, b) if pol else (b, a)          # s_arm: value when the operand is a string
            if s_arm == Reg('norm', 0) and o_arm == Reg('raw'):
                return Reg('norm', 0)                         # a number needs no conversion
        if isinstance(a, Reg) and isinstance(b, Reg):
            return Unk('register conversion under an unrecognised condition')
        return merge(a, b)

    def is_int_predicate(self, name):
        fn = self.facts.funcs.get(name)
        if fn is None or len(fn.args.args) != 1:
            return False
        body = [s for s in fn.body if not (isinstance(s, ast.Expr) and isinstance(s.value, ast.Constant))]
        if len(body) != 1 or not isinstance(body[0], ast.Try):
            return False
        t = body[0]
        p = fn.args.args[0].arg
        calls = [n for s in t.body for n in ast.walk(s) if isinstance(n, ast.Call) and isinstance(n.func, ast.Name) and n.func.id == 'int']
        good = False
        for c in calls:
            base = c.args[1] if len(c.args) > 1 else next((k.value for k in c.keywords if k.arg == 'base'), None)
            if c.args and isinstance(c.args[0], ast.Name) and c.args[0].id == p and isinstance(base, ast.Constant) and base.value == 0:
                good = True
        rets_true = any(isinstance(s, ast.Return) and isinstance(s.value, ast.Constant) and s.value.value is True for s in t.body + t.orelse)
        rets_false = all(any(isinstance(s, ast.Return) and isinstance(s.value, ast.Constant) and s.value.value is False for s in h.body) for h in t.handlers)
        return good and rets_true and rets_false and bool(t.handlers)

    # -- statements --------------------------------------------------------------------------------------------------
    def bind(self, target, value, env):
        if isinstance(target, ast.Name):
            env[target.id] = value
        elif isinstance(target, (ast.Tuple, ast.List)):
            items = None
            if isinstance(value, K) and isinstance(value.value, (tuple, list)):
                value = lift(value.value)
            if isinstance(value, Rec):
                value = Tup([v for _k, v in value.fields])
            if isinstance(value, (Tup, ListLit)) and len(value.items) == len(target.elts) and not any(isinstance(e, ast.Starred) for e in target.elts):
                items = value.items
            for i, e in enumerate(target.elts):
                if isinstance(e, ast.Starred):
                    self.bind(e.value, Unk('starred'), env)
                else:
                    self.bind(e, items[i] if items is not None else (value if isinstance(value, Unk) else Unk('unpacked from {!r}'.format(value)[:80])), env)
        elif isinstance(target, ast.Starred):
            self.bind(target.value, Unk('starred'), env)
        elif isinstance(target, (ast.Attribute, ast.Subscript)):
            self.eval(target.value, env)
            if isinstance(target, ast.Subscript) and isinstance(target.value, ast.Name) and target.value.id in env:
                env[target.value.id] = Unk('item assignment')

    def run_block(self, stmts, env):
        """Execute statements in order, updating env in place.  Returns True when every path through the block ends in
        return / raise / continue / break."""
        ng = len(self.guards)
        try:
            for st in stmts:
                if self.run_stmt(st, env):
                    return True
            return False
        finally:
            del self.guards[ng:]

    def run_stmt(self, st, env):
        m = getattr(self, 's_' + type(st).__name__, None)
        if m is None:
            for n in assigned_names([st]):
                env[n] = Unk('assigned by ' + type(st).__name__)
            return False
        return bool(m(st, env))

    def s_Pass(self, st, env):
        return False

    s_Import = s_ImportFrom = s_Global = s_Nonlocal = s_Assert = s_Delete = s_Pass

    def s_Expr(self, st, env):
        self.eval(st.value, env)

    def s_Assign(self, st, env):
        v = self.eval(st.value, env)
        for t in st.targets:
            self.bind(t, v, env)

    def s_AugAssign(self, st, env):
        inc = self.eval(st.value, env)
        if isinstance(st.target, ast.Name):
            name = st.target.id
            if self.loops and isinstance(st.op, ast.Add) and isinstance(inc, K) and inc.value == 1:
                ctx = self.loops[-1]
                pre = ctx.pre_env.get(name)
                top_level = getattr(st, '_parent', None) is ctx.node
                several = sum(1 for n in ast.walk(ctx.node) if isinstance(n, (ast.AugAssign, ast.Assign, ast.NamedExpr))
                              and any(isinstance(t, ast.Name) and t.id == name for t in ([n.target] if not isinstance(n, ast.Assign) else n.targets))) > 1
                if isinstance(pre, K) and isinstance(pre.value, int) and isinstance(ctx.it, Seq) and top_level and name not in ctx.counters and not several:
                    ctx.counters.add(name)
                    env[name] = Idx(ctx.it, pre.value + 1, late=ctx.may_skip)
                    return False
            env[name] = Unk('augmented assignment')
        else:
            self.bind(st.target, Unk('augmented'), env)

    def s_FunctionDef(self, st, env):
        env[st.name] = Func(st, env)

    def s_ClassDef(self, st, env):
        env[st.name] = Unk('local class')

    def s_Return(self, st, env):
        v = self.eval(st.value, env) if st.value is not None else K(None)
        self.returns.append((v, tuple(self.guards), st))
        return True

    def s_Raise(self, st, env):
        if st.exc is not None:
            self.eval(st.exc, env)
        return True

    def s_Continue(self, st, env):
        self.event('continue', None, st, env)
        return True

    def s_Break(self, st, env):
        return True

    def static_truth(self, test, env):
        """The value of a sentinel test that the values at hand decide: `x is None`, `x is not None`, `not ...`."""
        if isinstance(test, ast.UnaryOp) and isinstance(test.op, ast.Not):
            r = self.static_truth(test.operand, env)
            return None if r is None else not r
        if (isinstance(test, ast.Compare) and len(test.ops) == 1 and isinstance(test.ops[0], (ast.Is, ast.IsNot, ast.Eq, ast.NotEq))
                and isinstance(test.comparators[0], ast.Constant) and test.comparators[0].value is None and isinstance(test.left, ast.Name)):
            v = env.get(test.left.id)
            if v is None:
                return None
            if v == K(None):
                is_none = True
            elif isinstance(v, (ListLit, Toks, Text, LT, LineV, Tup, Rec, Seq, Rx)) or (isinstance(v, K) and v.value is not None):
                is_none = False
            else:
                return None
            return is_none if isinstance(test.ops[0], (ast.Is, ast.Eq)) else not is_none
        return None

    def run_arm_inline(self, st, truth, env):
        """Only one arm of the If is on this path: run it as part of the enclosing block (conditions met on the way stay in
        force to the end of that block)."""
        snapshot = dict(env)
        self.refine(env, st.test, truth)
        self.guards.append((st.test, truth, snapshot))
        for sub in (st.body if truth else st.orelse):
            if self.run_stmt(sub, env):
                return True
        return False

    def s_If(self, st, env):
        self.eval(st.test, env)
        decided = self.static_truth(st.test, env)
        if decided is None and id(st) in self.decisions:
            decided = self.decisions[id(st)]
        if decided is not None and not self.loops:
            return self.run_arm_inline(st, decided, env)
        snapshot = dict(env)
        et, ef = dict(env), dict(env)
        self.refine(et, st.test, True)
        self.refine(ef, st.test, False)
        if self.loops and any(isinstance(n, (ast.Continue, ast.Break)) for n in ast.walk(st)):
            mark = True
        else:
            mark = False
        sg = str_test(st.test)
        if sg is not None and not isinstance(self.eval(sg[1], dict(snapshot)), Reg):
            sg = None
        self.guards.append((st.test, True, snapshot))
        self.str_guard += 1 if (sg is not None and sg[0]) else 0
        tt = self.run_block(st.body, et)
        self.str_guard -= 1 if (sg is not None and sg[0]) else 0
        self.guards.pop()
        self.guards.append((st.test, False, snapshot))
        self.str_guard += 1 if (sg is not None and not sg[0]) else 0
        tf = self.run_block(st.orelse, ef)
        self.str_guard -= 1 if (sg is not None and not sg[0]) else 0
        self.guards.pop()
        if mark:
            self.loops[-1].may_skip = True
        if tt and tf:
            return True
        if tt or tf:
            live, truth = (ef, False) if tt else (et, True)
            env.clear()
            env.update(live)
            # the rest of the enclosing block runs under this condition (dropped again by run_block)
            self.guards.append((st.test, truth, snapshot))
            return False
        keys = set(et) | set(ef)
        merged = {}
        for k in keys:
            if k in et and k in ef:
                merged[k] = self.merge_under(st.test, snapshot, et[k], ef[k])
                if isinstance(merged[k], Unk) and not isinstance(et[k], Unk) and not isinstance(ef[k], Unk) and not self.loops and st not in self.lossy:
                    self.lossy.append(st)
            else:
                merged[k] = Unk('bound on one arm only')
        env.clear()
        env.update(merged)
        return False

    def s_With(self, st, env):
        # with contextlib.suppress(E1, E2): body   ==   try: body / except (E1, E2): pass
        if len(st.items) == 1 and st.items[0].optional_vars is None and isinstance(st.items[0].context_expr, ast.Call):
            call = st.items[0].context_expr
            if dotted(call.func) in ('contextlib.suppress', 'suppress') and call.args and not call.keywords and 'suppress' not in env:
                kinds = call.args[0] if len(call.args) == 1 else ast.Tuple(elts=list(call.args), ctx=ast.Load())
                handler = ast.ExceptHandler(type=kinds, name=None, body=[ast.Pass()])
                return self.s_Try(ast.Try(body=st.body, handlers=[handler], orelse=[], finalbody=[]), env)
        for it in st.items:
            self.eval(it.context_expr, env)
            if it.optional_vars is not None:
                self.bind(it.optional_vars, Unk('context value'), env)
        return self.run_block(st.body, env)

    def s_Try(self, st, env):
        env0 = dict(env)
        eb = dict(env)
        # a register conversion whose failure is handled must have both ValueError (names) and TypeError (ints) handled
        self.try_ok.append(self.handlers_catch_conversion(st.handlers))
        tb = self.run_block(st.body, eb)
        self.try_ok.pop()
        if not tb and st.orelse:
            tb = self.run_block(st.orelse, eb)
        outs = [] if tb else [eb]
        body_assigned = assigned_names(st.body)
        for h in st.handlers:
            eh = dict(env0)
            if len(st.body) != 1:
                for n in body_assigned:
                    eh[n] = merge(env0.get(n, Unk('unbound')), eb.get(n, Unk('unbound')))
            if h.name:
                eh[h.name] = Unk('exception')
            self.guards.append((h, True, env0))
            th = self.run_block(h.body, eh)
            self.guards.pop()
            if not th:
                outs.append(eh)
        if not outs:
            env.clear()
            env.update(eb)
            if st.finalbody:
                self.run_block(st.finalbody, env)
            return True
        merged = {}
        keys = set()
        for o in outs:
            keys |= set(o)
        for k in keys:
            vals = [o[k] for o in outs if k in o]
            if len(vals) != len(outs):
                merged[k] = Unk('bound on some paths only')
                continue
            v = vals[0]
            for w in vals[1:]:
                v = merge(v, w)
            merged[k] = v
        env.clear()
        env.update(merged)
        if st.finalbody:
            return self.run_block(st.finalbody, env)
        return False

    def handlers_catch_conversion(self, handlers):
        names = set()
        for h in handlers:
            if h.type is None:
                return True
            for e in (h.type.elts if isinstance(h.type, ast.Tuple) else [h.type]):
                names.add(dotted(e))
        if 'Exception' in names or 'BaseException' in names:
            return True
        if self.str_guard > 0:
            return 'ValueError' in names          # int(<str>, base) cannot raise TypeError
        return 'ValueError' in names and 'TypeError' in names

    def s_For(self, st, env):
        it = self.eval(st.iter, env)
        items = literal_items(it)
        if items is not None and len(items) <= 32 and not st.orelse and not leaves_iteration_early(st.body):
            # a loop over a literal table: one copy of the body per entry, in order
            for el in items:
                self.bind(st.target, el, env)
                if self.run_block(st.body, env):
                    return True
            return False
        pre = dict(env)
        body_env = dict(env)
        assigned = assigned_names(st.body)
        for n in assigned:
            body_env[n] = Unk('carried around the loop')
        self.bind_iteration(st.target, it, body_env)
        elem = None
        if isinstance(it, Toks):
            elem = TokEl(it)
        elif isinstance(it, Seq):
            elem = it.elem
        elif isinstance(it, Enum):
            elem = it.seq.elem
        ctx = LoopCtx(it, elem, pre, len(self.guards), st)
        self.loops.append(ctx)
        self.run_block(st.body, body_env)
        self.loops.pop()
        for n in assigned | target_names(st.target):
            env[n] = merge(pre[n], body_env.get(n, Unk('unbound'))) if n in pre else Unk('bound in a loop')
        for name, got in ctx.acc.items():
            if got is None:
                env[name] = Unk(name + ' built in a loop the rules cannot follow')
            else:
                flag, value = got
                if isinstance(it, Toks):
                    env[name] = Toks(it.text, it.sep, it.nonempty or flag, it.node)
                elif isinstance(it, (Seq, Enum)):
                    seq = it.seq if isinstance(it, Enum) else it
                    env[name] = Seq(seq.kind, value, seq.filtered or ctx.may_skip or flag, seq.origin)
        # other lists that were mutated inside the loop
        if st.orelse:
            self.run_block(st.orelse, env)
        return False

    s_AsyncFor = s_For

    def s_While(self, st, env):
        # while '' in tokens: tokens.remove('')
        t = st.test
        if (isinstance(t, ast.Compare) and len(t.ops) == 1 and isinstance(t.ops[0], ast.In) and isinstance(t.comparators[0], ast.Name)
                and len(st.body) == 1 and not st.orelse and isinstance(st.body[0], ast.Expr) and isinstance(st.body[0].value, ast.Call)):
            name = t.comparators[0].id
            call = st.body[0].value
            needle = self.eval(t.left, env)
            if (needle == K('') and isinstance(env.get(name), Toks) and isinstance(call.func, ast.Attribute) and call.func.attr == 'remove'
                    and isinstance(call.func.value, ast.Name) and call.func.value.id == name and len(call.args) == 1
                    and self.eval(call.args[0], env) == K('')):
                env[name] = env[name].with_nonempty()
                return False
        self.eval(st.test, env)
        pre = dict(env)
        body_env = dict(env)
        assigned = assigned_names(st.body)
        for n in assigned:
            body_env[n] = Unk('carried around the loop')
        ctx = LoopCtx(Unk('while'), None, pre, len(self.guards), st)
        self.loops.append(ctx)
        self.run_block(st.body, body_env)
        self.loops.pop()
        for n in assigned:
            env[n] = merge(pre[n], body_env.get(n, Unk('unbound'))) if n in pre else Unk('bound in a loop')
        for name in ctx.acc:
            env[name] = Unk(name + ' built in a while loop')
        # lists mutated in the body
        for n in ast.walk(st):
            if (isinstance(n, ast.Call) and isinstance(n.func, ast.Attribute) and isinstance(n.func.value, ast.Name)
                    and n.func.attr in ('append', 'extend', 'insert', 'remove', 'pop', 'clear') and isinstance(env.get(n.func.value.id), (Toks, Seq, ListLit))):
                env[n.func.value.id] = Unk('mutated in a while loop')
        return False


MAX_PATHS = 48


def run_function(facts, fn, bindings, special=None, follow=None):
    """Interpret module-level function `fn` with its parameters bound per `bindings` (others unknown).

    Joins are path-insensitive first.  Where a join (outside loops) loses a value that both arms knew - the `tokens = None` sentinel
    of a single-exit function - the run is repeated once per arm of that If (the arm fixed, sentinel tests decided by the values at
    hand), recursively, and the returns / events of all runs are united: every path is covered by one of them."""
    def once(decisions):
        flow = Flow(facts, special, stack=(id(fn),), follow=follow)
        flow.decisions = decisions
        env = {}
        a = fn.args
        for p in a.posonlyargs + a.args + a.kwonlyargs:
            env[p.arg] = Unk('parameter ' + p.arg)
        if a.vararg:
            env[a.vararg.arg] = Unk('varargs')
        if a.kwarg:
            env[a.kwarg.arg] = Unk('kwargs')
        env.update(bindings)
        flow.run_block(fn.body, env)
        return flow

    leaves = []
    todo = [{}]
    while todo:
        dec = todo.pop()
        flow = once(dec)
        fresh = [st for st in flow.lossy if id(st) not in dec]
        if fresh and len(leaves) + len(todo) + 2 <= MAX_PATHS:
            st = min(fresh, key=lambda n: (n.lineno, n.col_offset))
            for arm in (False, True):
                d = dict(dec)
                d[id(st)] = arm
                todo.append(d)
            continue
        leaves.append(flow)
    first = leaves[0]
    if len(leaves) > 1:
        seen = set()
        returns, events = [], []
        for fl in leaves:
            for r in fl.returns:
                key = (id(r[2]), r[0], tuple((id(t), tr) for t, tr, _e in r[1]))
                if key not in seen:
                    seen.add(key)
                    returns.append(r)
            for e in fl.events:
                key = ('e', e[0], id(e[2]), e[1] if isinstance(e[1], Val) else repr(e[1]), tuple((id(t), tr) for t, tr, _e in e[3]))
                if key not in seen:
                    seen.add(key)
                    events.append(e)
        first.returns, first.events = returns, events
    return first


def first_param(fn):
    a = fn.args
    ps = a.posonlyargs + a.args
    if not ps:
        raise AnalysisError('{} takes no positional parameter'.format(fn.name))
    return ps[0].arg


# ================================================================================================================
# R13.3 / R13.4 / R13.5: the lexer
# ================================================================================================================
def describe_ops(ops):
    return [o.kind + (':' + repr(o.args[0]) if o.kind in ('hash-other', 'unknown', 'sepnorm') else '') for o in ops]


def guard_is_match(flow, guards):
    """Some enclosing condition says: a regular expression matched the line text.  -> that Match (innermost), or None."""
    for test, truth, genv in reversed(guards):
        if not isinstance(test, ast.AST) or isinstance(test, ast.ExceptHandler):
            continue
        t = test
        want = truth
        if isinstance(t, ast.UnaryOp) and isinstance(t.op, ast.Not):
            t, want = t.operand, not want
        if isinstance(t, ast.Compare) and len(t.ops) == 1 and isinstance(t.comparators[0], ast.Constant) and t.comparators[0].value is None:
            if isinstance(t.ops[0], (ast.IsNot, ast.NotEq)):
                v = flow.eval(t.left, dict(genv))
            elif isinstance(t.ops[0], (ast.Is, ast.Eq)):
                v, want = flow.eval(t.left, dict(genv)), not want
            else:
                continue
        else:
            v = flow.eval(t, dict(genv))
        if want and isinstance(v, Match) and isinstance(v.text, Text) and v.text.root == 'contents':
            return v
    return None


def guard_is_empty_text(flow, guards):
    for test, truth, genv in guards:
        if not isinstance(test, ast.expr):
            continue
        cls = flow.emptiness(test, dict(genv))
        if cls is not None and isinstance(cls[0], Text) and cls[0].root == 'contents' and cls[1] == truth:
            # whatever was done to the text before the test: an empty text stays empty under the remaining string operations
            # and splits into nothing but empty tokens, so `no tokens` agrees with the splitting path (whose own operations
            # are judged there)
            return True
    return False


def check_lexer(rep, facts):
    fn = facts.funcs.get('lex_tokens')
    if fn is None:
        raise AnalysisError('anchor vanished: lex_tokens')
    p = first_param(fn)
    flow = run_function(facts, fn, {p: LineV(Text('contents'), Unk('number'))})
    if not flow.returns:
        raise AnalysisError('lex_tokens: no return statement found')
    info = LexerFacts()
    mains = []
    for value, guards, node in flow.returns:
        if not isinstance(value, LT):
            raise AnalysisError('lex_tokens: the returned value {} is not a LineTokens(line, tokens) the rules can follow'.format(unparse(node)[:80]))
        toks = value.toks
        if isinstance(toks, Toks):
            mains.append((toks, guards, node))
        elif is_empty_list(toks):
            if not guard_is_empty_text(flow, guards):
                raise AnalysisError('lex_tokens: an empty token list is returned under a condition that is not `the line text is empty`: ' + unparse(node)[:80])
            rep.count('lexer paths analysed')
        elif isinstance(toks, ListLit) and toks.items and isinstance(toks.items[0], K) and isinstance(toks.items[0].value, str):
            # the special-cased `string` / `error` lines (custom lexing, documented: the rest of the line is the literal)
            m = guard_is_match(flow, guards)
            if m is None:
                raise AnalysisError('lex_tokens: a literal token list is returned without a pattern match on the line text: ' + unparse(node)[:80])
            decide_literal_line(rep, toks.items[0].value, m, node)
            info.literal_lines.append((toks.items[0].value, node, tail_is_verbatim(m)))
            rep.count('lexer paths analysed')
        else:
            raise AnalysisError('lex_tokens: cannot follow the line text to the returned token list in `{}` ({!r})'.format(unparse(node)[:80], toks))
    if not mains:
        raise AnalysisError('lex_tokens: no path on which the line text is split into tokens')
    pats = []
    for toks, guards, node in mains:
        rep.count('lexer paths analysed')
        pats.append(decide_token_path(rep, toks, node))
    info.separator = pats[0]
    return info


def tail_is_verbatim(m):
    """Does the text captured from a custom-lexed line run to the very end of the line text, carriage return included?
    True / False / None (not decided)."""
    if any(o.kind == 'strip' and o.args[0] in ('right', 'both') and (o.args[1] is None or '\r' in o.args[1]) for o in m.text.ops):
        return False
    items = flatten_groups(list(regex_ast(m.rx.pattern)))
    while items and items[-1][0] == sre.AT:
        items = items[:-1]
    if not items:
        return None
    op, av = items[-1]
    if op in (sre.MAX_REPEAT, sre.MIN_REPEAT):
        sub = flatten_groups(list(av[2]))
        if len(sub) == 1:
            it = sub[0]
            if it[0] == sre.ANY:
                return True                       # `.` matches a carriage return
            if it[0] == sre.IN:
                av2 = list(it[1])
                if av2 and av2[0][0] == sre.NEGATE:
                    return not any(i[0] == sre.LITERAL and i[1] == 13 for i in av2[1:])
                cats = {str(i[1]).replace('UNI_', '') for i in av2 if i[0] == sre.CATEGORY}
                if 'CATEGORY_SPACE' in cats or any(c <= cats for c in _COMPLEMENTS):
                    return True
                return None
            if it[0] == sre.NOT_LITERAL:
                return it[1] != 13
    return None


def check_line_ends(rep, reader, lexer):
    """R13.5: the same file with \\r\\n line ends assembles like the one with \\n line ends.  When the reader cuts the source at
    newlines only, each line keeps its carriage return; that is harmless where the line is split at whitespace, and wrong where a
    custom-lexed line kind takes the rest of the line verbatim."""
    if reader.keeps_cr is None:
        rep.ok('R13.5.line-ends', 'no line keeps a carriage return (splitlines(), or the line is stripped of it)', nontrivial=False)
        return
    verbatim = sorted([(k, n) for k, n, v in lexer.literal_lines if v is True], key=lambda kn: (kn[0] != 'string', kn[0]))
    undecided = [(k, n) for k, n, v in lexer.literal_lines if v is None]
    if not verbatim and undecided:
        raise AnalysisError('lines may keep a carriage return (the source is cut at newlines only) and whether the `{}` line kind captures it is not decided'.format(undecided[0][0]))
    node = reader.keeps_cr
    rep.check(not verbatim, 'R13.5.line-ends', 'a carriage return left on a line never reaches a token',
              lambda: Finding('R13.5.line-ends', 'read_lines', node,
                              'the source is cut at newlines only, so with \\r\\n line ends every line keeps its carriage return; the `{}` line kind takes the rest '
                              'of the line verbatim, so the same file saved with \\r\\n and with \\n line ends assembles differently (a \\r inside the literal)'.format(verbatim[0][0]),
                              line=node.lineno))


class LexerFacts:
    def __init__(self):
        self.literal_lines = []        # (keyword, node, tail verbatim: True / False / None)
        self.separator = None


def decide_literal_line(rep, keyword, m, ret):
    """A line kind with custom lexing (`string ...`, `error ...`): recognised by a pattern on the line text.  R13.5: the
    recognition must not depend on the indentation of the line, or an indented data line falls through to the token split."""
    text = m.text
    if any(o.kind != 'strip' or o.args[1] is not None for o in text.ops):
        raise AnalysisError('lex_tokens: the `{}` line kind is recognised on a rewritten line text ({}): outside the rules'.format(keyword, describe_ops(text.ops)))
    items = flatten_groups(list(regex_ast(m.rx.pattern)))
    if m.rx.flags:
        raise AnalysisError('lex_tokens: the pattern of the `{}` line kind is compiled with flags'.format(keyword))
    if m.how not in ('match', 'fullmatch', 'search'):
        raise AnalysisError('lex_tokens: {} on the line text is outside the rules'.format(m.how))
    anywhere = False
    if items and items[0][0] == sre.AT and items[0][1] in (sre.AT_BEGINNING, sre.AT_BEGINNING_STRING):
        items = items[1:]
    elif m.how == 'search':
        anywhere = True          # judged below, once the pattern is known to stand for this keyword
    rest = _skip_optional_space(items)
    leading_ws = len(rest) < len(items) and items[0][1][1] == sre.MAXREPEAT
    if not leading_ws:
        rest = items
    word = ''
    for op, av in rest:
        if op == sre.LITERAL and not chr(av).isspace():
            word += chr(av)
        else:
            break
    if word != keyword:
        raise AnalysisError('lex_tokens: lines matching {!r} are lexed as `{}` lines: which line kind the pattern stands for is not decided here'.format(m.rx.pattern, keyword))
    # the recognition runs on the line text with its comment still in place (only strips were admitted above): a pattern that is
    # searched for anywhere in the line also fires inside a trailing or whole-line comment
    rep.check(not anywhere, 'R13.4.comments', 'the `{}` line kind is recognised at the start of the line only (blanks aside)'.format(keyword),
              lambda: Finding('R13.4.comments', 'lex_tokens', ret,
                              'the `{}` line kind is recognised by searching {!r} anywhere in the line text, before comments are removed: an instruction line '
                              'with the comment `# {} ...` is lexed as a {} directive, so adding a comment changes the program'.format(keyword, m.rx.pattern, keyword, keyword),
                              line=getattr(ret, 'lineno', None)))
    if anywhere:
        return
    stripped = any(o.args[0] in ('left', 'both') for o in text.ops)
    rep.check(leading_ws or stripped, 'R13.5.indent', 'an indented `{}` line is still lexed as a {} literal'.format(keyword, keyword),
              lambda: Finding('R13.5.indent', 'lex_tokens', ret,
                              'the `{}` line kind is recognised by {!r} at the very start of the line text only: an indented `{} ...` line falls through '
                              'to the token split (whitespace runs collapse, `#` starts a comment) and assembles differently'.format(keyword, m.rx.pattern, keyword),
                              line=getattr(ret, 'lineno', None)))


def decide_token_path(rep, toks, ret):
    text, sep = toks.text, toks.sep
    sp = toks.node or ret
    if text.root != 'contents':
        raise AnalysisError('lex_tokens: the tokens are split from {!r}, not from the contents of the line'.format(text.root))
    if not sep.understood or sep.chars is None:
        raise AnalysisError('lex_tokens: the separator {} can consume characters the rules cannot enumerate'.format(sep.text))
    kinds = describe_ops(text.ops)
    rep.sample({'lexer_chain': kinds, 'separator': sep.text, 'empty_tokens_dropped': toks.nonempty})
    for o in text.ops:
        if o.kind == 'comment-extra':
            line, got = o.args[1]
            rep.fail(Finding('R13.4.comment-start', 'lex_tokens', o.node or sp,
                             'the pattern {!r} removes text to the end of the line starting at something that is not `#`: the program line {!r} is cut to {!r}; '
                             'only `#` starts a comment'.format(o.args[0], line, got), line=getattr(o.node or sp, 'lineno', None)),
                     instance='only `#` starts a comment')
    unknown = [o for o in text.ops if o.kind == 'unknown' or o.kind == 'case']
    if unknown:
        raise AnalysisError('lex_tokens: the line text is rewritten by an operation outside the rules before it is split: {}'.format(
            [(o.kind,) + o.args for o in unknown]))
    # --- walk the chain
    comment_at = None
    comment_late = False
    hash_other = None
    stripped = False         # True / False / None (unknown): no leading / trailing whitespace at the split
    extra_seps = set()
    deleted = []
    for i, o in enumerate(text.ops):
        if o.kind == 'comment' or (o.kind == 'comment-extra' and o.args[2]):
            if comment_at is None:
                comment_at = i
                for b in text.ops[:i]:
                    # operations before the comment is removed must leave every `#` where it is
                    if b.kind == 'replace':
                        old, new = b.args
                        if '#' in old and '#' not in new:
                            comment_late = True          # the comment marker is gone: the comment text becomes tokens
                        elif '#' in new and (old != '#' or new.strip() != '#'):
                            raise AnalysisError('lex_tokens: replace({!r}, {!r}) before the comment is removed changes where comments start (outside the rules)'.format(old, new))
                    elif b.kind == 'strip':
                        if b.args[1] is not None and '#' in b.args[1]:
                            comment_late = True
                    elif b.kind != 'sepnorm':
                        raise AnalysisError('lex_tokens: {} precedes the removal of the comment (outside the rules)'.format(b.kind))
            stripped = False
        elif o.kind == 'hash-other':
            hash_other = o
        elif o.kind == 'strip':
            side, chars = o.args
            if chars is not None and not all(_sepish(c) or c == '#' for c in chars):
                raise AnalysisError('lex_tokens: strip({!r}) removes token characters'.format(chars))
            if side == 'both' and (chars is None or (' ' in chars and '\t' in chars)):
                stripped = True
        elif o.kind == 'replace':
            old, new = o.args
            if old == new:
                continue
            if '#' in old and comment_at is not None:
                continue                  # no `#` is left once the comment is removed
            if old == '#' and not new.strip():
                continue                  # the marker is deleted before the comment is removed: judged by R13.4 (comment_late)
            if new and all(_sepish(c) for c in new):
                if len(old) != 1:
                    raise AnalysisError('lex_tokens: replace({!r}, {!r}) before the split is outside the rules'.format(old, new))
                extra_seps.add(('LITERAL', ord(old)))
                stripped = False if stripped is not None else None
            elif len(old) == 1 and old in new and all(c == old or c.isspace() for c in new):
                if new[0].isspace() or new[-1].isspace():
                    stripped = False if stripped is not None else None
            else:
                raise AnalysisError('lex_tokens: replace({!r}, {!r}) rewrites token text before the split (outside the rules)'.format(old, new))
        elif o.kind == 'sepnorm':
            if stripped:
                stripped = None
        elif o.kind == 'deletes':
            deleted.append(o)
    eff = set(sep.chars) | extra_seps
    # --- R13.3 separators
    others = sorted(c for c in eff if not (c == SPACE or c == COMMA or (c[0] == 'LITERAL' and chr(c[1]).isspace())))
    has_ws = SPACE in eff
    if not has_ws and ('LITERAL', 32) in eff and ('LITERAL', 9) in eff:
        raise AnalysisError('lex_tokens: whitespace separators are spelled as literal characters in {}: equality with the documented '
                            '`whitespace` is not decided'.format(sep.text))
    ok = has_ws and COMMA in eff and not others and sep.min_width >= 1 and not sep.capturing
    why = []
    if not has_ws:
        why.append('whitespace does not separate tokens')
    if COMMA not in eff:
        why.append('a comma does not separate tokens')
    if others:
        why.append('{} also separate tokens'.format([chr(c[1]) if c[0] == 'LITERAL' else c[1] for c in others]))
    if sep.min_width < 1:
        why.append('the pattern matches the empty string, so every character becomes a token')
    if sep.capturing:
        why.append('the separators are captured and returned as tokens')
    rep.check(ok, 'R13.3.separators', 'tokens are separated by one or more of: whitespace, comma',
              lambda: Finding('R13.3.separators', 'lex_tokens', sp,
                              'the token separator {} (with the replacements before it) does not consume exactly runs of whitespace and commas ({}): '
                              '`addi x1, x0, 1` and `addi x1 x0 1` no longer lex alike'.format(sep.text, '; '.join(why)), line=getattr(sp, 'lineno', None)))
    for o in deleted:
        rep.fail(Finding('R13.3.separators', 'lex_tokens', o.node or sp,
                         're.sub({!r}, {!r}) rewrites the line text before it is split and loses characters: {}; whether a blank is written '
                         'at that place now changes the tokens'.format(o.args[0], o.args[1], o.args[2]), line=getattr(o.node or sp, 'lineno', None)),
                 instance='no text is deleted before the split')
    if not deleted:
        rep.ok('R13.3.separators', 'no text is deleted before the split', nontrivial=False)
    # --- R13.4 comments
    first = text.ops[0].node if text.ops and text.ops[0].node is not None else sp
    msg = 'comments are not stripped on the way from the line text to the token split (chain: {}): a trailing `# comment` would contribute tokens'.format(kinds)
    if hash_other is not None and comment_at is None:
        msg = ('the pattern {!r} does not remove a comment (`#` to the end of the line) from the line text: the line {!r} becomes {!r} (chain: {}): a trailing '
               '`# comment` would contribute tokens'.format(hash_other.args[0], hash_other.args[1][0], hash_other.args[1][1], kinds))
    elif comment_late:
        msg = 'the comment is removed only after the line text was rewritten by operations that involve `#` (chain: {})'.format(kinds)
    rep.check(comment_at is not None and not comment_late, 'R13.4.comments',
              'the comment (`#` to end of line) is removed from the line text before it is split',
              lambda: Finding('R13.4.comments', 'lex_tokens', first, msg, line=getattr(first, 'lineno', None)))
    # --- empty tokens
    rep.check(toks.nonempty, 'R13.3.separators', 'empty tokens are dropped',
              lambda: Finding('R13.3.separators', 'lex_tokens', sp, 'empty tokens produced by the split are kept', line=getattr(sp, 'lineno', None)), nontrivial=False)
    # --- R13.5 indentation: leading / trailing whitespace must not become a token
    if sep.implicit_strip or (toks.nonempty and has_ws):
        indent_ok = True
    elif stripped is None:
        raise AnalysisError('lex_tokens: cannot decide whether the text is free of leading / trailing whitespace at the split (chain: {})'.format(kinds))
    else:
        indent_ok = bool(stripped)
    rep.check(indent_ok, 'R13.5.indent', 'leading / trailing whitespace never yields a token (stripped before the split, or split off and dropped as empty tokens)',
              lambda: Finding('R13.5.indent', 'lex_tokens', sp, 'the line is neither stripped before being split nor are the empty tokens dropped: indentation produces an empty first token',
                              line=getattr(sp, 'lineno', None)))
    return sep.text


# ================================================================================================================
# R13.5: the reader (line numbers over the physical lines)
# ================================================================================================================
def _sp_read_lines(flow, args, kw, node, env):
    return Seq('lines', LineV(Text('contents'), Unk('number')), False, 'read_lines')


def is_blank_test(flow, test, truth, genv):
    """The condition (test == truth) holds exactly for blank raw lines."""
    env = dict(genv)
    cls = flow.emptiness(test, env)
    if cls is not None and isinstance(cls[0], Text) and cls[0].root == 'raw' and cls[1] == truth:
        ops = cls[0].ops
        return bool(ops) and all(o.kind == 'strip' and o.args[1] is None for o in ops)
    t, want = test, truth
    if isinstance(t, ast.UnaryOp) and isinstance(t.op, ast.Not):
        t, want = t.operand, not want
    if isinstance(t, ast.BoolOp) and isinstance(t.op, ast.Or) and want:
        # not raw or raw.isspace()
        got = set()
        for v in t.values:
            c = flow.emptiness(v, env)
            if c is not None and c[0] == Text('raw') and c[1] is True:
                got.add('empty')
                continue
            val = flow.eval(v, env)
            if val == Truth('isspace', Text('raw')):
                got.add('space')
                continue
            return False
        return got == {'empty', 'space'}
    return False


def check_reader(rep, facts):
    fn = facts.funcs.get('read_lines')
    if fn is None:
        raise AnalysisError('anchor vanished: read_lines')
    p = first_param(fn)
    flow = run_function(facts, fn, {p: Text('source')}, special={'read_lines': _sp_read_lines})
    lines = [e for e in flow.events if e[0] == 'Line']
    if not lines:
        raise AnalysisError('anchor vanished: no Line(file, number, contents) is built by read_lines (or a helper it calls)')
    keeps_cr = None
    for _kind, v, node, guards, _stack in lines:
        rep.count('Line constructions analysed')
        num, contents = v.number, v.contents
        if not isinstance(num, Idx):
            raise AnalysisError('read_lines: cannot follow the line number of `{}` to a position in the list of physical lines ({!r})'.format(unparse(node)[:80], num))
        if num.seq.kind != 'physical':
            raise AnalysisError('read_lines: line numbers count the elements of {!r}, not of the physical lines of the source'.format(num.seq.origin))
        if not (isinstance(contents, Text) and contents.root == 'raw' and all(o.kind in ('strip', 'cr-tail') for o in contents.ops)):
            raise AnalysisError('read_lines: the contents of `{}` are not the text of the numbered physical line ({!r})'.format(unparse(node)[:80], contents))
        if contents != num.seq.elem and contents.root != num.seq.elem.root:
            raise AnalysisError('read_lines: number and contents of a Line come from different lists')
        if keeps_carriage_return(contents):
            keeps_cr = node
        ok = not num.seq.filtered and not num.late
        rep.check(ok, 'R13.5.blank-lines', 'line numbers are taken from the unfiltered list of physical lines',
                  lambda: Finding('R13.5.blank-lines', 'read_lines', node,
                                  'line numbering is computed over a filtered line list: blank lines shift later numbers'
                                  if num.seq.filtered else 'the line counter advances only after lines may have been skipped: blank lines shift later numbers',
                                  line=node.lineno))
    # blank lines skipped by the reader itself (not needed for the property when lines without tokens are dropped before
    # the parser - see check_handover - but recorded)
    skipped = False
    for kind, _v, node, guards, _stack in flow.events:
        if kind != 'continue' or not guards:
            continue
        test, truth, genv = guards[-1]
        if isinstance(test, ast.expr) and is_blank_test(flow, test, truth, genv):
            skipped = True
    check_reader_directives(rep, flow)
    return ReaderFacts(skipped, keeps_cr)


class ReaderFacts:
    """What check_reader established: truthy when the reader skips blank lines itself; keeps_cr = the Line construction whose
    contents may still end in a carriage return (the source was cut at newlines only and nothing stripped the line), or None."""

    def __init__(self, skips_blank, keeps_cr):
        self.skips_blank, self.keeps_cr = skips_blank, keeps_cr

    def __bool__(self):
        return bool(self.skips_blank)


def keeps_carriage_return(text):
    keeps = False
    for o in text.ops:
        if o.kind == 'cr-tail':
            keeps = True
        elif o.kind == 'strip' and o.args[0] in ('right', 'both') and (o.args[1] is None or '\r' in o.args[1]):
            keeps = False
    return keeps


def check_reader_directives(rep, flow):
    """R13.4: a line whose first non-blank character is `#` is a comment, whatever follows.  The reader recognises its directives
    (include ...) by a prefix test on the raw line: no prefix may begin with `#`, and no leading `#` may be stripped before the
    test - unless all the test does is skip the line."""
    for kind, v, node, guards, _stack in flow.events:
        if kind != 'startswith':
            continue
        recv, prefixes = v
        if not (isinstance(recv, Text) and recv.root == 'raw') or prefixes is None:
            continue
        if any(o.kind not in ('case', 'strip', 'cr-tail') for o in recv.ops):
            continue
        hash_stripped = any(o.kind == 'strip' and o.args[0] in ('left', 'both') and o.args[1] is not None and '#' in o.args[1] for o in recv.ops)
        commentish = [p for p in prefixes if p.lstrip().startswith('#')]
        keywords = [p for p in prefixes if p.strip() and p.lstrip()[0].isalpha()]
        if not commentish and not (hash_stripped and keywords):
            rep.ok('R13.4.comment-lines', 'read_lines: the line prefixes {} do not reach into comment lines'.format(list(prefixes)), nontrivial=False)
            continue
        # which statement does the test guard?
        cur, par = node, getattr(node, '_parent', None)
        while par is not None and not isinstance(par, ast.stmt):
            cur, par = par, getattr(par, '_parent', None)
        if not (isinstance(par, ast.If) and any(n is node for n in ast.walk(par.test))):
            raise AnalysisError('read_lines: a prefix test that reaches into comment lines ({}) is used in `{}`: not followed'.format(commentish or keywords, unparse(par)[:60] if par is not None else '?'))
        body = [st for st in par.body if not isinstance(st, ast.Pass)]
        if body and all(isinstance(st, ast.Continue) for st in body):
            rep.ok('R13.4.comment-lines', 'read_lines: lines starting with `#` are only skipped', nontrivial=False)
            continue
        what = 'the prefix {!r}'.format(commentish[0]) if commentish else 'a prefix test after stripping leading `#` characters'
        rep.fail(Finding('R13.4.comment-lines', 'read_lines', par.test,
                         'the reader recognises a directive by {}: a line whose first non-blank character is `#` is a comment whatever follows, but '
                         '`#{}...` is acted upon (a commented-out directive is executed)'.format(what, (keywords or ['include '])[0].strip()), line=node.lineno),
                 instance='directives are not recognised in comment lines')


# ================================================================================================================
# R13.5: lines without tokens never reach the parser
# ================================================================================================================
def _sp_lex_tokens(flow, args, kw, node, env):
    line = args[0] if args else Unk('missing')
    screened = isinstance(line, LineV) and line.screened
    return LT(line, LexedToks(line), None if screened else False)


def _sp_parse_item(flow, args, kw, node, env):
    flow.event('parse_item', args[0] if args else Unk('missing'), node, env)
    return Unk('item')


def qual_of(node):
    cur = node
    while cur is not None:
        if isinstance(cur, (ast.FunctionDef, ast.AsyncFunctionDef)):
            return cur.name
        cur = getattr(cur, '_parent', None)
    return '<module>'


def reachable_functions(facts, root):
    seen, todo = set(), [root]
    while todo:
        f = todo.pop()
        if f in seen or f not in facts.funcs:
            continue
        seen.add(f)
        for n in ast.walk(facts.funcs[f]):
            if isinstance(n, ast.Name) and n.id in facts.funcs and n.id not in seen:
                todo.append(n.id)
    return seen


def parser_checks_emptiness(facts, flow_cls=Flow):
    """parse_item itself tests whether its token line is empty (then a missing filter in the caller is not decidable here)."""
    fn = facts.funcs.get('parse_item')
    if fn is None:
        return False
    p = first_param(fn)
    flow = Flow(facts)
    env = {p: LT(Unk('line'), Toks(Text('contents'), SepInfo({SPACE}, False, 1, True, '?'), False), False)}
    for st in fn.body:
        if isinstance(st, ast.Assign):
            flow.run_stmt(st, env)
            continue
        for n in ast.walk(st):
            if isinstance(n, ast.If) or isinstance(n, ast.IfExp):
                try:
                    cls = flow.emptiness(n.test, dict(env))
                except AnalysisError:
                    return True
                if cls is not None and isinstance(cls[0], (LT, Toks)):
                    return True
        break
    return False


def check_handover(rep, facts, reader_skips_blank):
    if 'assemble' not in facts.funcs:
        raise AnalysisError('anchor vanished: assemble')
    if 'parse_item' not in facts.funcs:
        raise AnalysisError('anchor vanished: parse_item')
    reach = reachable_functions(facts, 'assemble')
    special = {'read_lines': _sp_read_lines, 'lex_tokens': _sp_lex_tokens, 'parse_item': _sp_parse_item}
    # helpers worth following from assemble: those through which parse_item is reached
    users = {f for f in reach if f not in special and 'parse_item' in reachable_functions(facts, f)}
    flow = run_function(facts, facts.funcs['assemble'], {}, special=special, follow=users)
    events = [e for e in flow.events if e[0] == 'parse_item']
    seen_nodes = {id(e[2]) for e in events}
    for name in sorted(users):
        for n in ast.walk(facts.funcs[name]):
            if isinstance(n, ast.Name) and n.id == 'parse_item':
                par = getattr(n, '_parent', None)
                site = par if isinstance(par, ast.Call) else None
                if site is None or id(site) not in seen_nodes:
                    raise AnalysisError('{}: parse_item is used at line {} in a way the rules cannot follow from assemble'.format(name, n.lineno))
    sites = 0
    done = set()
    for _k, arg, node, guards, _stack in events:
        name = qual_of(node)
        sites += 1
        rep.count('parse_item hand-overs analysed')
        if not isinstance(arg, LT):
            raise AnalysisError('{}: cannot follow the argument of `{}` back to lex_tokens ({!r})'.format(name, unparse(node)[:80], arg))
        line = arg.line
        if not (isinstance(line, LineV) and isinstance(line.contents, Text) and line.contents.root == 'contents'):
            raise AnalysisError('{}: the token line given to `{}` is not lexed from a line of read_lines ({!r})'.format(name, unparse(node)[:80], line))
        if arg.nonempty is None:
            raise AnalysisError('{}: the token line given to `{}` went through a condition the rules do not understand: whether lines without '
                                'tokens are dropped is not decided'.format(name, unparse(node)[:80]))
        if not arg.nonempty and parser_checks_emptiness(facts):
            raise AnalysisError('{}: lines without tokens are not dropped before parse_item, and parse_item tests for emptiness itself: not decided'.format(name))
        rep.check(arg.nonempty is True, 'R13.5.blank-lines', 'lines without tokens (blank, comment-only) are dropped before parsing',
                  lambda: Finding('R13.5.blank-lines', name, node, 'comment-only lines reach the parser: a token line is handed to parse_item without '
                                  'a check that it has tokens', line=node.lineno), nontrivial=False)
    if not sites:
        raise AnalysisError('anchor vanished: no call of parse_item is reachable from assemble in a form the rules can follow')
    if reader_skips_blank:
        rep.ok('R13.5.blank-lines', 'blank lines are skipped by the reader', nontrivial=False)
    else:
        rep.note('read_lines does not skip blank lines itself; they are dropped as lines without tokens before the parser')


# ================================================================================================================
# R13.1: numeric register spellings in any base
# ================================================================================================================
def check_register_numbers(rep, facts, second_opinion=None):
    fn = facts.funcs.get('lookup_register')
    if fn is None:
        raise AnalysisError('anchor vanished: lookup_register')
    if 'REGISTERS' not in facts.tables:
        raise AnalysisError('anchor vanished: REGISTERS')
    p = first_param(fn)
    flow = run_function(facts, fn, {p: Reg('raw')})
    lookups = [e for e in flow.events if e[0] == 'reg-lookup']
    if not lookups:
        raise AnalysisError('lookup_register: no lookup in the REGISTERS table found on the way of the operand')
    for _k, key, node, guards, _stack in lookups:
        rep.count('register table lookups analysed')
        if not isinstance(key, Reg):
            raise AnalysisError('lookup_register: cannot follow the operand to the key of `{}` ({!r})'.format(unparse(node)[:60], key))
        if key.state == 'int':
            raise AnalysisError('lookup_register: the key of `{}` is always converted with int(): register names are outside this path'.format(unparse(node)[:60]))
        ok = key.state == 'norm' and key.base == 0
        if key.state == 'raw' and second_opinion is not None:
            # no conversion on the way through lookup_register itself: it may happen before the call (in the callers); that is what
            # the interprocedural encoder summaries decide
            verdict = second_opinion()
            if verdict is None:
                raise AnalysisError('lookup_register: the operand reaches `{}` unconverted, and where else it might be converted is not decided'.format(unparse(node)[:60]))
            if verdict:
                rep.ok('R13.1.registers', 'numeric register spellings in any base go through int(., 0) before lookup_register is called (encoder summaries)', nontrivial=False)
                continue
        if key.state == 'raw':
            msg = 'hex / binary register numbers are no longer normalised before the table lookup'
        else:
            msg = 'numeric register spellings are converted with int(., {}) instead of int(., 0): `0x1f` / `0b101` are no longer register numbers'.format(key.base)
        rep.check(ok, 'R13.1.registers', 'numeric register spellings in any base go through int(., 0)',
                  lambda: Finding('R13.1.registers', 'lookup_register', node, msg, line=node.lineno), nontrivial=False)


# ================================================================================================================
# R13.1: an operand position that takes register spellings treats every documented spelling alike
# ================================================================================================================
def int_predicates(facts):
    """Module-level functions that answer `is this text a number` (the try / int(text, 0) form, or the helper judged by R13.7)."""
    flow = Flow(facts)
    out = {name for name in facts.funcs if flow.is_int_predicate(name)}
    if 'is_int' in facts.funcs:
        out.add('is_int')
    return out


def numeric_branch(test, preds):
    """(operand name, True if the body / False if the else-side is the side reached only by numeric spellings); None when the
    test holds no numeric-literal test of a plain name; ('?', None) when it holds one in a position whose meaning is not followed."""
    def call_of(n):
        if isinstance(n, ast.Call) and isinstance(n.func, ast.Name) and n.func.id in preds and len(n.args) == 1 and not n.keywords and isinstance(n.args[0], ast.Name):
            return n.args[0].id
        return None
    if call_of(test):
        return call_of(test), True
    if isinstance(test, ast.UnaryOp) and isinstance(test.op, ast.Not):
        r = numeric_branch(test.operand, preds)
        if r is None or r[1] is None:
            return r
        # not (A and is_int(x)): the body is not `numeric only`, and the else-side is; not is_int(x): likewise
        return r[0], (not r[1])
    if isinstance(test, ast.BoolOp):
        hits = [numeric_branch(v, preds) for v in test.values]
        hits = [h for h in hits if h is not None]
        if not hits:
            return None
        if len(hits) == 1 and hits[0][1] is not None:
            name, side = hits[0]
            if isinstance(test.op, ast.And) and side is True:
                return name, True            # body only with a numeric spelling
            if isinstance(test.op, ast.Or) and side is False:
                return name, False           # else-side only with a numeric spelling
        return '?', None
    if any(call_of(n) for n in ast.walk(test)):
        return '?', None
    return None


def item_constructions(stmts, facts):
    """Constructor calls of item classes in the statements (nested blocks included, nested functions not)."""
    out = []
    todo = list(stmts)
    while todo:
        n = todo.pop()
        if isinstance(n, (ast.FunctionDef, ast.AsyncFunctionDef, ast.ClassDef, ast.Lambda)):
            continue
        if isinstance(n, ast.Call) and isinstance(n.func, ast.Name) and n.func.id in facts.classes and facts.is_subclass(n.func.id, 'Item'):
            out.append(n)
        todo.extend(ast.iter_child_nodes(n))
    return out


def params_receiving(call, name, facts):
    """Constructor parameters of `call` that receive the plain name `name`."""
    params = [p for p, _ in facts.init_params(call.func.id)]
    out = []
    for i, a in enumerate(call.args):
        if isinstance(a, ast.Starred):
            return None
        if isinstance(a, ast.Name) and a.id == name and i < len(params):
            out.append(params[i])
    for k in call.keywords:
        if k.arg is None:
            return None
        if isinstance(k.value, ast.Name) and k.value.id == name:
            out.append(k.arg)
    return out


def register_parameter(facts, cls, param, mnemonics):
    """Does the constructor parameter end up in an encoder parameter that is looked up in the register table?  True / False;
    AnalysisError when the encoders of the mnemonics disagree or the route cannot be followed."""
    attr = next((a for a, src in facts.full_attr_order(cls) if src == param), None)
    args_attrs = facts.args_attrs(cls)
    if attr is None or not args_attrs or attr not in args_attrs:
        return False
    k = args_attrs.index(attr)
    verdicts = set()
    for m in mnemonics:
        part = facts.binding(m)
        fdef = facts.funcs.get(part.func)
        if fdef is None:
            raise AnalysisError('encoder {} of {} not found'.format(part.func, m))
        open_params = [a.arg for a in fdef.args.args if a.arg not in part.kwargs]
        if k >= len(open_params):
            raise AnalysisError('{}: args() of {} and the parameters of {} do not line up'.format(m, cls, part.func))
        q = open_params[k]
        verdicts.add(any(isinstance(n, ast.Call) and dotted(n.func) == 'lookup_register' and n.args and isinstance(n.args[0], ast.Name) and n.args[0].id == q
                         for n in ast.walk(fdef)))
    if len(verdicts) != 1:
        raise AnalysisError('parameter {} of {} is a register for some mnemonics only'.format(param, cls))
    return verdicts.pop()


def same_but_converted(call, ref, name):
    """`call` is the construction `ref` with the plain operand `name` replaced by int(name, 0) / int(name, base=0)."""
    if call.func.id != ref.func.id or len(call.args) != len(ref.args) or call.keywords or ref.keywords:
        return False
    converted = 0
    for a, b in zip(call.args, ref.args):
        if isinstance(b, ast.Name) and b.id == name:
            ok = (isinstance(a, ast.Call) and isinstance(a.func, ast.Name) and a.func.id == 'int' and a.args
                  and isinstance(a.args[0], ast.Name) and a.args[0].id == name)
            if ok:
                base = a.args[1] if len(a.args) > 1 else next((k.value for k in a.keywords if k.arg == 'base'), None)
                ok = isinstance(base, ast.Constant) and base.value == 0
            if not ok:
                return False
            converted += 1
        elif ast.dump(a) != ast.dump(b):
            return False
    return converted > 0


def enclosing_mnemonics(node, facts):
    """Mnemonics of the parser arm the node sits in: the nearest enclosing `if <head> in <mnemonic table>` whose body holds it."""
    tables = facts.instruction_tables()
    child = node
    cur = getattr(node, '_parent', None)
    while cur is not None and not isinstance(cur, (ast.FunctionDef, ast.AsyncFunctionDef)):
        if isinstance(cur, ast.If) and child in cur.body:
            for n in ast.walk(cur.test):
                if isinstance(n, ast.Compare) and len(n.ops) == 1 and isinstance(n.ops[0], ast.In) and isinstance(n.comparators[0], ast.Name) and n.comparators[0].id in tables:
                    return list(tables[n.comparators[0].id])
        child, cur = cur, getattr(cur, '_parent', None)
    return None


def statements_after(node):
    """The statements that run after `node` in its own block."""
    par = getattr(node, '_parent', None)
    for field in ('body', 'orelse', 'finalbody'):
        blk = getattr(par, field, None)
        if isinstance(blk, list) and node in blk:
            return blk[blk.index(node) + 1:]
    return []


def check_operand_spelling(rep, facts, helpers=()):
    """A number is a documented spelling of a register (`12` is x12).  Where the parser tests an operand with the numeric-literal
    helper and the operand is, on the other side of the test, a register operand, the numeric side must not turn the line into
    something else: `add a0, a1, 12` and `add a0, a1, x12` are the same instruction."""
    if 'parse_item' not in facts.funcs:
        raise AnalysisError('anchor vanished: parse_item')
    preds = int_predicates(facts) | set(helpers)
    if not preds:
        return            # (R13.7 reports the missing helper: no verdict, not a pass)
    scope = [f for f in reachable_functions(facts, 'parse_item') if f not in preds and f not in ('lex_tokens', 'read_lines')]
    for fname in sorted(scope):
        fn = facts.funcs[fname]
        for node in ast.walk(fn):
            if not isinstance(node, ast.If):
                continue
            hit = numeric_branch(node.test, preds)
            if hit is None:
                continue
            rep.count('numeric tests on operands analysed')
            name, body_is_numeric = hit
            after = statements_after(node)
            if body_is_numeric is None:
                # which side is the numeric one is not followed: only harmless when no tested name is a register operand anywhere near
                names = {n.args[0].id for n in ast.walk(node.test) if isinstance(n, ast.Call) and isinstance(n.func, ast.Name) and n.func.id in preds
                         and n.args and isinstance(n.args[0], ast.Name)}
                for c in item_constructions(node.body + node.orelse + after, facts):
                    for x in names:
                        got = params_receiving(c, x, facts)
                        if got is None or got:
                            raise AnalysisError('{}: `{}` combines a numeric-literal test with other conditions in a way the rules do not follow, and `{}` is '
                                                'handed to {}'.format(fname, unparse(node.test)[:80], x, c.func.id))
                continue
            numeric_side = node.body if body_is_numeric else node.orelse + after
            other_side = (node.orelse + after) if body_is_numeric else node.body
            # is the operand a register operand for the spellings that are not numbers?
            reg_uses = []
            for c in item_constructions(other_side, facts):
                got = params_receiving(c, name, facts)
                if got is None:
                    raise AnalysisError('{}: {} is built from star-arguments next to a numeric-literal test of `{}`'.format(fname, c.func.id, name))
                for p in got:
                    mns = enclosing_mnemonics(node, facts)
                    if mns is None:
                        raise AnalysisError('{}: cannot tell which mnemonics `{}` stands for where `{}` is tested as a number and handed to {}.{}'.format(
                            fname, unparse(node.test)[:60], name, c.func.id, p))
                    if register_parameter(facts, c.func.id, p, mns):
                        reg_uses.append((c, p))
            if not reg_uses:
                rep.ok('R13.1.operand-spelling', '{}: `{}` is no register operand (line {})'.format(fname, name, node.lineno), nontrivial=False)
                continue
            c0, p0 = reg_uses[0]
            # the operand is a register: what happens to its numeric spellings?
            if any(name in assigned_names([st]) for st in numeric_side):
                raise AnalysisError('{}: the register operand `{}` is rewritten where it is spelled as a number: not decided'.format(fname, name))
            builds = item_constructions(numeric_side, facts)
            exits = [n for st in numeric_side for n in ast.walk(st) if isinstance(n, (ast.Return, ast.Raise))]
            if body_is_numeric and not exits and not builds:
                rep.ok('R13.1.operand-spelling', '{}: numeric spellings of register operand `{}` continue to the same construction'.format(fname, name))
                continue
            # the same construction with the operand converted by int(., 0): what lookup_register does first anyway (R13.1.registers)
            if builds and all(same_but_converted(c, c0, name) for c in builds):
                rep.ok('R13.1.operand-spelling', '{}: numeric spellings of register operand `{}` are converted with int(., 0) and built alike'.format(fname, name))
                continue
            raises = [n for n in exits if isinstance(n, ast.Raise)]
            as_immediate = [n for st in numeric_side for n in ast.walk(st)
                            if isinstance(n, ast.Call) and dotted(n.func) == 'parse_immediate'
                            and any(isinstance(x, ast.Name) and x.id == name for a in n.args for x in ast.walk(a))]
            for c in builds:
                if params_receiving(c, name, facts) is None:
                    raise AnalysisError('{}: {} is built from star-arguments where `{}` is spelled as a number'.format(fname, c.func.id, name))
            if not (raises and not builds) and not as_immediate:
                raise AnalysisError('{}: what happens to numeric spellings of the register operand `{}` ({}) is not understood: neither refused, nor '
                                    'parsed as an immediate, nor the same construction'.format(fname, name, unparse(node.test)[:60]))
            what = ('builds {}'.format(', '.join(sorted({c.func.id for c in builds}))) if builds else 'refuses the line')
            rep.fail(Finding('R13.1.operand-spelling', fname, node,
                             '`{}` is a register operand ({}.{} is looked up in the register table), and a bare number is a documented spelling of a register; '
                             'where it is spelled as a number (`{}`) the parser {} instead: `... 12` and `... x12` name the same register and assemble '
                             'differently'.format(name, c0.func.id, p0, unparse(node.test)[:80], what), line=node.lineno),
                     instance='{} {}'.format(fname, name))
